#!/usr/bin/env python3
"""Regenerates MANIFEST.json from the table below (single source of truth)."""
import json, os
HERE = os.path.dirname(os.path.dirname(os.path.abspath(__file__)))
props = [json.loads(l) for l in open(os.path.join(HERE, "properties.jsonl"))]
from manifest_table import CHECKS, NOT_APPLICABLE  # noqa
from manifest_audit import AUDIT, NOTE  # noqa
m = {
    "version": 1,
    "setup_cmd": "true",
    "hooks": {
        "guard": "TRIMESH_VERIF",
        "enable": "no source hooks: the harness wraps public trimesh APIs from outside when TRIMESH_VERIF=1 (bin/check sets it)",
        "baseline_off_cmd": "cd /repo && env -u TRIMESH_VERIF /venv/bin/python -m pytest -ra -q -p no:cacheprovider --timeout=900 --continue-on-collection-errors",
        "source_commits": [],
        "add_only": True,
    },
    "engines": [{"name": "tlc", "path": "/opt/veriftools/tla/tla2tools.jar",
                 "serves_properties": [c["property_id"] for c in CHECKS],
                 "kind_free_text": "TLA+ specs in /verif/spec checked with TLC; spec behaviours replayed into the real code and recorded results validated by TLC"}],
    "checks": [],
    "not_applicable": [],
    "notes": "See DESIGN.md. Every check: TLC model-checks / evaluates the TLA+ spec, then binds it to /repo's working tree by replay or batch trace validation.",
}
for c in CHECKS:
    pid = c["property_id"]
    m["checks"].append({
        "property_id": pid,
        "quick_cmd": f"bin/check {pid} --tier quick",
        "thorough_cmd": f"bin/check {pid} --tier thorough",
        "evidence_file": f"/verif/evidence/{pid}.json",
        "replay_cmd_template": f"bin/check {pid} --replay {{path}}",
        "engine": "tlc",
        "level_claimed": {"category": c["category"], "text": (c["text"] + " " + AUDIT.get(pid, "")).strip(), "design_ref": c.get("design_ref", "DESIGN.md section 4 " + pid)},
        "level_note": NOTE.get(pid, c["note"]),
        "technique": c["technique"],
    })
claimed = {c["property_id"] for c in CHECKS}
for p in props:
    if p["id"] not in claimed:
        m["not_applicable"].append({"property_id": p["id"], "reason": NOT_APPLICABLE.get(p["id"], "check not built yet (planned, DESIGN.md section 4); not claimed until it runs clean")})
json.dump(m, open(os.path.join(HERE, "MANIFEST.json"), "w"), indent=1)
print("checks:", sorted(claimed), "not_applicable:", [x["property_id"] for x in m["not_applicable"]])
