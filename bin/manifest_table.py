CHECKS = [
 {"property_id": "C09", "category": "model_checking",
  "technique": "TLA+ state machine (SceneGraph.tla) model-checked with TLC; TLC-emitted behaviours replayed into the real SceneGraph and every get compared with the spec's RefGet",
  "text": "TLC exhaustively checks the implementation-shaped SceneGraph model (edge table, parents, path cache, hash memo, hash-keyed transform cache) against GetIsPathProduct for all histories up to the depth bound on 4 frames, and every emitted behaviour (state cover, all short histories, simulated long ones) is replayed into the real class with each answer compared to the reference product. History-dependence is the failure mode here and bounded exhaustive histories are the right level for it.",
  "note": "Trusts TLC, the 90-line adapter in checks/c09.py, numpy allclose(1e-9); matrices limited to SE(2,Z) embedded in 4x4; frames <= 5, depth <= 12."},
]
NOT_APPLICABLE = {}
