CHECKS = [
 {"property_id": "C09", "category": "model_checking",
  "technique": "TLA+ state machine (SceneGraph.tla) model-checked with TLC; TLC-emitted behaviours replayed into the real SceneGraph and every get compared with the spec's RefGet",
  "text": "TLC exhaustively checks the implementation-shaped SceneGraph model (edge table, parents, path cache, hash memo, hash-keyed transform cache) against GetIsPathProduct for all histories up to the depth bound on 4 frames, and every emitted behaviour (state cover, all short histories, simulated long ones) is replayed into the real class with each answer compared to the reference product. History-dependence is the failure mode here and bounded exhaustive histories are the right level for it.",
  "note": "Trusts TLC, the 90-line adapter in checks/c09.py, numpy allclose(1e-9); matrices limited to SE(2,Z) embedded in 4x4; frames <= 5, depth <= 12."},
 {"property_id": "C02", "category": "model_checking",
  "technique": "TLA+ state machine of dirty flags / memoised hashes over aliased buffers (TrackedArray.tla) checked with TLC; every abstract program replayed on real TrackedArrays through a catalogue of numpy routes, real hash compared with hash of mirror bytes",
  "text": "TLC shows the intended design satisfies HashFresh and that in the as-built model every stale hash is caused by one of three named deviations; all abstract programs up to the depth bound (roots, tracked views, base-class views, overridden / C-level writes, reads, hash reads) are instantiated with concrete numpy routes and replayed. A stale real hash that the as-built model does not predict through a listed deviation is a violation; container hashes (mesh, path, point cloud, visual, scene) are compared with freshly built containers and must change when member bytes change.",
  "note": "Trusts TLC, the route catalogue in checks/c02.py (finite, listed in the evidence), xxhash collisions ignored. Known findings ViewHeldAcrossHash / CLevelWrite / BaseClassViewWrite are attributed only where the as-built model predicts them."},
]
NOT_APPLICABLE = {}
