#!/usr/bin/env python3
"""Prints the markdown tables of DESIGN.md section 0.9 from seeded/*/meta.json and benign/*/meta.json."""
import glob, json, os, re
HERE = os.path.dirname(os.path.dirname(os.path.abspath(__file__)))
def first_line(notes, n=170):
    t = " ".join(x.strip() for x in notes.splitlines() if x.strip() and not x.startswith("#"))
    t = re.sub(r"\s+", " ", t)
    return (t[:n] + "...") if len(t) > n else t
print("| change | what it does (from the author's notes) | repository tests with the change | caught by | clauses |")
print("|---|---|---|---|---|")
for d in sorted(glob.glob(os.path.join(HERE, "seeded", "C*-m*"))):
    m = json.load(open(os.path.join(d, "meta.json")))
    by = m["property"] if m.get("detected") else ""
    other = m.get("other_checks_tried", "")
    for tok in other.split():
        if ":exit=1:" in tok or tok.endswith(":exit=1"):
            by = (by + " " if by else "") + tok.split(":")[0] + " (other property's check)"
    if not by:
        by = "NOT CAUGHT"
    cl = m.get("violation_clauses", "").replace("violation clauses: ", "")
    cl = ", ".join(re.findall(r'"([^"]+)":', cl)[:3])
    print(f"| {m['name']} | {first_line(m.get('needs_to_manifest',''))} | {m.get('repo_tests_with_change','')[-60:].strip()} | {by} | {cl} |")
print()
print("| change | what it changes (from the author's notes) | observable difference | check |")
print("|---|---|---|---|")
for d in sorted(glob.glob(os.path.join(HERE, "benign", "C*-b*"))):
    m = json.load(open(os.path.join(d, "meta.json")))
    print(f"| {m['name']} | {first_line(m.get('what_changed',''))} | {m.get('observable_difference','')[:110]} | {'quiet' if m.get('quiet') else 'ALARM: ' + m.get('violation_clauses','')[:80]} |")
