"""C02 - content hash of tracked arrays reflects current bytes.

TLC model-checks spec/TrackedArray.tla (intended design: HashFresh holds; as-built: every
stale hash is explained by one of three named deviations) and emits every program of
abstract steps up to a depth.  Each program is instantiated with concrete numpy routes from
a catalogue (item/slice/mask/fancy assignment, all in-place operators and methods, C-level
writers, view creators, readers) for the dtypes/shapes trimesh stores and replayed on real
TrackedArray objects.  After every hash step the real `__hash__()` is compared with the
`__hash__()` of a fresh tracked array built from a copy of the mirror content (no hash formula is
assumed).  A stale hash is a VIOLATION unless the as-built model
predicts staleness at that step through a listed deviation (known finding).  Container
hashes (Trimesh, Path2D, PointCloud, ColorVisuals, Scene) are compared with the hash of a
freshly built container at the end of every program.

Coverage audit additions:
* array kinds (n,2) float64, 3-D bool, (3,) and (4,4) float64; containers Path2D, face colours,
  TextureVisuals uv, PointCloud colours, a scene of point cloud + mesh + path;
* overridden routes __imatmul__, np.put / np.put_along_axis, further index forms; C-level routes
  out=(a,), positional out, where=, two-output ufuncs, accumulate, cumsum/round/choose/matmul/dot
  with out=, nditer readwrite, `a.flat = x`, `a.flat[i:j] = x`; view creators changing the dtype,
  numpy functions returning views, as_strided(subok=True);
* plain aliases that are not numpy views of the tracked object (np.frombuffer, memoryview, .base,
  np.ndarray(buffer=), as_strided, ascontiguousarray, dlpack, __array_interface__), attributed to
  BaseClassViewWrite by the as-built model;
* QViews in TrackedArray.tla: tracked aliases made through a plain intermediary
  (caching.tracked_array(a), np.asarray(a).view(TrackedArray)) whose creation does not mark the source;
  the as-built model attributes the resulting stale reads to ViewHeldAcrossHash;
* container-level histories (read / edit / edit again / restore / twin built separately / cached values read /
  library copy() taken and edited) on 11 kinds of container judged by TLC against spec/C02ContainerHash.tla
  (checks/c02_containers.py); the edits are in-place numpy routes on the member, the public setters (also
  None / empty and back), and the library's own mutators (apply_transform incl. mirrors, apply_scale, invert,
  rezero, merge_vertices, update_faces / update_vertices, process, ...) used as write routes;
* more construction routes for 'equal arrays hash equal'.
Every catalogue entry, array kind and container must really have been exercised (MachineryError otherwise).
"""
import sys
import time

import numpy as np

from harness import tlc
from harness.common import (MachineryError, Verdict, import_trimesh, pmap, seed,
                            tier_from_args)

PROP = "C02"
DEVS = ("ViewHeldAcrossHash", "CLevelWrite", "BaseClassViewWrite")

CFG = """CONSTANTS
  Roots <- {roots}
  TViews <- {tv}
  BViews <- {bv}
  QViews <- {qv}
  Root1 = "r"
  MaxDepth = {depth}
  AsBuilt = {asb}
SPECIFICATION Spec
{view}
{invs}
CHECK_DEADLOCK FALSE
"""


def cfg(depth, asb, invs, roots="Roots2", tv="TV1", bv="BV1", qv="QV0", view=True):
    return CFG.format(roots=roots, tv=tv, bv=bv, qv=qv, depth=depth, asb="TRUE" if asb else "FALSE",
                      view="VIEW View" if view else "", invs="\n".join("INVARIANT " + i for i in invs))


# ------------------------------------------------------------------ catalogue
KINDS = {
    "f3": lambda: np.arange(18, dtype=np.float64).reshape(6, 3)[::-1].copy() + 0.5,
    "i3": lambda: (np.arange(15, dtype=np.int64).reshape(5, 3)[::-1].copy() * 3 + 1),
    "u4": lambda: (np.arange(16, dtype=np.uint8).reshape(4, 4)[::-1].copy() * 5 + 3),
    "i1": lambda: np.arange(9, dtype=np.int64)[::-1].copy() * 7 + 2,
    # further dtypes / shapes the library keeps in tracked arrays: (n,2) float64 (Path2D vertices, uv),
    # 3-D bool (dense voxel encoding), (3,) float64 (centre of mass, box extents), (4,4) float64 (transforms)
    "f2": lambda: np.arange(10, dtype=np.float64).reshape(5, 2)[::-1].copy() * 1.5 + 0.25,
    "b3": lambda: (np.arange(24).reshape(3, 2, 4) % 3 == 0),
    "f1": lambda: np.array([0.5, 2.5, 1.5]),
    "f44": lambda: np.eye(4) + np.arange(16, dtype=np.float64).reshape(4, 4)[::-1] / 8,
}
NEW_KINDS = ("f2", "b3", "f1", "f44")


def _isint(a):
    return a.dtype.kind in "iu"


def _one(a):
    return a.dtype.type(1)


# overridden (Python-level) writers of TrackedArray: name -> (applicable, action)
def _w_item(a):
    a[(0,) * a.ndim] = a[(0,) * a.ndim] + _one(a)


def _w_row(a):
    a[0] = a[0] + _one(a)


def _w_slice(a):
    a[1:] = a[1:] + _one(a)


def _w_mask(a):
    m = np.zeros(a.shape, dtype=bool)
    m.flat[::2] = True
    a[m] = a[m] + _one(a)


def _w_fancy(a):
    a[[0, -1]] = a[[0, -1]] + _one(a)


def _w_ellipsis(a):
    a[...] = np.asarray(a).copy() + _one(a)


def _w_neg_index(a):
    a[-1] = a[-1] + _one(a)


def _iadd(a):
    a += _one(a)


def _isub(a):
    a -= _one(a)


def _imul(a):
    a *= a.dtype.type(3)


def _itruediv(a):
    a /= 2.0


def _ifloordiv(a):
    a //= a.dtype.type(2)


def _ipow(a):
    a **= 2


def _imod(a):
    a %= a.dtype.type(5)


def _ilshift(a):
    a <<= 1


def _irshift(a):
    a >>= 1


def _iand(a):
    a &= a.dtype.type(6)


def _ior(a):
    a |= a.dtype.type(8)


def _ixor(a):
    a ^= a.dtype.type(5)


def _fill(a):
    a.fill(a.flat[0] + _one(a))


def _sort(a):
    a.sort(axis=0)


def _partition(a):
    a.partition(1, axis=0)


def _put(a):
    a.put([0, 1], [a.flat[0] + _one(a), a.flat[1] + _one(a)])


def _byteswap(a):
    a.byteswap(inplace=True)


def _imatmul(a):
    n = a.shape[-1]
    a @= np.eye(n, dtype=a.dtype)[::-1] * a.dtype.type(2 if a.dtype.kind != "b" else 1)


def _w_col(a):
    a[..., 0] = a[..., 0] + _one(a)


def _w_cmp_mask(a):
    lo = np.asarray(a).min()
    a[a > lo] = lo


def _w_newaxis(a):
    a[None, 0] = a[0] + _one(a)


def _w_tuple_slices(a):
    a[1:, ...] = a[:-1, ...] + _one(a)


def _np_put(a):
    np.put(a, [0, -1], [a.flat[0] + _one(a), a.flat[-1] + _one(a)])


def _put_along_axis(a):
    np.put_along_axis(a, np.zeros((1,) * a.ndim, dtype=np.int64), a.flat[0] + _one(a), axis=0)


def _iadd_array(a):
    a += np.arange(a.shape[-1]).astype(a.dtype) + _one(a)


def _isub_self_row(a):
    a -= np.asarray(a)[0].copy()


def _imul_bool_and(a):
    a &= np.asarray(a)[::-1].copy()


def _setitem_list_index(a):
    a[[0]] = a[[-1]] + _one(a)


NEW_OVER = ("imatmul", "setitem_col", "setitem_cmp_mask", "setitem_newaxis", "setitem_tuple_slices", "np_put",
            "put_along_axis", "iadd_array", "isub_row", "iand_array", "setitem_list_index")

WRITE_OVER = [
    ("imatmul", lambda a: a.ndim >= 2, _imatmul), ("setitem_col", lambda a: True, _w_col),
    ("setitem_cmp_mask", lambda a: True, _w_cmp_mask), ("setitem_newaxis", lambda a: True, _w_newaxis),
    ("setitem_tuple_slices", lambda a: len(a) > 1, _w_tuple_slices), ("np_put", lambda a: a.size > 1, _np_put),
    ("put_along_axis", lambda a: True, _put_along_axis), ("iadd_array", lambda a: True, _iadd_array),
    ("isub_row", lambda a: a.ndim >= 2, _isub_self_row), ("iand_array", lambda a: a.dtype.kind in "iub", _imul_bool_and),
    ("setitem_list_index", lambda a: len(a) > 1, _setitem_list_index),
    ("setitem_item", lambda a: True, _w_item), ("setitem_row", lambda a: True, _w_row),
    ("setitem_slice", lambda a: len(a) > 1, _w_slice), ("setitem_mask", lambda a: True, _w_mask),
    ("setitem_fancy", lambda a: len(a) > 1, _w_fancy), ("setitem_ellipsis", lambda a: True, _w_ellipsis),
    ("setitem_neg", lambda a: True, _w_neg_index),
    ("iadd", lambda a: True, _iadd), ("isub", lambda a: True, _isub), ("imul", lambda a: True, _imul),
    ("itruediv", lambda a: a.dtype.kind == "f", _itruediv), ("ifloordiv", lambda a: True, _ifloordiv),
    ("ipow", lambda a: True, _ipow), ("imod", lambda a: True, _imod),
    ("ilshift", _isint, _ilshift), ("irshift", _isint, _irshift), ("iand", _isint, _iand),
    ("ior", _isint, _ior), ("ixor", _isint, _ixor),
    ("fill", lambda a: True, _fill), ("sort", lambda a: len(a) > 1, _sort),
    ("partition", lambda a: len(a) > 2, _partition), ("put", lambda a: a.size > 1, _put),
    ("byteswap", lambda a: a.dtype.itemsize > 1, _byteswap),
]


# C-level writers (bypass the overrides)
def _c_ufunc_out(a):
    np.add(a, _one(a), out=a)


def _c_copyto(a):
    np.copyto(a, np.asarray(a).copy() + _one(a))


def _c_flat(a):
    a.flat[0] = a.flat[0] + _one(a)


def _c_ufunc_at(a):
    np.add.at(a, (0,) * a.ndim, _one(a))


def _c_fill_diag(a):
    np.fill_diagonal(a, a.flat[0] + _one(a))


def _c_clip_out(a):
    lo = np.asarray(a).min() + _one(a)
    a.clip(lo, None, out=a)


def _c_np_clip(a):
    lo = np.asarray(a).min() + _one(a)
    np.clip(a, lo, None, out=a)


def _c_real(a):
    a.real = np.asarray(a).copy() + _one(a)


def _c_putmask(a):
    m = np.zeros(a.shape, dtype=bool)
    m.flat[0] = True
    np.putmask(a, m, a.flat[0] + _one(a))


def _c_place(a):
    m = np.zeros(a.shape, dtype=bool)
    m.flat[0] = True
    np.place(a, m, [a.flat[0] + _one(a)])


def _c_multiply_out(a):
    np.multiply(a, a.dtype.type(3), out=a)


def _c_shuffle(a):
    np.random.RandomState(3).shuffle(a)


def _c_flat_assign(a):
    a.flat = np.asarray(a).ravel()[::-1].copy() + _one(a)


def _c_flat_slice(a):
    a.flat[1:3] = a.flat[0] + _one(a)


def _c_out_tuple(a):
    np.add(a, _one(a), out=(a,))


def _c_out_positional(a):
    np.add(a, _one(a), a)


def _c_out_where(a):
    m = np.zeros(a.shape, dtype=bool)
    m.flat[::2] = True
    np.add(a, _one(a), out=a, where=m)


def _c_cumsum_out(a):
    a.cumsum(axis=0, out=a)


def _c_accumulate_out(a):
    np.add.accumulate(a, axis=0, out=a)


def _c_matmul_out(a):
    n = a.shape[-1]
    np.matmul(np.asarray(a).copy(), np.eye(n, dtype=a.dtype)[::-1] * a.dtype.type(2), out=a)


def _c_dot_out(a):
    n = a.shape[-1]
    np.dot(np.asarray(a).copy(), np.eye(n, dtype=a.dtype)[::-1] * a.dtype.type(2), out=a)


def _c_nditer(a):
    with np.nditer(a, op_flags=["readwrite"]) as it:
        for x in it:
            x[...] = x + _one(a)


def _c_copyto_where(a):
    lo = np.asarray(a).min()
    np.copyto(a, lo, where=np.asarray(a) > lo)


def _c_choose_out(a):
    np.choose(np.zeros(a.shape, dtype=np.int64), [np.asarray(a).copy() + _one(a)], out=a)


def _c_divmod_out(a):
    np.divmod(a, a.dtype.type(4), out=(a, np.empty(a.shape, dtype=a.dtype)))


def _c_round_out(a):
    a.round(0, out=a)


def _c_maximum_out(a):
    np.maximum(a, np.asarray(a).min() + _one(a), out=a)


def _c_logical_not_out(a):
    np.logical_not(a, out=a)


NEW_CLEVEL = ("flat_assign", "flat_slice", "out_tuple", "out_positional", "out_where", "cumsum_out", "accumulate_out",
              "matmul_out", "dot_out", "nditer_readwrite", "copyto_where", "choose_out", "divmod_out", "round_out",
              "maximum_out", "logical_not_out")

WRITE_CLEVEL = [
    ("flat_assign", lambda a: True, _c_flat_assign), ("flat_slice", lambda a: a.size > 2, _c_flat_slice),
    ("out_tuple", lambda a: True, _c_out_tuple), ("out_positional", lambda a: True, _c_out_positional),
    ("out_where", lambda a: True, _c_out_where), ("cumsum_out", lambda a: len(a) > 1, _c_cumsum_out),
    ("accumulate_out", lambda a: len(a) > 1, _c_accumulate_out), ("matmul_out", lambda a: a.ndim >= 2, _c_matmul_out),
    ("dot_out", lambda a: a.ndim == 2, _c_dot_out), ("nditer_readwrite", lambda a: True, _c_nditer),
    ("copyto_where", lambda a: True, _c_copyto_where), ("choose_out", lambda a: True, _c_choose_out),
    ("divmod_out", lambda a: a.dtype.kind != "b", _c_divmod_out), ("round_out", lambda a: a.dtype.kind == "f", _c_round_out),
    ("maximum_out", lambda a: True, _c_maximum_out), ("logical_not_out", lambda a: True, _c_logical_not_out),
    ("ufunc_out", lambda a: True, _c_ufunc_out), ("copyto", lambda a: True, _c_copyto),
    ("flat_setitem", lambda a: True, _c_flat), ("ufunc_at", lambda a: True, _c_ufunc_at),
    ("fill_diagonal", lambda a: a.ndim == 2, _c_fill_diag), ("clip_out", lambda a: True, _c_clip_out),
    ("np_clip_out", lambda a: True, _c_np_clip), ("real_setter", lambda a: a.dtype.kind == "f", _c_real),
    ("putmask", lambda a: True, _c_putmask), ("place", lambda a: True, _c_place),
    ("multiply_out", lambda a: True, _c_multiply_out),
]

# writers used through base-class (plain ndarray) views
WRITE_BASE = [("setitem_item", lambda a: True, _w_item), ("iadd", lambda a: True, _iadd),
              ("setitem_slice", lambda a: len(a) > 1, _w_slice), ("fill", lambda a: True, _fill),
              ("ufunc_out", lambda a: True, _c_ufunc_out), ("sort", lambda a: len(a) > 1, _sort)]

# creators of tracked views: applied identically to the tracked array and to its plain mirror
TVIEWS = [
    ("slice_tail", lambda a: len(a) > 2, lambda a: a[1:]),
    ("slice_head", lambda a: len(a) > 2, lambda a: a[:-1]),
    ("slice_cols", lambda a: a.ndim == 2, lambda a: a[:, :2]),
    ("transpose", lambda a: a.ndim == 2, lambda a: a.T),
    ("reshape_flat", lambda a: a.flags["C_CONTIGUOUS"], lambda a: a.reshape(-1)),
    ("ravel", lambda a: a.flags["C_CONTIGUOUS"], lambda a: a.ravel()),
    ("view", lambda a: True, lambda a: a.view()),
    ("ellipsis", lambda a: True, lambda a: a[...]),
    ("stride2", lambda a: len(a) > 2, lambda a: a[::2]),
    ("swapaxes", lambda a: a.ndim == 2, lambda a: a.swapaxes(0, 1)),
    ("newaxis", lambda a: True, lambda a: a[None]),
    ("reverse", lambda a: True, lambda a: a[::-1]),
    ("row0", lambda a: a.ndim == 2, lambda a: a[0]),
    ("view_dtype_same", lambda a: True, lambda a: a.view(a.dtype)),
    # views whose dtype differs from the source, numpy functions returning views, strided tricks
    ("view_uint8", lambda a: a.dtype.itemsize > 1, lambda a: a.view(np.uint8)),
    ("expand_dims", lambda a: True, lambda a: np.expand_dims(a, -1)),
    ("split_tail", lambda a: len(a) > 2, lambda a: np.split(a, [1])[1]),
    ("getitem_tuple", lambda a: a.ndim >= 2, lambda a: a[1:, ::2]),
    ("col_ellipsis", lambda a: a.ndim >= 2, lambda a: a[..., -1]),
    ("iter_row", lambda a: a.ndim >= 2, lambda a: next(iter(a))),
    ("as_strided_subok", lambda a: True, lambda a: np.lib.stride_tricks.as_strided(a, subok=True)),
    ("np_flip", lambda a: True, lambda a: np.flip(a, 0)),
    ("moveaxis", lambda a: a.ndim >= 2, lambda a: np.moveaxis(a, 0, -1)),
]
NEW_TVIEWS = ("view_uint8", "expand_dims", "split_tail", "getitem_tuple", "col_ellipsis", "iter_row",
              "as_strided_subok", "np_flip", "moveaxis")


def _flat_c(m):
    return m.reshape(-1)


def _same(m):
    return m


# base-class aliases: (name, applicable, creator on the tracked array, the same selection on the mirror)
BVIEWS = [
    ("view_ndarray", lambda a: True, lambda a: a.view(np.ndarray), _same),
    ("asarray", lambda a: True, lambda a: np.asarray(a), _same),
    ("array_copy_false", lambda a: True, lambda a: np.array(a, copy=False), _same),
    ("dunder_array", lambda a: True, lambda a: a.__array__(), _same),
    ("asarray_slice", lambda a: len(a) > 2, lambda a: np.asarray(a)[1:], lambda m: m[1:]),
    # plain arrays on the same memory that are not numpy views of the tracked object at all
    ("frombuffer", lambda a: a.flags["C_CONTIGUOUS"], lambda a: np.frombuffer(a, dtype=a.dtype), _flat_c),
    ("frombuffer_data", lambda a: a.flags["C_CONTIGUOUS"], lambda a: np.frombuffer(a.data, dtype=a.dtype), _flat_c),
    ("memoryview", lambda a: a.flags["C_CONTIGUOUS"], lambda a: np.asarray(memoryview(a)), _same),
    ("ndarray_buffer", lambda a: a.flags["C_CONTIGUOUS"], lambda a: np.ndarray(a.shape, a.dtype, buffer=a), _same),
    ("base_attribute", lambda a: type(a.base) is np.ndarray and a.base.shape == a.shape, lambda a: a.base, _same),
    ("as_strided", lambda a: True, lambda a: np.lib.stride_tricks.as_strided(a), _same),
    ("ascontiguousarray", lambda a: a.flags["C_CONTIGUOUS"] and a.ndim >= 1, lambda a: np.ascontiguousarray(a), _same),
    ("from_dlpack", lambda a: True, lambda a: np.from_dlpack(a), _same),
    ("array_interface", lambda a: True, lambda a: np.asarray(_Iface(a)), _same),
]
NEW_BVIEWS = ("frombuffer", "frombuffer_data", "memoryview", "ndarray_buffer", "base_attribute", "as_strided",
              "ascontiguousarray", "from_dlpack", "array_interface")


class _Iface:
    def __init__(self, a):
        self.__array_interface__ = a.__array_interface__
        self._keep = a


# tracked aliases whose creation passes through a plain ndarray, so that __array_finalize__ does not see
# (and does not mark) the tracked source: (name, applicable, creator(a, TrackedArray, tracked_array), mirror)
QVIEWS = [
    ("tracked_array", lambda a: a.flags["C_CONTIGUOUS"] and a.ndim >= 1, lambda a, TA, ta: ta(a), _same),
    ("asarray_view_tracked", lambda a: True, lambda a, TA, ta: np.asarray(a).view(TA), _same),
    ("view_ndarray_view_tracked", lambda a: True, lambda a, TA, ta: a.view(np.ndarray).view(TA), _same),
    ("frombuffer_view_tracked", lambda a: a.flags["C_CONTIGUOUS"],
     lambda a, TA, ta: np.frombuffer(a, dtype=a.dtype).view(TA), _flat_c),
    ("tracked_array_of_slice", lambda a: a.flags["C_CONTIGUOUS"] and len(a) > 2,
     lambda a, TA, ta: ta(np.asarray(a)[1:]), lambda m: m[1:]),
]


def _start(rng, j, n):
    """first catalogue index tried for variant rng at step j (multiplier coprime to the catalogue size)"""
    m = next(c for c in (7, 11, 13, 17, 19) if n % c)
    return rng * m + j * 3


def _layout_copy(m, root):
    """plain ndarray with the dtype, shape and strides of m over a private copy of the buffer of root"""
    flat = np.array(root).reshape(-1).view(np.uint8)
    off = m.__array_interface__["data"][0] - root.__array_interface__["data"][0]
    if off < 0 or off >= max(flat.size, 1):
        raise ValueError("selection outside the root buffer")
    return np.ndarray(m.shape, m.dtype, buffer=flat, offset=off, strides=m.strides)


def _same_memory(x, y):
    """x and y are the same selection of the same memory"""
    xi, yi = x.__array_interface__, y.__array_interface__
    return (xi["data"][0] == yi["data"][0] and x.shape == y.shape and x.dtype == y.dtype
            and (x.strides == y.strides or x.size <= 1 or np.array_equal(x, y)))

# byte-preserving readers; whether a route marks its source dirty is probed on the tree under test
READS = [
    ("add_scalar", lambda a: a + _one(a)), ("copy", lambda a: a.copy()), ("mul", lambda a: a * 2),
    ("astype", lambda a: a.astype(np.float32)), ("sum", lambda a: a.sum()), ("max", lambda a: a.max()),
    ("tolist", lambda a: a.tolist()), ("tobytes", lambda a: a.tobytes()), ("eq", lambda a: a == a),
    ("mean0", lambda a: a.mean(axis=0)), ("np_array", lambda a: np.array(a)), ("len", lambda a: len(a)),
    ("getitem_copy", lambda a: a[[0, 1]] if len(a) > 1 else a[[0]]), ("argsort", lambda a: a.argsort(axis=0)),
    ("repr", lambda a: repr(a)), ("min_axis", lambda a: a.min(axis=0)), ("unique", lambda a: np.unique(a)),
    ("setflags_same", lambda a: a.setflags(write=a.flags["WRITEABLE"])),
    ("getitem_scalar", lambda a: a[(0,) * a.ndim]),
    ("iter", lambda a: [x for x in a]),
]


def probe_reads(caching):
    """Classify every read route on this tree: does it set the source's dirty flag?"""
    cls = {}
    for kind, mk in KINDS.items():
        for name, f in READS:
            a = caching.tracked_array(mk())
            a.__hash__()
            before = a.tobytes()
            try:
                f(a)
            except Exception:
                cls[(kind, name)] = None
                continue
            if a.tobytes() != before:
                cls[(kind, name)] = None  # not byte preserving: never use
                continue
            cls[(kind, name)] = "read_d" if getattr(a, "_dirty_hash", True) else "read_c"
    return cls


def _scene3(trimesh, m):
    from trimesh.path.entities import Line
    sc = trimesh.Scene()
    sc.add_geometry(trimesh.PointCloud(KINDS["f3"]()[:4] * 2), node_name="n0", geom_name="cloud")
    sc.add_geometry(m, node_name="n1", geom_name="mesh", transform=trimesh.transformations.translation_matrix([9, 0, 0]))
    sc.add_geometry(trimesh.path.Path2D(entities=[Line([0, 1, 2, 3, 4, 0])], vertices=KINDS["f2"](), process=False),
                    node_name="n2", geom_name="path")
    return sc


def replay_one(env, beh, variant, kind, container, stats):
    """Replay one abstract program. Returns (failures, known, drift); counts what was exercised in stats."""
    caching, trimesh, readcls = env
    h = beh["h"]
    fails, known, drift = [], [], 0
    made = {"r": "root", "s": "root"}      # how each object came to be
    lastw = {}                              # buffer -> (op, route, creation route of the object written through)

    def count(key):
        stats[key] = stats.get(key, 0) + 1
    rng = variant
    objs, mirror = {}, {}
    holder = None
    raw_r = KINDS[kind]()
    raw_s = KINDS["i3"]()
    if container == "mesh" and kind == "f3":
        holder = trimesh.Trimesh(vertices=raw_r.copy(), faces=np.array([[0, 1, 2], [2, 3, 4], [3, 4, 5], [0, 2, 5], [1, 3, 5]]), process=False)
        objs["r"], objs["s"] = holder.vertices, holder.faces
    elif container == "path" and kind == "f3":
        from trimesh.path.entities import Line
        holder = trimesh.path.Path3D(entities=[Line([0, 1, 2, 3, 4, 5, 0])], vertices=raw_r.copy(), process=False)
        objs["r"] = holder.vertices
        objs["s"] = caching.tracked_array(raw_s)
    elif container == "points" and kind == "f3":
        holder = trimesh.PointCloud(raw_r.copy())
        objs["r"] = holder.vertices
        objs["s"] = caching.tracked_array(raw_s)
    elif container == "visual" and kind == "u4":
        m = trimesh.Trimesh(vertices=KINDS["f3"]()[:4], faces=[[0, 1, 2], [1, 2, 3]], process=False)
        m.visual.vertex_colors = raw_r.copy()
        holder = m.visual
        objs["r"] = holder._data["vertex_colors"]
        objs["s"] = caching.tracked_array(raw_s)
    elif container == "scene" and kind == "f3":
        m = trimesh.Trimesh(vertices=raw_r.copy(), faces=np.array([[0, 1, 2], [2, 3, 4], [3, 4, 5]]), process=False)
        holder = trimesh.Scene(m)
        objs["r"], objs["s"] = m.vertices, m.faces
    elif container == "path2d" and kind == "f2":
        from trimesh.path.entities import Line
        holder = trimesh.path.Path2D(entities=[Line([0, 1, 2, 3, 4, 0])], vertices=raw_r.copy(), process=False)
        objs["r"] = holder.vertices
        objs["s"] = caching.tracked_array(raw_s)
    elif container == "facecolor" and kind == "u4":
        m = trimesh.Trimesh(vertices=KINDS["f3"](), faces=[[0, 1, 2], [1, 2, 3], [2, 3, 4], [3, 4, 5]], process=False)
        m.visual.face_colors = raw_r.copy()
        holder = m.visual
        objs["r"] = holder._data["face_colors"]
        objs["s"] = caching.tracked_array(raw_s)
    elif container == "texture" and kind == "f2":
        holder = trimesh.visual.TextureVisuals(uv=raw_r.copy())
        objs["r"] = holder.vertex_attributes["uv"]
        objs["s"] = caching.tracked_array(raw_s)
    elif container == "pointcolor" and kind == "u4":
        holder = trimesh.PointCloud(KINDS["f3"]()[:4], colors=raw_r.copy()).visual
        objs["r"] = holder._colors
        objs["s"] = caching.tracked_array(raw_s)
    elif container == "scene3" and kind == "f3":
        # scene of a point cloud, a mesh and a path: the tracked roots are the arrays of the mesh
        m = trimesh.Trimesh(vertices=raw_r.copy(), faces=np.array([[0, 1, 2], [2, 3, 4], [3, 4, 5]]), process=False)
        holder = _scene3(trimesh, m)
        objs["r"], objs["s"] = m.vertices, m.faces
    else:
        container = None
        objs["r"] = caching.tracked_array(raw_r)
        objs["s"] = caching.tracked_array(raw_s)
    for k in ("r", "s"):
        a = objs[k]
        if not isinstance(a, caching.TrackedArray):
            raise MachineryError("root is not a TrackedArray: " + container)
        mirror[k] = np.frombuffer(a.data, dtype=a.dtype).reshape(a.shape) if a.size else np.asarray(a)
        if not np.shares_memory(mirror[k], a):
            raise MachineryError("mirror does not share memory")
        a.__hash__()  # the model's initial state: every root hashed once
    routes_used = []
    count("combo:%s/%s" % (kind, container))
    init_bytes = {k: np.ascontiguousarray(mirror[k]).tobytes() for k in ("r", "s")}
    init_hash = holder.__hash__() if holder is not None else None
    members = ["r", "s"] if container in ("mesh", "scene", "scene3") else ["r"]

    def pick(cat, a, j, extra=None):
        n = len(cat)
        for t in range(n):
            name, ok, f = cat[(_start(rng, j, n) + t) % n]
            try:
                if ok(a) and (extra is None or extra(name, f)):
                    return name, f
            except Exception:
                continue
        return None, None

    for j, st in enumerate(h):
        op, an = st["op"], st["a"]
        a = objs.get(an)
        if a is None:
            raise MachineryError("behaviour uses dead object")
        if op == "hash":
            got = a.__hash__()
            # the property-level value: the hash of a FRESH tracked array, built without history from a
            # C-ordered copy of the current content (same dtype and shape as the object that was read)
            true = caching.tracked_array(np.array(mirror[an], order="C", copy=True)).__hash__()
            if got != true:
                rec = {"clause": "HashFresh", "step": j, "array": an, "routes": routes_used,
                       "kind": kind, "container": container, "program": h}
                if st["stale"] and st["dev"]:
                    known.append((st["dev"], rec))
                    lw = lastw.get(an if an in ("r", "s") else "r", ("?", "?", "?"))
                    for dv in st["dev"]:
                        count("known:%s <- %s:%s through %s; read on %s" % (dv, lw[0], lw[1], lw[2], made[an]))
                else:
                    fails.append(rec)
                    return fails, known, drift
            elif st["stale"]:
                drift += 1
        elif op in ("write_over", "write_clevel", "write_base"):
            cat = {"write_over": WRITE_OVER, "write_clevel": WRITE_CLEVEL, "write_base": WRITE_BASE}[op]
            def runs_on_plain_copy(name, f, _m=mirror[an], _root=mirror[an if an in ("r", "s") else "r"]):
                # the route must be executable for this dtype / shape / memory layout (judged on a plain
                # copy of the whole buffer with the same selection, never on the object under test)
                f(_layout_copy(_m, _root))
                return True
            name, f = pick(cat, a, j, runs_on_plain_copy)
            if name is None:
                return fails, known, drift  # no applicable route: abandon (counted by caller)
            before = np.ascontiguousarray(mirror[an]).tobytes()
            try:
                f(a)
            except Exception as e:
                raise MachineryError(f"route {name} raised {type(e).__name__}: {e} on {kind}")
            routes_used.append(name)
            if np.ascontiguousarray(mirror[an]).tobytes() != before:
                # (when the bytes did not change, e.g. sort of sorted data, staleness is unobservable)
                count(op + ":" + name)
                lastw[an if an in ("r", "s") else "r"] = (op, name, made[an])
        elif op == "tview":
            vn = st["v"]

            def shares(name, f):
                nv = f(mirror[an])
                return np.shares_memory(nv, mirror[an]) and nv.size > 0
            name, f = pick(TVIEWS, a, j, shares)
            if name is None:
                return fails, known, drift
            nv = f(a)
            if not isinstance(nv, caching.TrackedArray) or not np.shares_memory(nv, a):
                raise MachineryError(f"view route {name} did not give a TrackedArray view")
            objs[vn], mirror[vn] = nv, f(mirror[an])
            routes_used.append(name)
            made[vn] = name
            count("tview:" + name)
        elif op == "bview":
            vn = st["v"]
            nv = None
            for t in range(len(BVIEWS)):
                name, ok, f, fm = BVIEWS[(_start(rng, j, len(BVIEWS)) + t) % len(BVIEWS)]
                try:
                    if not ok(a):
                        continue
                    nv, mv = f(a), fm(mirror[an])
                except Exception:
                    nv = None
                    continue
                break
            if nv is None:
                return fails, known, drift
            if isinstance(nv, caching.TrackedArray) or not _same_memory(nv, mv):
                raise MachineryError(f"base view route {name} gave {type(nv)} / not the mirrored memory")
            objs[vn], mirror[vn] = nv, mv
            routes_used.append(name)
            made[vn] = name
            count("bview:" + name)
        elif op == "qview":
            vn = st["v"]
            nv = None
            for t in range(len(QVIEWS)):
                name, ok, f, fm = QVIEWS[(_start(rng, j, len(QVIEWS)) + t) % len(QVIEWS)]
                try:
                    if not ok(a):
                        continue
                    nv, mv = f(a, caching.TrackedArray, caching.tracked_array), fm(mirror[an])
                except Exception:
                    nv = None
                    continue
                break
            if nv is None:
                return fails, known, drift
            if type(nv) is not caching.TrackedArray or not _same_memory(nv, mv):
                raise MachineryError(f"quiet alias route {name} gave {type(nv)} / not the mirrored memory")
            objs[vn], mirror[vn] = nv, mv
            routes_used.append(name)
            made[vn] = name
            count("qview:" + name)
        elif op in ("read_d", "read_c"):
            n = len(READS)
            done = False
            for t in range(n):
                name, f = READS[(rng * 5 + j * 3 + t) % n]
                if readcls.get((kind if an in ("r",) else "i3" if an == "s" else kind, name)) == op:
                    # classification was probed on a fresh root of this dtype; views behave the same
                    flag_before = getattr(a, "_dirty_hash", True)
                    f(a)
                    flag_after = getattr(a, "_dirty_hash", True)
                    if op == "read_c" and flag_after and not flag_before:
                        # more invalidation than predicted is harmless; keep the model in step by
                        # stopping this behaviour here
                        return fails, known, drift
                    if op == "read_d" and not flag_after:
                        return fails, known, drift
                    routes_used.append(name)
                    done = True
                    break
            if not done:
                return fails, known, drift
        else:
            raise MachineryError("unknown op " + op)
    # container hash at the end of the program: a function of the members' hashes
    if holder is not None:
        count("container_hash_compared:" + container)
        got = holder.__hash__()
        if container == "mesh":
            fresh = trimesh.Trimesh(vertices=np.array(mirror["r"]), faces=np.array(mirror["s"]), process=False)
        elif container == "path":
            from trimesh.path.entities import Line
            fresh = trimesh.path.Path3D(entities=[Line([0, 1, 2, 3, 4, 5, 0])], vertices=np.array(mirror["r"]), process=False)
        elif container == "points":
            fresh = trimesh.PointCloud(np.array(mirror["r"]))
        elif container == "visual":
            m = trimesh.Trimesh(vertices=KINDS["f3"]()[:4], faces=[[0, 1, 2], [1, 2, 3]], process=False)
            m.visual.vertex_colors = np.array(mirror["r"])
            fresh = m.visual
        elif container == "path2d":
            from trimesh.path.entities import Line
            fresh = trimesh.path.Path2D(entities=[Line([0, 1, 2, 3, 4, 0])], vertices=np.array(mirror["r"]), process=False)
        elif container == "facecolor":
            m = trimesh.Trimesh(vertices=KINDS["f3"](), faces=[[0, 1, 2], [1, 2, 3], [2, 3, 4], [3, 4, 5]], process=False)
            m.visual.face_colors = np.array(mirror["r"])
            fresh = m.visual
        elif container == "texture":
            fresh = trimesh.visual.TextureVisuals(uv=np.array(mirror["r"]))
        elif container == "pointcolor":
            fresh = trimesh.PointCloud(KINDS["f3"]()[:4], colors=np.array(mirror["r"])).visual
        elif container == "scene3":
            fresh = _scene3(trimesh, trimesh.Trimesh(vertices=np.array(mirror["r"]), faces=np.array(mirror["s"]), process=False))
        else:
            m = trimesh.Trimesh(vertices=np.array(mirror["r"]), faces=np.array(mirror["s"]), process=False)
            fresh = trimesh.Scene(m)
        want = fresh.__hash__()
        changed = any(np.ascontiguousarray(mirror[k]).tobytes() != init_bytes[k] for k in members)
        fin = {k: beh["fin"].get(k, {"stale": False, "dev": []}) for k in members}   # one-root programs never touch s
        predicted_stale = any(fin[k]["stale"] for k in members)
        if changed and got == init_hash and not predicted_stale:
            # the oracle above is built by the code under test; this clause is independent of it:
            # a container whose member bytes changed must not keep its hash
            fails.append({"clause": "ContainerHashChangesWithBytes", "container": container,
                          "routes": routes_used, "program": h})
        elif (not changed) and got != init_hash and not predicted_stale:
            fails.append({"clause": "ContainerHashStableWithoutWrite", "container": container,
                          "routes": routes_used, "program": h})
        if got != want:
            devs = sorted({d for k in members if fin[k]["stale"] for d in fin[k]["dev"]})
            rec = {"clause": "ContainerHashFresh", "container": container, "routes": routes_used, "program": h}
            if devs:
                known.append((devs, rec))
            else:
                fails.append(rec)
    return fails, known, drift


def _chunk(args):
    trimesh = import_trimesh()
    from trimesh import caching
    env = (caching, trimesh, probe_reads(caching))
    out_f, out_k = [], {}
    drift = 0
    n = 0
    stats = {}
    for idx, beh, nvar in args:
        for v in range(nvar):
            kind, cont = COMBOS[(idx + v) % len(COMBOS)]
            f, k, d = replay_one(env, beh, idx * 3 + v + seed(), kind, cont, stats)
            n += 1
            drift += d
            out_f.extend(f)
            for devs, rec in k:
                for dv in devs:
                    out_k.setdefault(dv, []).append(rec)
    for k in out_k:
        out_k[k] = (len(out_k[k]), out_k[k][:2])
    return out_f[:50], out_k, drift, n, stats


# (array kind, container) pairs the programs are replayed on
COMBOS = [("f3", None), ("i3", None), ("u4", None), ("i1", None), ("f3", "mesh"), ("f3", "path"),
          ("f3", "points"), ("u4", "visual"), ("f3", "scene"),
          ("f2", None), ("b3", None), ("f1", None), ("f44", None), ("f2", "path2d"), ("u4", "facecolor"),
          ("f2", "texture"), ("u4", "pointcolor"), ("f3", "scene3")]


def equal_arrays_hash_equal(trimesh, V):
    """Two meshes holding equal vertex and face arrays hash equal (built by different routes)."""
    n = 0
    rs = np.random.RandomState(seed())
    for _ in range(200):
        v = rs.randint(-3, 4, size=(6, 3)).astype(float)
        f = rs.randint(0, 6, size=(4, 3))
        a = trimesh.Trimesh(v.copy(), f.copy(), process=False)
        b = trimesh.Trimesh(v.tolist(), f.tolist(), process=False)
        c = trimesh.Trimesh(np.asfortranarray(v), f.astype(np.int32), process=False)
        d = trimesh.Trimesh(v * 0, f.copy(), process=False)
        d.vertices += v
        e = trimesh.Trimesh(v[::-1].copy(), f.copy(), process=False)
        e.vertices = e.vertices[::-1]
        hs = [m.__hash__() for m in (a, b, c, d, e)]
        n += 5
        if len(set(hs)) != 1:
            V.violation("EqualArraysHashEqual", {"vertices": v.tolist(), "faces": f.tolist(), "hashes": hs})
        g = trimesh.Trimesh(v + 1.0, f.copy(), process=False)
        if g.__hash__() == hs[0]:
            V.violation("DifferentArraysHashDifferent", {"vertices": v.tolist()})
    # scene hashes: geometries holding identical arrays, edited identically between two hash reads, and
    # one mesh registered under two names - the scene hash must still move with the bytes
    for variant in ("twins", "same_object_twice", "twins_faces"):
        v = np.arange(18, dtype=float).reshape(6, 3) % 5 + [[0.0, 0.5, 0.25]]
        f = np.array([[0, 1, 2], [2, 3, 4], [3, 4, 5]])
        a = trimesh.Trimesh(v.copy(), f.copy(), process=False)
        b = a if variant == "same_object_twice" else trimesh.Trimesh(v.copy(), f.copy(), process=False)
        sc = trimesh.Scene()
        sc.add_geometry(a, node_name="na", geom_name="left")
        sc.add_geometry(b, node_name="nb", geom_name="right", transform=trimesh.transformations.translation_matrix([9, 0, 0]))
        h0 = sc.__hash__()
        ext0 = np.array(sc.extents).copy()
        if variant == "twins_faces":
            a.faces[0] = a.faces[0][::-1]
            b.faces[0] = b.faces[0][::-1]
        else:
            a.vertices[1] += [3.0, 7.0, 11.0]
            if b is not a:
                b.vertices[1] += [3.0, 7.0, 11.0]
        h1 = sc.__hash__()
        n += 1
        fresh = trimesh.Scene()
        fa = trimesh.Trimesh(np.array(a.vertices), np.array(a.faces), process=False)
        fb = fa if variant == "same_object_twice" else trimesh.Trimesh(np.array(b.vertices), np.array(b.faces), process=False)
        fresh.add_geometry(fa, node_name="na", geom_name="left")
        fresh.add_geometry(fb, node_name="nb", geom_name="right", transform=trimesh.transformations.translation_matrix([9, 0, 0]))
        if h1 == h0:
            V.violation("SceneHashChangesWithGeometry", {"variant": variant, "hash": h1})
        elif h1 != fresh.__hash__():
            V.violation("SceneHashEqualsFreshScene", {"variant": variant})
        elif variant != "twins_faces" and np.allclose(np.array(sc.extents), ext0):
            V.violation("SceneValuesFollowHash", {"variant": variant})
    return n


def more_equal_array_routes(trimesh, V):
    """'two meshes holding equal vertex and face arrays hash equal', further construction routes: narrower
    input dtypes, arrays assigned in the other order, copies, pickling, arrays that went through edits and
    back, non-contiguous / read-only inputs; for meshes, point clouds and 2D paths."""
    import copy
    import pickle
    from trimesh.path.entities import Line
    n = 0
    rs = np.random.RandomState(seed() + 17)
    for _ in range(60):
        v = rs.randint(-3, 4, size=(6, 3)).astype(float) / 2
        f = rs.randint(0, 6, size=(4, 3))
        a = trimesh.Trimesh(v.copy(), f.copy(), process=False)
        ms = {"reference": a}
        ms["float32_uint8_input"] = trimesh.Trimesh(v.astype(np.float32), f.astype(np.uint8), process=False)
        b = trimesh.Trimesh(process=False)
        b.faces = f.copy()
        b.vertices = v.copy()
        ms["faces_assigned_first"] = b
        ms["copy"] = a.copy()
        ms["copy_copy"] = copy.copy(a)
        ms["deepcopy"] = copy.deepcopy(a)
        ms["pickle"] = pickle.loads(pickle.dumps(a))
        c = trimesh.Trimesh(v + 1, f[::-1].copy(), process=False)
        c.vertices -= 1
        c.faces[:] = c.faces[::-1].copy()
        c.__hash__()
        ms["edited_back"] = c
        wide = np.zeros((6, 6))
        wide[:, ::2] = v
        ro = f.copy()
        ro.setflags(write=False)
        ms["strided_and_readonly_input"] = trimesh.Trimesh(wide[:, ::2], ro, process=False)
        d = trimesh.Trimesh(v.copy(), f.copy(), process=False)
        d.__hash__()
        d.vertices = v.copy()
        d.faces = f.copy()
        ms["reassigned_after_hash"] = d
        hs = {k: m.__hash__() for k, m in ms.items()}
        n += len(ms)
        if len(set(hs.values())) != 1:
            V.violation("EqualArraysHashEqual", {"vertices": v.tolist(), "faces": f.tolist(),
                                                 "hashes": {k: str(x) for k, x in hs.items()}})
        # point clouds and paths holding equal vertex arrays
        p2 = v[:5, :2].copy()
        pcs = [trimesh.PointCloud(v.copy()), trimesh.PointCloud(v.tolist()), trimesh.PointCloud(v.astype(np.float32)),
               trimesh.PointCloud(v.copy()).copy()]
        paths = [trimesh.path.Path2D(entities=[Line([0, 1, 2, 3, 4, 0])], vertices=x, process=False)
                 for x in (p2.copy(), p2.tolist(), np.asfortranarray(p2))]
        paths.append(paths[0].copy())
        for name, objs in (("pointcloud", pcs), ("path2d", paths)):
            hs = [o.__hash__() for o in objs]
            n += len(objs)
            if len(set(hs)) != 1:
                V.violation("EqualArraysHashEqual", {"object": name, "vertices": v.tolist(), "hashes": [str(x) for x in hs]})
    return n


def _tlc_job(args):
    name, module, cfg_text, kw = args
    d = tlc.prepare("c02/" + name)
    # these state spaces are small: a modest heap per JVM keeps six concurrent runs light on a shared machine
    return name, tlc.run(d, module, cfg_text, java_opts=["-Xmx2g"], **kw)


def main(argv):
    from concurrent.futures import ThreadPoolExecutor
    from checks import c02_containers as cc
    tier = tier_from_args(argv)
    V = Verdict(PROP, tier)
    trimesh = import_trimesh()
    cov = {"tlc_runs": []}
    states = trans = 0

    def note(name, r):
        nonlocal states, trans
        states += r.distinct
        trans += r.generated
        cov["tlc_runs"].append({"run": name, "distinct": r.distinct, "generated": r.generated, "wall_s": round(r.wall, 1)})

    # all TLC runs are independent of each other: model checking of the intended and the as-built design
    # (with quiet aliases), and the emissions of the abstract programs
    big = dict(tv="TV2", qv="QV1", depth=8)
    depth = 5   # every program of 5 abstract steps (about 4e5); depth 6 would be 6e6 programs
    dc = 7 if tier == "quick" else 9
    dq = 8 if tier == "quick" else 10
    jobs = [
        ("intended", "TrackedArray", cfg(asb=False, invs=["HashFresh", "MemoNeverAhead", "ContainerFresh"], **big), dict(workers=4)),
        ("asbuilt", "TrackedArray", cfg(asb=True, invs=["StaleIsExplained", "MemoNeverAhead", "ContainerFresh"], **big), dict(workers=4)),
        ("asbuilt-cex", "TrackedArray", cfg(asb=True, invs=["HashFresh"], **big), dict(workers=2)),
        ("emit", "TrackedArray", cfg(asb=True, depth=depth, invs=["EmitLeaf"], view=False), dict(workers=1, timeout=1800)),
        ("emit-cover", "TrackedArray", cfg(asb=True, depth=dc, tv="TV2", invs=["EmitAll"]), dict(workers=1, timeout=1800)),
        # programs with a quiet tracked alias (tracked_array(a), np.asarray(a).view(TrackedArray), ...)
        ("emit-quiet", "TrackedArray", cfg(asb=True, depth=dq, roots="Roots1", qv="QV1", invs=["EmitAll"]), dict(workers=1, timeout=1800)),
    ]
    if tier == "thorough":
        jobs.append(("emit-sim", "TrackedArray", cfg(asb=True, depth=10, tv="TV2", qv="QV1", invs=["EmitLeaf"], view=False),
                     dict(workers=1, simulate="num=1500", depth=11, seed=seed() + 3, timeout=1800)))
        jobs.append(("emit-quiet-all", "TrackedArray", cfg(asb=True, depth=5, roots="Roots1", qv="QV1", invs=["EmitLeaf"], view=False),
                     dict(workers=1, timeout=1800)))
    t_tlc = time.time()
    with ThreadPoolExecutor(max_workers=len(jobs)) as ex:
        futs = {j[0]: ex.submit(_tlc_job, j) for j in jobs}
        # meanwhile: the container-level histories on the real objects (about a second)
        ccases, cper, cfam = cc.cases(trimesh, tier, seed())
        res = {k: f.result()[1] for k, f in futs.items()}
    cov["tlc_wall_s"] = round(time.time() - t_tlc, 1)
    note("intended design (2 tracked views, base view, quiet alias): HashFresh", tlc.must(res["intended"], "intended"))
    note("as-built: every stale hash explained by a named deviation", tlc.must(res["asbuilt"], "asbuilt"))
    if res["asbuilt-cex"].violated != "HashFresh":
        raise MachineryError("as-built model unexpectedly satisfies HashFresh: it no longer explains the known findings")
    cov["asbuilt_counterexample"] = "HashFresh violated as predicted"
    note(f"emit all programs of {depth} steps (1 tracked view, 1 base view, 2 roots)", tlc.must(res["emit"], "emit"))
    behs = list(res["emit"].printed)
    n_a = len(behs)
    note(f"emit state cover depth {dc} (2 tracked views)", tlc.must(res["emit-cover"], "emit-cover"))
    behs += res["emit-cover"].printed
    note(f"emit state cover depth {dq} with a quiet tracked alias", tlc.must(res["emit-quiet"], "emit-quiet"))
    quiet = [b for b in res["emit-quiet"].printed if any(s["op"] == "qview" for s in b["h"])]
    if tier == "thorough":
        note("simulate depth 10", res["emit-sim"])
        behs += res["emit-sim"].printed
        note("emit all programs of 5 steps with a quiet tracked alias (1 root)", tlc.must(res["emit-quiet-all"], "emit-quiet-all"))
        quiet += [b for b in res["emit-quiet-all"].printed if any(s["op"] == "qview" for s in b["h"])]
    if n_a < 1000:
        raise MachineryError("emission too small")
    if len(quiet) < 1000 or not any(s["op"] == "hash" and "ViewHeldAcrossHash" in s["dev"] and
                                    not any(x["op"] == "tview" for x in b["h"]) for b in quiet for s in b["h"]):
        raise MachineryError("quiet-alias emission too small / predicts no stale read through a quiet alias")
    n_q = len(quiet)
    behs += quiet
    nvar = 2 if tier == "quick" else len(COMBOS)   # thorough: every program on every array kind / container
    nvar_q = 10 if tier == "quick" else 18
    t0 = time.time()
    work = [(i, b, nvar) for i, b in enumerate(behs[:len(behs) - n_q])] + \
           [(i, b, nvar_q) for i, b in enumerate(quiet)]
    results = pmap(_chunk, work)
    nrep = 0
    drift = 0
    stats = {}
    for f, k, dft, n, st in results:
        nrep += n
        drift += dft
        for key, c in st.items():
            stats[key] = stats.get(key, 0) + c
        for rec in f:
            V.violation(rec["clause"], rec)
        for dv, (cnt, samples) in k.items():
            for s in samples:
                if not V.known_finding(dv, s):
                    V.violation("HashFresh", s, None)
            # count the remainder without storing them
            if dv in V.known and cnt > len(samples):
                V.known_hits[dv].extend([samples[0]] * 0)
                cov.setdefault("known_counts", {})
                cov["known_counts"][dv] = cov["known_counts"].get(dv, 0) + cnt
    replay_wall = time.time() - t0
    # coverage guards: every catalogue entry, array kind and container really took part
    need = 20 if tier == "quick" else 100
    for op, cat, new in (("write_over", WRITE_OVER, NEW_OVER), ("write_clevel", WRITE_CLEVEL, NEW_CLEVEL),
                         ("tview", TVIEWS, NEW_TVIEWS), ("bview", BVIEWS, NEW_BVIEWS), ("qview", QVIEWS, None)):
        for entry in cat:
            if stats.get(op + ":" + entry[0], 0) < need:
                raise MachineryError(f"route {op}:{entry[0]} exercised only {stats.get(op + ':' + entry[0], 0)} times")
        for name in new or ():
            if name not in [e[0] for e in cat]:
                raise MachineryError("catalogue lost " + name)
    for kind, cont in COMBOS:
        if stats.get("combo:%s/%s" % (kind, cont), 0) < 1000:
            raise MachineryError(f"array kind / container {kind}/{cont} hardly exercised")
        if cont and stats.get("container_hash_compared:" + cont, 0) < 200:
            raise MachineryError(f"container {cont}: hash hardly compared")
    attributed = {k[6:]: c for k, c in stats.items() if k.startswith("known:")}

    def n_attr(dev, word):
        return sum(c for k, c in attributed.items() if k.startswith(dev) and word in k)
    # the stale reads the reviewer listed are each attributed by the as-built model (or would be violations above)
    listed = {"np.copyto": n_attr("CLevelWrite", ":copyto"), "ufunc out=": n_attr("CLevelWrite", ":ufunc_out") +
              n_attr("CLevelWrite", ":out_tuple") + n_attr("CLevelWrite", ":out_positional") + n_attr("CLevelWrite", ":out_where"),
              ".flat assignment": n_attr("CLevelWrite", ":flat_"), "np.frombuffer alias": n_attr("BaseClassViewWrite", "through frombuffer"),
              "view held across a hash read": n_attr("ViewHeldAcrossHash", "write_over"),
              "quiet tracked alias": sum(n_attr("ViewHeldAcrossHash", "through " + q[0]) for q in QVIEWS)}
    # (on a tree where one of these routes has become fresh a zero here is good news, so it is only recorded)
    cov["stale_reads_attributed"] = listed

    # container-level histories judged by TLC
    if len(ccases) < 2000 or min(cper.values()) < 50 or cfam["library_mutator"] < 500 or \
            cfam["setter_none_or_empty"] < 150 or cfam["with_copy"] < 300:
        raise MachineryError("container histories: enumeration came out nearly empty: %r %r" % (cper, cfam))
    rejects, cstates, cwall = tlc.validate_batches("c02/containers", "C02ContainerHash", ccases, cc.CFG, shards=2)
    states += cstates
    trans += cstates
    for cid, clause in sorted(rejects.items()):
        c = ccases[cid]
        V.violation("Container" + clause, {k: v for k, v in c.items() if k != "id"})
    n_eq = equal_arrays_hash_equal(trimesh, V)
    n_eq2 = more_equal_array_routes(trimesh, V)
    if n_eq2 < 500:
        raise MachineryError("equal-array construction routes: too few comparisons")
    top = sorted(attributed.items(), key=lambda kv: -kv[1])
    cov.update({
        "states": states, "transitions": trans,
        "traces_validated_against_impl": nrep + len(ccases),
        "abstract_programs": len(behs),
        "abstract_programs_with_quiet_alias": n_q,
        "replays": nrep,
        "model_drift_fresh_where_stale_predicted": drift,
        "equal_array_meshes_compared": n_eq,
        "equal_array_objects_compared_further_routes": n_eq2,
        "container_histories": {"validated_by_tlc": len(ccases), "per_kind": cper, "per_family": cfam, "rejected": len(rejects),
                                "tlc_wall_s": round(cwall, 1), "templates": cc.TEMPLATES,
                                "edits": [e[0] for e in cc.EDITS]},
        "exercised": {k: c for k, c in sorted(stats.items()) if not k.startswith("known:")},
        "known_attribution_by_route": dict(top[:60]),
        "known_attribution_distinct_route_pairs": len(top),
        "exhaustive": True,
        "route_catalogue": {"write_over": [x[0] for x in WRITE_OVER], "write_clevel": [x[0] for x in WRITE_CLEVEL],
                            "write_base": [x[0] for x in WRITE_BASE], "tracked_views": [x[0] for x in TVIEWS],
                            "base_views": [x[0] for x in BVIEWS], "quiet_tracked_aliases": [x[0] for x in QVIEWS],
                            "reads": [x[0] for x in READS],
                            "array_kinds": list(KINDS), "containers": sorted({c for _, c in COMBOS if c})},
        "samples": [behs[n_a // 2]["h"], quiet[len(quiet) // 2]["h"], ccases[len(ccases) // 2]],
        "replay_wall_s": round(replay_wall, 1),
    })
    return V.finish("model_checking", cov, assumptions=[
        "hashes abstracted to the byte version they were computed from (collisions of the 64-bit hash ignored)",
        "route catalogue is finite (listed in coverage.route_catalogue); dtypes float64, int64, uint8, bool; "
        "shapes (n,3), (n,4), (n,2), (n,), (4,4), (a,b,c)",
    ])


if __name__ == "__main__":
    try:
        sys.exit(main(sys.argv[1:]))
    except MachineryError as e:
        print("MACHINERY-ERROR:", e)
        sys.exit(2)
