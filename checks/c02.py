"""C02 - content hash of tracked arrays reflects current bytes.

TLC model-checks spec/TrackedArray.tla (intended design: HashFresh holds; as-built: every
stale hash is explained by one of three named deviations) and emits every program of
abstract steps up to a depth.  Each program is instantiated with concrete numpy routes from
a catalogue (item/slice/mask/fancy assignment, all in-place operators and methods, C-level
writers, view creators, readers) for the dtypes/shapes trimesh stores and replayed on real
TrackedArray objects.  After every hash step the real `__hash__()` is compared with
hash_fast of the mirror bytes.  A stale hash is a VIOLATION unless the as-built model
predicts staleness at that step through a listed deviation (known finding).  Container
hashes (Trimesh, Path2D, PointCloud, ColorVisuals, Scene) are compared with the hash of a
freshly built container at the end of every program.
"""
import sys
import time

import numpy as np

from harness import tlc
from harness.common import (MachineryError, Verdict, import_trimesh, pmap, seed,
                            tier_from_args)

PROP = "C02"
DEVS = ("ViewHeldAcrossHash", "CLevelWrite", "BaseClassViewWrite")

CFG = """CONSTANTS
  Roots <- {roots}
  TViews <- {tv}
  BViews <- {bv}
  Root1 = "r"
  MaxDepth = {depth}
  AsBuilt = {asb}
SPECIFICATION Spec
{view}
{invs}
CHECK_DEADLOCK FALSE
"""


def cfg(depth, asb, invs, roots="Roots2", tv="TV1", bv="BV1", view=True):
    return CFG.format(roots=roots, tv=tv, bv=bv, depth=depth, asb="TRUE" if asb else "FALSE",
                      view="VIEW View" if view else "", invs="\n".join("INVARIANT " + i for i in invs))


# ------------------------------------------------------------------ catalogue
KINDS = {
    "f3": lambda: np.arange(18, dtype=np.float64).reshape(6, 3)[::-1].copy() + 0.5,
    "i3": lambda: (np.arange(15, dtype=np.int64).reshape(5, 3)[::-1].copy() * 3 + 1),
    "u4": lambda: (np.arange(16, dtype=np.uint8).reshape(4, 4)[::-1].copy() * 5 + 3),
    "i1": lambda: np.arange(9, dtype=np.int64)[::-1].copy() * 7 + 2,
}


def _isint(a):
    return a.dtype.kind in "iu"


def _one(a):
    return a.dtype.type(1)


# overridden (Python-level) writers of TrackedArray: name -> (applicable, action)
def _w_item(a):
    a[(0,) * a.ndim] = a[(0,) * a.ndim] + _one(a)


def _w_row(a):
    a[0] = a[0] + _one(a)


def _w_slice(a):
    a[1:] = a[1:] + _one(a)


def _w_mask(a):
    m = np.zeros(a.shape, dtype=bool)
    m.flat[::2] = True
    a[m] = a[m] + _one(a)


def _w_fancy(a):
    a[[0, -1]] = a[[0, -1]] + _one(a)


def _w_ellipsis(a):
    a[...] = np.asarray(a).copy() + _one(a)


def _w_neg_index(a):
    a[-1] = a[-1] + _one(a)


def _iadd(a):
    a += _one(a)


def _isub(a):
    a -= _one(a)


def _imul(a):
    a *= a.dtype.type(3)


def _itruediv(a):
    a /= 2.0


def _ifloordiv(a):
    a //= a.dtype.type(2)


def _ipow(a):
    a **= 2


def _imod(a):
    a %= a.dtype.type(5)


def _ilshift(a):
    a <<= 1


def _irshift(a):
    a >>= 1


def _iand(a):
    a &= a.dtype.type(6)


def _ior(a):
    a |= a.dtype.type(8)


def _ixor(a):
    a ^= a.dtype.type(5)


def _fill(a):
    a.fill(a.flat[0] + _one(a))


def _sort(a):
    a.sort(axis=0)


def _partition(a):
    a.partition(1, axis=0)


def _put(a):
    a.put([0, 1], [a.flat[0] + _one(a), a.flat[1] + _one(a)])


def _byteswap(a):
    a.byteswap(inplace=True)


WRITE_OVER = [
    ("setitem_item", lambda a: True, _w_item), ("setitem_row", lambda a: True, _w_row),
    ("setitem_slice", lambda a: len(a) > 1, _w_slice), ("setitem_mask", lambda a: True, _w_mask),
    ("setitem_fancy", lambda a: len(a) > 1, _w_fancy), ("setitem_ellipsis", lambda a: True, _w_ellipsis),
    ("setitem_neg", lambda a: True, _w_neg_index),
    ("iadd", lambda a: True, _iadd), ("isub", lambda a: True, _isub), ("imul", lambda a: True, _imul),
    ("itruediv", lambda a: a.dtype.kind == "f", _itruediv), ("ifloordiv", lambda a: True, _ifloordiv),
    ("ipow", lambda a: True, _ipow), ("imod", lambda a: True, _imod),
    ("ilshift", _isint, _ilshift), ("irshift", _isint, _irshift), ("iand", _isint, _iand),
    ("ior", _isint, _ior), ("ixor", _isint, _ixor),
    ("fill", lambda a: True, _fill), ("sort", lambda a: len(a) > 1, _sort),
    ("partition", lambda a: len(a) > 2, _partition), ("put", lambda a: a.size > 1, _put),
    ("byteswap", lambda a: a.dtype.itemsize > 1, _byteswap),
]


# C-level writers (bypass the overrides)
def _c_ufunc_out(a):
    np.add(a, _one(a), out=a)


def _c_copyto(a):
    np.copyto(a, np.asarray(a).copy() + _one(a))


def _c_flat(a):
    a.flat[0] = a.flat[0] + _one(a)


def _c_ufunc_at(a):
    np.add.at(a, (0,) * a.ndim, _one(a))


def _c_fill_diag(a):
    np.fill_diagonal(a, a.flat[0] + _one(a))


def _c_clip_out(a):
    lo = np.asarray(a).min() + _one(a)
    a.clip(lo, None, out=a)


def _c_np_clip(a):
    lo = np.asarray(a).min() + _one(a)
    np.clip(a, lo, None, out=a)


def _c_real(a):
    a.real = np.asarray(a).copy() + _one(a)


def _c_putmask(a):
    m = np.zeros(a.shape, dtype=bool)
    m.flat[0] = True
    np.putmask(a, m, a.flat[0] + _one(a))


def _c_place(a):
    m = np.zeros(a.shape, dtype=bool)
    m.flat[0] = True
    np.place(a, m, [a.flat[0] + _one(a)])


def _c_multiply_out(a):
    np.multiply(a, a.dtype.type(3), out=a)


def _c_shuffle(a):
    np.random.RandomState(3).shuffle(a)


WRITE_CLEVEL = [
    ("ufunc_out", lambda a: True, _c_ufunc_out), ("copyto", lambda a: True, _c_copyto),
    ("flat_setitem", lambda a: True, _c_flat), ("ufunc_at", lambda a: True, _c_ufunc_at),
    ("fill_diagonal", lambda a: a.ndim == 2, _c_fill_diag), ("clip_out", lambda a: True, _c_clip_out),
    ("np_clip_out", lambda a: True, _c_np_clip), ("real_setter", lambda a: a.dtype.kind == "f", _c_real),
    ("putmask", lambda a: True, _c_putmask), ("place", lambda a: True, _c_place),
    ("multiply_out", lambda a: True, _c_multiply_out),
]

# writers used through base-class (plain ndarray) views
WRITE_BASE = [("setitem_item", lambda a: True, _w_item), ("iadd", lambda a: True, _iadd),
              ("setitem_slice", lambda a: len(a) > 1, _w_slice), ("fill", lambda a: True, _fill),
              ("ufunc_out", lambda a: True, _c_ufunc_out), ("sort", lambda a: len(a) > 1, _sort)]

# creators of tracked views: applied identically to the tracked array and to its plain mirror
TVIEWS = [
    ("slice_tail", lambda a: len(a) > 2, lambda a: a[1:]),
    ("slice_head", lambda a: len(a) > 2, lambda a: a[:-1]),
    ("slice_cols", lambda a: a.ndim == 2, lambda a: a[:, :2]),
    ("transpose", lambda a: a.ndim == 2, lambda a: a.T),
    ("reshape_flat", lambda a: a.flags["C_CONTIGUOUS"], lambda a: a.reshape(-1)),
    ("ravel", lambda a: a.flags["C_CONTIGUOUS"], lambda a: a.ravel()),
    ("view", lambda a: True, lambda a: a.view()),
    ("ellipsis", lambda a: True, lambda a: a[...]),
    ("stride2", lambda a: len(a) > 2, lambda a: a[::2]),
    ("swapaxes", lambda a: a.ndim == 2, lambda a: a.swapaxes(0, 1)),
    ("newaxis", lambda a: True, lambda a: a[None]),
    ("reverse", lambda a: True, lambda a: a[::-1]),
    ("row0", lambda a: a.ndim == 2, lambda a: a[0]),
    ("view_dtype_same", lambda a: True, lambda a: a.view(a.dtype)),
]

BVIEWS = [
    ("view_ndarray", lambda a: True, lambda a: a.view(np.ndarray)),
    ("asarray", lambda a: True, lambda a: np.asarray(a)),
    ("array_copy_false", lambda a: True, lambda a: np.array(a, copy=False)),
    ("dunder_array", lambda a: True, lambda a: a.__array__()),
    ("asarray_slice", lambda a: len(a) > 2, lambda a: np.asarray(a)[1:]),
]

# byte-preserving readers; whether a route marks its source dirty is probed on the tree under test
READS = [
    ("add_scalar", lambda a: a + _one(a)), ("copy", lambda a: a.copy()), ("mul", lambda a: a * 2),
    ("astype", lambda a: a.astype(np.float32)), ("sum", lambda a: a.sum()), ("max", lambda a: a.max()),
    ("tolist", lambda a: a.tolist()), ("tobytes", lambda a: a.tobytes()), ("eq", lambda a: a == a),
    ("mean0", lambda a: a.mean(axis=0)), ("np_array", lambda a: np.array(a)), ("len", lambda a: len(a)),
    ("getitem_copy", lambda a: a[[0, 1]] if len(a) > 1 else a[[0]]), ("argsort", lambda a: a.argsort(axis=0)),
    ("repr", lambda a: repr(a)), ("min_axis", lambda a: a.min(axis=0)), ("unique", lambda a: np.unique(a)),
    ("setflags_same", lambda a: a.setflags(write=a.flags["WRITEABLE"])),
    ("getitem_scalar", lambda a: a[(0,) * a.ndim]),
    ("iter", lambda a: [x for x in a]),
]


def probe_reads(caching):
    """Classify every read route on this tree: does it set the source's dirty flag?"""
    cls = {}
    for kind, mk in KINDS.items():
        for name, f in READS:
            a = caching.tracked_array(mk())
            a.__hash__()
            before = a.tobytes()
            try:
                f(a)
            except Exception:
                cls[(kind, name)] = None
                continue
            if a.tobytes() != before:
                cls[(kind, name)] = None  # not byte preserving: never use
                continue
            cls[(kind, name)] = "read_d" if getattr(a, "_dirty_hash", True) else "read_c"
    return cls


class Failure(Exception):
    pass


def replay_one(env, beh, variant, kind, container):
    """Replay one abstract program. Returns (failures, stats)."""
    caching, hash_fast, trimesh, readcls = env
    h = beh["h"]
    fails, known, drift = [], [], 0
    rng = variant
    objs, mirror = {}, {}
    holder = None
    raw_r = KINDS[kind]()
    raw_s = KINDS["i3"]()
    if container == "mesh" and kind == "f3":
        holder = trimesh.Trimesh(vertices=raw_r.copy(), faces=np.array([[0, 1, 2], [2, 3, 4], [3, 4, 5], [0, 2, 5], [1, 3, 5]]), process=False)
        objs["r"], objs["s"] = holder.vertices, holder.faces
    elif container == "path" and kind == "f3":
        from trimesh.path.entities import Line
        holder = trimesh.path.Path3D(entities=[Line([0, 1, 2, 3, 4, 5, 0])], vertices=raw_r.copy(), process=False)
        objs["r"] = holder.vertices
        objs["s"] = caching.tracked_array(raw_s)
    elif container == "points" and kind == "f3":
        holder = trimesh.PointCloud(raw_r.copy())
        objs["r"] = holder.vertices
        objs["s"] = caching.tracked_array(raw_s)
    elif container == "visual" and kind == "u4":
        m = trimesh.Trimesh(vertices=KINDS["f3"]()[:4], faces=[[0, 1, 2], [1, 2, 3]], process=False)
        m.visual.vertex_colors = raw_r.copy()
        holder = m.visual
        objs["r"] = holder._data["vertex_colors"]
        objs["s"] = caching.tracked_array(raw_s)
    elif container == "scene" and kind == "f3":
        m = trimesh.Trimesh(vertices=raw_r.copy(), faces=np.array([[0, 1, 2], [2, 3, 4], [3, 4, 5]]), process=False)
        holder = trimesh.Scene(m)
        objs["r"], objs["s"] = m.vertices, m.faces
    else:
        container = None
        objs["r"] = caching.tracked_array(raw_r)
        objs["s"] = caching.tracked_array(raw_s)
    for k in ("r", "s"):
        a = objs[k]
        if not isinstance(a, caching.TrackedArray):
            raise MachineryError("root is not a TrackedArray: " + container)
        mirror[k] = np.frombuffer(a.data, dtype=a.dtype).reshape(a.shape) if a.size else np.asarray(a)
        if not np.shares_memory(mirror[k], a):
            raise MachineryError("mirror does not share memory")
        a.__hash__()  # the model's initial state: every root hashed once
    routes_used = []
    init_bytes = {k: np.ascontiguousarray(mirror[k]).tobytes() for k in ("r", "s")}
    init_hash = holder.__hash__() if holder is not None else None
    members = ["r", "s"] if container in ("mesh", "scene") else ["r"]

    def pick(cat, a, j, extra=None):
        n = len(cat)
        for t in range(n):
            name, ok, f = cat[(rng * 7 + j * 3 + t) % n]
            try:
                if ok(a) and (extra is None or extra(name, f)):
                    return name, f
            except Exception:
                continue
        return None, None

    for j, st in enumerate(h):
        op, an = st["op"], st["a"]
        a = objs.get(an)
        if a is None:
            raise MachineryError("behaviour uses dead object")
        if op == "hash":
            got = a.__hash__()
            true = hash_fast(np.ascontiguousarray(mirror[an]).tobytes())
            if got != true:
                rec = {"clause": "HashFresh", "step": j, "array": an, "routes": routes_used,
                       "kind": kind, "container": container, "program": h}
                if st["stale"] and st["dev"]:
                    known.append((st["dev"], rec))
                else:
                    fails.append(rec)
                    return fails, known, drift
            elif st["stale"]:
                drift += 1
        elif op in ("write_over", "write_clevel", "write_base"):
            cat = {"write_over": WRITE_OVER, "write_clevel": WRITE_CLEVEL, "write_base": WRITE_BASE}[op]
            name, f = pick(cat, a, j)
            if name is None:
                return fails, known, drift  # no applicable route: abandon (counted by caller)
            before = np.ascontiguousarray(mirror[an]).tobytes()
            try:
                f(a)
            except Exception as e:
                raise MachineryError(f"route {name} raised {type(e).__name__}: {e} on {kind}")
            routes_used.append(name)
            if np.ascontiguousarray(mirror[an]).tobytes() == before:
                # bytes did not change (e.g. sort of sorted data): harmless, staleness unobservable
                pass
        elif op == "tview":
            vn = st["v"]

            def shares(name, f):
                nv = f(mirror[an])
                return np.shares_memory(nv, mirror[an]) and nv.size > 0
            name, f = pick(TVIEWS, a, j, shares)
            if name is None:
                return fails, known, drift
            nv = f(a)
            if not isinstance(nv, caching.TrackedArray) or not np.shares_memory(nv, a):
                raise MachineryError(f"view route {name} did not give a TrackedArray view")
            objs[vn], mirror[vn] = nv, f(mirror[an])
            routes_used.append(name)
        elif op == "bview":
            vn = st["v"]
            name, f = pick(BVIEWS, a, j)
            nv = f(a)
            if isinstance(nv, caching.TrackedArray) or not np.shares_memory(nv, a):
                raise MachineryError(f"base view route {name} gave {type(nv)}")
            # same selection on the mirror
            mv = mirror[an][1:] if name == "asarray_slice" else mirror[an]
            objs[vn], mirror[vn] = nv, mv
            routes_used.append(name)
        elif op in ("read_d", "read_c"):
            n = len(READS)
            done = False
            for t in range(n):
                name, f = READS[(rng * 5 + j * 3 + t) % n]
                if readcls.get((kind if an in ("r",) else "i3" if an == "s" else kind, name)) == op:
                    # classification was probed on a fresh root of this dtype; views behave the same
                    flag_before = getattr(a, "_dirty_hash", True)
                    f(a)
                    flag_after = getattr(a, "_dirty_hash", True)
                    if op == "read_c" and flag_after and not flag_before:
                        # more invalidation than predicted is harmless; keep the model in step by
                        # stopping this behaviour here
                        return fails, known, drift
                    if op == "read_d" and not flag_after:
                        return fails, known, drift
                    routes_used.append(name)
                    done = True
                    break
            if not done:
                return fails, known, drift
        else:
            raise MachineryError("unknown op " + op)
    # container hash at the end of the program: a function of the members' hashes
    if holder is not None:
        got = holder.__hash__()
        if container == "mesh":
            fresh = trimesh.Trimesh(vertices=np.array(mirror["r"]), faces=np.array(mirror["s"]), process=False)
        elif container == "path":
            from trimesh.path.entities import Line
            fresh = trimesh.path.Path3D(entities=[Line([0, 1, 2, 3, 4, 5, 0])], vertices=np.array(mirror["r"]), process=False)
        elif container == "points":
            fresh = trimesh.PointCloud(np.array(mirror["r"]))
        elif container == "visual":
            m = trimesh.Trimesh(vertices=KINDS["f3"]()[:4], faces=[[0, 1, 2], [1, 2, 3]], process=False)
            m.visual.vertex_colors = np.array(mirror["r"])
            fresh = m.visual
        else:
            m = trimesh.Trimesh(vertices=np.array(mirror["r"]), faces=np.array(mirror["s"]), process=False)
            fresh = trimesh.Scene(m)
        want = fresh.__hash__()
        changed = any(np.ascontiguousarray(mirror[k]).tobytes() != init_bytes[k] for k in members)
        predicted_stale = any(beh["fin"][k]["stale"] for k in members)
        if changed and got == init_hash and not predicted_stale:
            # the oracle above is built by the code under test; this clause is independent of it:
            # a container whose member bytes changed must not keep its hash
            fails.append({"clause": "ContainerHashChangesWithBytes", "container": container,
                          "routes": routes_used, "program": h})
        elif (not changed) and got != init_hash and not predicted_stale:
            fails.append({"clause": "ContainerHashStableWithoutWrite", "container": container,
                          "routes": routes_used, "program": h})
        if got != want:
            devs = sorted({d for k in members if beh["fin"][k]["stale"] for d in beh["fin"][k]["dev"]})
            rec = {"clause": "ContainerHashFresh", "container": container, "routes": routes_used, "program": h}
            if devs:
                known.append((devs, rec))
            else:
                fails.append(rec)
    return fails, known, drift


def _chunk(args):
    trimesh = import_trimesh()
    from trimesh import caching
    env = (caching, caching.hash_fast, trimesh, probe_reads(caching))
    out_f, out_k = [], {}
    drift = 0
    n = 0
    combos = [("f3", None), ("i3", None), ("u4", None), ("i1", None), ("f3", "mesh"), ("f3", "path"),
              ("f3", "points"), ("u4", "visual"), ("f3", "scene")]
    routes = set()
    for idx, beh, nvar in args:
        for v in range(nvar):
            kind, cont = combos[(idx + v) % len(combos)]
            f, k, d = replay_one(env, beh, idx * 3 + v + seed(), kind, cont)
            n += 1
            drift += d
            out_f.extend(f)
            for devs, rec in k:
                for dv in devs:
                    out_k.setdefault(dv, []).append(rec)
    for k in out_k:
        out_k[k] = (len(out_k[k]), out_k[k][:2])
    return out_f[:50], out_k, drift, n


def equal_arrays_hash_equal(trimesh, V):
    """Two meshes holding equal vertex and face arrays hash equal (built by different routes)."""
    n = 0
    rs = np.random.RandomState(seed())
    for _ in range(200):
        v = rs.randint(-3, 4, size=(6, 3)).astype(float)
        f = rs.randint(0, 6, size=(4, 3))
        a = trimesh.Trimesh(v.copy(), f.copy(), process=False)
        b = trimesh.Trimesh(v.tolist(), f.tolist(), process=False)
        c = trimesh.Trimesh(np.asfortranarray(v), f.astype(np.int32), process=False)
        d = trimesh.Trimesh(v * 0, f.copy(), process=False)
        d.vertices += v
        e = trimesh.Trimesh(v[::-1].copy(), f.copy(), process=False)
        e.vertices = e.vertices[::-1]
        hs = [m.__hash__() for m in (a, b, c, d, e)]
        n += 5
        if len(set(hs)) != 1:
            V.violation("EqualArraysHashEqual", {"vertices": v.tolist(), "faces": f.tolist(), "hashes": hs})
        g = trimesh.Trimesh(v + 1.0, f.copy(), process=False)
        if g.__hash__() == hs[0]:
            V.violation("DifferentArraysHashDifferent", {"vertices": v.tolist()})
    # scene hashes: geometries holding identical arrays, edited identically between two hash reads, and
    # one mesh registered under two names - the scene hash must still move with the bytes
    for variant in ("twins", "same_object_twice", "twins_faces"):
        v = np.arange(18, dtype=float).reshape(6, 3) % 5 + [[0.0, 0.5, 0.25]]
        f = np.array([[0, 1, 2], [2, 3, 4], [3, 4, 5]])
        a = trimesh.Trimesh(v.copy(), f.copy(), process=False)
        b = a if variant == "same_object_twice" else trimesh.Trimesh(v.copy(), f.copy(), process=False)
        sc = trimesh.Scene()
        sc.add_geometry(a, node_name="na", geom_name="left")
        sc.add_geometry(b, node_name="nb", geom_name="right", transform=trimesh.transformations.translation_matrix([9, 0, 0]))
        h0 = sc.__hash__()
        ext0 = np.array(sc.extents).copy()
        if variant == "twins_faces":
            a.faces[0] = a.faces[0][::-1]
            b.faces[0] = b.faces[0][::-1]
        else:
            a.vertices[1] += [3.0, 7.0, 11.0]
            if b is not a:
                b.vertices[1] += [3.0, 7.0, 11.0]
        h1 = sc.__hash__()
        n += 1
        fresh = trimesh.Scene()
        fa = trimesh.Trimesh(np.array(a.vertices), np.array(a.faces), process=False)
        fb = fa if variant == "same_object_twice" else trimesh.Trimesh(np.array(b.vertices), np.array(b.faces), process=False)
        fresh.add_geometry(fa, node_name="na", geom_name="left")
        fresh.add_geometry(fb, node_name="nb", geom_name="right", transform=trimesh.transformations.translation_matrix([9, 0, 0]))
        if h1 == h0:
            V.violation("SceneHashChangesWithGeometry", {"variant": variant, "hash": h1})
        elif h1 != fresh.__hash__():
            V.violation("SceneHashEqualsFreshScene", {"variant": variant})
        elif variant != "twins_faces" and np.allclose(np.array(sc.extents), ext0):
            V.violation("SceneValuesFollowHash", {"variant": variant})
    return n


def main(argv):
    tier = tier_from_args(argv)
    V = Verdict(PROP, tier)
    trimesh = import_trimesh()
    cov = {"tlc_runs": []}
    states = trans = 0

    def note(name, r):
        nonlocal states, trans
        states += r.distinct
        trans += r.generated
        cov["tlc_runs"].append({"run": name, "distinct": r.distinct, "generated": r.generated, "wall_s": round(r.wall, 1)})

    d = tlc.prepare("c02/mc")
    big = dict(tv="TV2", depth=9)
    r = tlc.must(tlc.run(d, "TrackedArray", cfg(asb=False, invs=["HashFresh", "MemoNeverAhead", "ContainerFresh"], **big)), "intended")
    note("intended design: HashFresh", r)
    r = tlc.must(tlc.run(d, "TrackedArray", cfg(asb=True, invs=["StaleIsExplained", "MemoNeverAhead", "ContainerFresh"], **big)), "asbuilt")
    note("as-built: every stale hash explained by a named deviation", r)
    r = tlc.run(d, "TrackedArray", cfg(asb=True, invs=["HashFresh"], **big))
    if r.violated != "HashFresh":
        raise MachineryError("as-built model unexpectedly satisfies HashFresh: it no longer explains the known findings")
    cov["asbuilt_counterexample"] = "HashFresh violated as predicted"

    # emission: every abstract program up to the depth (no VIEW: the history is the state)
    d = tlc.prepare("c02/emit")
    depth = 5   # every program of 5 abstract steps (about 4e5); depth 6 would be 6e6 programs
    r = tlc.must(tlc.run(d, "TrackedArray", cfg(asb=True, depth=depth, invs=["EmitLeaf"], view=False), workers=1, timeout=1800), "emit")
    note(f"emit all programs of {depth} steps (1 tracked view, 1 base view, 2 roots)", r)
    behs = list(r.printed)
    n_a = len(behs)
    # deeper programs with two simultaneous tracked views: state cover
    dc = 7 if tier == "quick" else 9
    r = tlc.must(tlc.run(d, "TrackedArray", cfg(asb=True, depth=dc, tv="TV2", invs=["EmitAll"]), workers=1, timeout=1800), "emit-cover")
    note(f"emit state cover depth {dc} (2 tracked views)", r)
    behs += r.printed
    if tier == "thorough":
        r = tlc.run(d, "TrackedArray", cfg(asb=True, depth=10, tv="TV2", invs=["EmitLeaf"], view=False), workers=1,
                    simulate="num=1500", depth=11, seed=seed() + 3, timeout=1800)
        note("simulate depth 10", r)
        behs += r.printed
    if n_a < 1000:
        raise MachineryError("emission too small")
    nvar = 2 if tier == "quick" else 9
    t0 = time.time()
    results = pmap(_chunk, [(i, b, nvar) for i, b in enumerate(behs)])
    nrep = 0
    drift = 0
    for f, k, dft, n in results:
        nrep += n
        drift += dft
        for rec in f:
            V.violation(rec["clause"], rec)
        for dv, (cnt, samples) in k.items():
            for s in samples:
                if not V.known_finding(dv, s):
                    V.violation("HashFresh", s, None)
            # count the remainder without storing them
            if dv in V.known and cnt > len(samples):
                V.known_hits[dv].extend([samples[0]] * 0)
                cov.setdefault("known_counts", {})
                cov["known_counts"][dv] = cov["known_counts"].get(dv, 0) + cnt
    n_eq = equal_arrays_hash_equal(trimesh, V)
    cov.update({
        "states": states, "transitions": trans,
        "traces_validated_against_impl": nrep,
        "abstract_programs": len(behs),
        "model_drift_fresh_where_stale_predicted": drift,
        "equal_array_meshes_compared": n_eq,
        "exhaustive": True,
        "route_catalogue": {"write_over": [x[0] for x in WRITE_OVER], "write_clevel": [x[0] for x in WRITE_CLEVEL],
                            "write_base": [x[0] for x in WRITE_BASE], "tracked_views": [x[0] for x in TVIEWS],
                            "base_views": [x[0] for x in BVIEWS], "reads": [x[0] for x in READS],
                            "array_kinds": list(KINDS), "containers": ["mesh", "path", "points", "visual", "scene"]},
        "samples": [behs[n_a // 2]["h"], behs[-1]["h"]],
        "replay_wall_s": round(time.time() - t0, 1),
    })
    return V.finish("model_checking", cov, assumptions=[
        "hashes abstracted to the byte version they were computed from (collisions of the 64-bit hash ignored)",
        "route catalogue is finite (listed in coverage.route_catalogue); dtypes float64, int64, uint8",
    ])


if __name__ == "__main__":
    try:
        sys.exit(main(sys.argv[1:]))
    except MachineryError as e:
        print("MACHINERY-ERROR:", e)
        sys.exit(2)
