"""C15 - created shapes and primitives are valid solids with analytic measures.

spec/Solids.tla judges every recorded creation result: exactly on the produced face array
(watertight, consistently wound, one body, Euler number of the expected genus, no unreferenced
vertices) and in fixed point on its measures (positive volume; exact V = A.h, S = 2A + P.h for
boxes and extrusions of rectilinear polygons with holes; for curved shapes the inscribed
tessellation grows monotonically towards, and never exceeds, the smooth value as the
resolution doubles, and vertices lie on the analytic surface).
spec/PrimitiveObject.tla is the state machine of a primitive (parameter store, lazily built
memoised mesh); TLC checks MeshReflectsParameters and emits every history of parameter edits,
transforms, reads and copies; each is replayed on real Box / Sphere / Cylinder / Capsule /
Extrusion primitives and after every read the mesh must equal that of a primitive freshly
constructed from the current parameters.

Families added by the coverage audit live in checks/c15_families.py (placement law for creation functions,
primitive constructors and Primitive.apply_transform, `segment=` / `bounds=` entry points, inertia, more
polygons / engines / ring orientations, closed and multi-segment sweep paths, partial revolutions under
placements, default section counts, magnitudes, primitives over their resolution parameter).
"""
import itertools
import sys

import numpy as np

from checks import c15_families as fam
from harness import tlc
from harness.common import (MachineryError, Verdict, import_trimesh, pmap, seed,
                            tier_from_args)

PROP = "C15"
CFG = "INIT Init\nNEXT Next\nINVARIANT Report\nCHECK_DEADLOCK FALSE\n"
K = 10000

PCFG = """CONSTANTS
  Params <- P4
  TransformClasses <- TC4
  MaxDepth = {depth}
  TwoObjects = TRUE
SPECIFICATION Spec
{view}
{invs}
CHECK_DEADLOCK FALSE
"""

I3 = np.eye(3)
RZ = np.array([[0, -1, 0], [1, 0, 0], [0, 0, 1]], dtype=float)
RX = np.array([[1, 0, 0], [0, 0, -1], [0, 1, 0]], dtype=float)
MIR = np.diag([-1.0, 1.0, 1.0])


def T4(lin=I3, t=(0, 0, 0)):
    M = np.eye(4)
    M[:3, :3] = lin
    M[:3, 3] = t
    return M


PLACEMENTS = {"none": None, "translate": T4(I3, (3, -2, 5)), "rot": T4(RZ @ RX, (1, 1, 1)), "mirror": T4(MIR, (0, 2, 0)),
              "mirror_rot": T4(RX @ MIR, (2, 0, 0))}


def fp(x):
    return int(round(float(x) * K))


NOB = [[0, 0, 0], [0, 0, 0]]


def bounds_fp(m):
    return [[fp(x) for x in m.bounds[0]], [fp(x) for x in m.bounds[1]]]


def solid_record(m, kind, params, bodies=1, genus=0, flat=None, scale=1.0):
    # scale: a power of two by which the whole shape was scaled (measures are recorded normalised), or a pair
    # (volume unit, area unit) for shapes whose dimensions differ by orders of magnitude
    vnorm, anorm = scale if isinstance(scale, tuple) else (scale ** 3, scale ** 2)
    r = {"rec": "solid", "kind": kind, "params": params, "exc": "", "faces": (np.array(m.faces) + 1).tolist(), "n_vertices": int(len(m.vertices)),
         "bodies": bodies, "genus": genus, "vol_fp": fp(float(m.volume) / vnorm), "area_fp": fp(float(m.area) / anorm), "flat": flat is not None,
         "shell": [[0, 0]], "holes": [], "height": 0, "bkind": "", "bounds_fp": NOB}
    if flat is not None:
        r.update(flat)
    return r


def failed(kind, params, e):
    return {"rec": "solid", "kind": kind, "params": params, "exc": type(e).__name__ + ":" + str(e)[:60], "faces": [], "n_vertices": 0,
            "bodies": 1, "genus": 0, "vol_fp": 0, "area_fp": 0, "flat": False, "shell": [[0, 0]], "holes": [], "height": 0, "bkind": "", "bounds_fp": NOB}


def shape_jobs(tier):
    jobs = []
    secs = [3, 4, 5, 6, 7, 8, 9, 12] if tier == "quick" else list(range(3, 17)) + [32]
    for pl in PLACEMENTS:
        for ext in ([1, 2, 3], [2, 2, 2], [0.5, 4, 1]):
            jobs.append(("box", {"extents": ext, "placement": pl}))
        for s in secs:
            jobs.append(("cylinder", {"radius": 1.5, "height": 2.0, "sections": s, "placement": pl}))
            jobs.append(("cone", {"radius": 1.0, "height": 3.0, "sections": s, "placement": pl}))
            jobs.append(("annulus", {"r_min": 1.0, "r_max": 2.0, "height": 1.5, "sections": s, "placement": pl}))
        for sub in (0, 1, 2):
            jobs.append(("icosphere", {"subdivisions": sub, "radius": 2.0, "placement": pl}))
        for cu, cv in itertools.product((3, 4, 5, 8), repeat=2):
            jobs.append(("uv_sphere", {"count": [cu, cv], "radius": 1.5, "placement": pl}))
            jobs.append(("capsule", {"count": [cu, cv], "radius": 1.0, "height": 2.0, "placement": pl}))
        for a, b in ((3, 3), (4, 3), (5, 6), (8, 4), (12, 8)):
            jobs.append(("torus", {"major_radius": 3.0, "minor_radius": 1.0, "major_sections": a, "minor_sections": b, "placement": pl}))
    # revolutions: closed and partial (eighths of a turn), capped or not; profiles touching the axis or not
    # open profiles that start and end on the axis close up under a full turn; capping a partial turn
    # is only defined for closed profiles ("attempt to add a tessellated cap")
    profiles = {"ring": [[1, 0], [2, 0], [2, 1], [1, 1], [1, 0]], "axis_touch": [[0, 0], [2, 0], [2, 2], [0, 2]], "cone": [[0, 0], [1, 0], [0, 2]],
                "wedge": [[0, 0], [2, 0], [2, 2], [0, 2], [0, 0]], "tri": [[1, 0], [3, 0], [1, 2], [1, 0]]}
    for pname, prof in profiles.items():
        closed_profile = prof[0] == prof[-1]
        for s in secs[:6]:
            for pl in ("none", "mirror", "rot"):
                jobs.append(("revolve", {"profile": pname, "sections": s, "angle": None, "cap": False, "placement": pl}))
            if closed_profile:
                for eighths in (1, 2, 3, 4, 6, 7):
                    # each section must span less than half a turn to describe a solid at all
                    jobs.append(("revolve", {"profile": pname, "sections": max(s // 2, eighths // 4 + 1), "angle": eighths, "cap": True, "placement": "none"}))
    # extrusions of rectilinear polygons with 0..2 holes, positive and negative heights
    polys = {"square": ([[0, 0], [4, 0], [4, 4], [0, 4]], []),
             "square_hole": ([[0, 0], [6, 0], [6, 6], [0, 6]], [[[2, 2], [4, 2], [4, 4], [2, 4]]]),
             "ell": ([[0, 0], [6, 0], [6, 2], [2, 2], [2, 6], [0, 6]], []),
             "two_holes": ([[0, 0], [10, 0], [10, 4], [0, 4]], [[[1, 1], [3, 1], [3, 3], [1, 3]], [[6, 1], [9, 1], [9, 2], [6, 2]]])}
    for pname in polys:
        for h in (1, 3, -2):
            for pl in PLACEMENTS:
                for eng in ("earcut", "triangle"):
                    jobs.append(("extrude", {"polygon": pname, "height": h, "placement": pl, "engine": eng}))
    for pname in ("square", "ell"):
        jobs.append(("sweep", {"polygon": pname, "path": "straight"}))
        jobs.append(("sweep", {"polygon": pname, "path": "ell"}))
    # sweeps along a straight tilted path of integer length 7 = |(2,3,6)|, with and without roll: the solid is a
    # prism over the profile whatever the roll, so V = A.7 and S = 2A + P.7 exactly
    for pname in ("square", "ell", "square_hole"):
        for roll in (None, [0.7, 0.7], [1.3, 1.3], [-0.4, -0.4]):   # a constant roll keeps the sweep a prism
            for direction in ([2, 3, 6], [-6, 2, 3], [3, -6, 2], [0, 0, 7]):
                jobs.append(("sweep_prism", {"polygon": pname, "roll": roll, "direction": direction}))
    # Extrusion primitives over polygons with holes: closed-form area / volume of the primitive and of its mesh
    for pname in polys:
        for h in (1, 3):
            jobs.append(("prim_extrusion", {"polygon": pname, "height": h, "which": "closed_form"}))
            jobs.append(("prim_extrusion", {"polygon": pname, "height": h, "which": "mesh"}))
    POLYS.update(polys)
    POLYS.update(fam.POLYS2)
    PROFILES.update(profiles)
    AUDIT_KINDS.clear()
    extra = fam.audit_jobs(tier, POLYS)
    AUDIT_KINDS.update(k for k, _ in extra)
    return jobs + extra


POLYS = {}
PROFILES = {}
AUDIT_KINDS = set()


def make_shape(tm, kind, p):
    c = tm.creation
    tr = PLACEMENTS.get(p.get("placement", "none"))
    if kind == "box":
        return c.box(extents=p["extents"], transform=tr), 0
    if kind == "cylinder":
        return c.cylinder(radius=p["radius"], height=p["height"], sections=p["sections"], transform=tr), 0
    if kind == "cone":
        return c.cone(radius=p["radius"], height=p["height"], sections=p["sections"], transform=tr), 0
    if kind == "annulus":
        return c.annulus(r_min=p["r_min"], r_max=p["r_max"], height=p["height"], sections=p["sections"], transform=tr), 1
    if kind == "icosphere":
        m = c.icosphere(subdivisions=p["subdivisions"], radius=p["radius"])
        if tr is not None:
            m.apply_transform(tr)
        return m, 0
    if kind == "uv_sphere":
        return c.uv_sphere(radius=p["radius"], count=p["count"], transform=tr), 0
    if kind == "capsule":
        return c.capsule(height=p["height"], radius=p["radius"], count=p["count"], transform=tr), 0
    if kind == "torus":
        return c.torus(p["major_radius"], p["minor_radius"], major_sections=p["major_sections"], minor_sections=p["minor_sections"], transform=tr), 1
    if kind == "revolve":
        prof = np.array(PROFILES[p["profile"]], dtype=float)
        ang = None if p["angle"] is None else p["angle"] * np.pi / 4
        genus = 1 if (p["profile"] in ("ring", "tri") and p["angle"] is None) else 0
        return c.revolve(prof, angle=ang, cap=p["cap"], sections=p["sections"], transform=tr), genus
    if kind == "extrude":
        from shapely.geometry import Polygon
        shell, holes = POLYS[p["polygon"]]
        m = c.extrude_polygon(Polygon(shell, holes), height=p["height"], transform=tr, engine=p["engine"])
        return m, -1
    if kind == "sweep":
        from shapely.geometry import Polygon
        shell, holes = POLYS[p["polygon"]]
        poly = Polygon(np.array(shell) * 0.1 - 0.2)
        path = np.array([[0, 0, 0], [0, 0, 5]], dtype=float) if p["path"] == "straight" else np.array([[0, 0, 0], [0, 0, 4], [3, 0, 4]], dtype=float)
        return c.sweep_polygon(poly, path), -1
    if kind == "sweep_prism":
        from shapely.geometry import Polygon
        shell, holes = POLYS[p["polygon"]]
        poly = Polygon(shell, holes)
        path = np.array([[1.0, 2.0, 3.0], np.array([1.0, 2.0, 3.0]) + np.array(p["direction"], dtype=float)])
        return c.sweep_polygon(poly, path, angles=p["roll"]), -1
    raise MachineryError(kind)


class _Measures:
    """stand-in carrying the closed-form measures a primitive reports next to its mesh topology"""

    def __init__(self, mesh, volume, area):
        self.faces, self.vertices, self.volume, self.area = mesh.faces, mesh.vertices, volume, area


def _shape_chunk(jobs):
    tm = import_trimesh()
    out = []
    for kind, p in jobs:
        try:
            if kind == "prim_extrusion":
                from shapely.geometry import Polygon
                shell, holes = POLYS[p["polygon"]]
                prim = tm.primitives.Extrusion(polygon=Polygon(shell, holes), height=float(p["height"]))
                mesh = prim.to_mesh()
                m = _Measures(mesh, prim.volume, prim.area) if p["which"] == "closed_form" else mesh
                genus = -1
            elif kind in AUDIT_KINDS:
                m, genus, bodies, flat, scale = fam.make_audit_shape(tm, kind, p, POLYS, PROFILES, PLACEMENTS)
                out.append(solid_record(m, kind, p, bodies=bodies, genus=genus, flat=flat, scale=scale))
                continue
            else:
                m, genus = make_shape(tm, kind, p)
            flat = None
            if kind == "sweep_prism":
                shell, holes = POLYS[p["polygon"]]
                flat = {"shell": shell, "holes": holes, "height": 7}
            elif kind == "prim_extrusion":
                shell, holes = POLYS[p["polygon"]]
                flat = {"shell": shell, "holes": holes, "height": p["height"]}
            elif kind == "extrude":
                shell, holes = POLYS[p["polygon"]]
                flat = {"shell": shell, "holes": holes, "height": p["height"]}
                if p["placement"] == "none":
                    flat.update({"bkind": "prism", "bounds_fp": bounds_fp(m)})
            elif kind == "box":
                e = p["extents"]
                if all(float(x).is_integer() for x in e):
                    flat = {"shell": [[0, 0], [int(e[0]), 0], [int(e[0]), int(e[1])], [0, int(e[1])]], "holes": [], "height": int(e[2])}
                    if p["placement"] == "none":
                        flat.update({"bkind": "box", "bounds_fp": bounds_fp(m)})
            out.append(solid_record(m, kind, p, genus=genus, flat=flat))
        except BaseException as e:  # noqa
            out.append(failed(kind, p, e))
    return out


def series_records(tm):
    """Curved shapes at resolutions n, 2n, 4n against the smooth value."""
    c = tm.creation
    out = []
    slack = 50   # 5e-3 in fixed point: float noise only; inscribed values are strictly below the smooth ones

    def rec(kind, params, meshes, smooth_vol, smooth_area, resid):
        meshes = list(meshes)
        out.append({"rec": "series", "kind": kind, "params": params, "exc": "", "vols": [fp(m.volume) for m in meshes],
                    "areas": [fp(m.area) for m in meshes], "smooth_vol": fp(smooth_vol), "smooth_area": fp(smooth_area),
                    "radius_residual": fp(resid), "slack": slack})
    for n in (3, 4, 5, 6, 8):
        r, h = 1.5, 2.0
        ms = [c.cylinder(radius=r, height=h, sections=k) for k in (n, 2 * n, 4 * n)]
        resid = max(np.abs(np.linalg.norm(np.array(m.vertices)[:, :2], axis=1)[np.linalg.norm(np.array(m.vertices)[:, :2], axis=1) > 1e-9] - r).max() for m in ms)
        rec("cylinder", {"sections": n}, ms, np.pi * r * r * h, 2 * np.pi * r * h + 2 * np.pi * r * r, resid)
        ms = [c.cone(radius=1.0, height=3.0, sections=k) for k in (n, 2 * n, 4 * n)]
        rec("cone", {"sections": n}, ms, np.pi * 3.0 / 3.0, np.pi * 1.0 * (1.0 + np.sqrt(10.0)), 0.0)
        ms = [c.annulus(r_min=1.0, r_max=2.0, height=1.5, sections=k) for k in (n, 2 * n, 4 * n)]
        rec("annulus", {"sections": n}, ms, np.pi * (4 - 1) * 1.5, 2 * np.pi * 3 * 1.5 + 2 * np.pi * 3, 0.0)
    ms = [c.icosphere(subdivisions=k, radius=2.0) for k in (0, 1, 2, 3)]
    resid = max(np.abs(np.linalg.norm(np.array(m.vertices), axis=1) - 2.0).max() for m in ms)
    rec("icosphere", {}, ms, 4 / 3 * np.pi * 8, 4 * np.pi * 4, resid)
    for n in (4, 6):
        ms = [c.uv_sphere(radius=1.5, count=[k, k]) for k in (n, 2 * n, 4 * n)]
        resid = max(np.abs(np.linalg.norm(np.array(m.vertices), axis=1) - 1.5).max() for m in ms)
        rec("uv_sphere", {"count": n}, ms, 4 / 3 * np.pi * 1.5 ** 3, 4 * np.pi * 1.5 ** 2, resid)
        ms = [c.torus(3.0, 1.0, major_sections=k, minor_sections=k) for k in (n, 2 * n, 4 * n)]
        rec("torus", {"sections": n}, ms, 2 * np.pi ** 2 * 3.0, 4 * np.pi ** 2 * 3.0, 0.0)
        ms = [c.capsule(height=2.0, radius=1.0, count=[k, k]) for k in (n, 2 * n, 4 * n)]
        rec("capsule", {"count": n}, ms, np.pi * 2.0 + 4 / 3 * np.pi, 2 * np.pi * 2.0 + 4 * np.pi, 0.0)
    for r_ in out:
        r_.update({"has_analytic_vol": False, "has_analytic_area": False, "analytic_vol": 0, "analytic_area": 0})
    # primitives: their closed-form volume / area are the smooth values, above their own tessellation
    P = tm.primitives
    T = T4(RZ @ RX, (1, 2, 3))
    for mk, sv, sa in ((lambda: P.Sphere(radius=2.0, subdivisions=3), 4 / 3 * np.pi * 8, 4 * np.pi * 4),
                       (lambda: P.Cylinder(radius=1.5, height=2.0, sections=64, transform=T), np.pi * 2.25 * 2, 2 * np.pi * 1.5 * 2 + 2 * np.pi * 2.25),
                       (lambda: P.Capsule(radius=1.0, height=2.0, sections=64, transform=T), np.pi * 2 + 4 / 3 * np.pi, 2 * np.pi * 2 + 4 * np.pi),
                       (lambda: P.Box(extents=[1, 2, 3], transform=T), 6.0, 22.0)):
        try:
            prim = mk()
            mesh = prim.to_mesh()
            out.append({"rec": "series", "kind": "prim_" + type(prim).__name__, "params": {}, "exc": "",
                        "vols": [fp(mesh.volume) - 1, fp(mesh.volume)], "areas": [fp(mesh.area) - 1, fp(mesh.area)],
                        "smooth_vol": fp(sv), "smooth_area": fp(sa), "radius_residual": 0, "slack": slack,
                        "has_analytic_vol": "volume" in type(prim).__dict__, "has_analytic_area": "area" in type(prim).__dict__,
                        "analytic_vol": fp(prim.volume), "analytic_area": fp(prim.area)})
        except BaseException as e:  # noqa
            out.append({"rec": "series", "kind": "prim", "params": {}, "exc": type(e).__name__ + ":" + str(e)[:60], "vols": [0, 1], "areas": [0, 1],
                        "smooth_vol": 0, "smooth_area": 0, "radius_residual": 0, "slack": slack, "has_analytic_vol": False, "has_analytic_area": False, "analytic_vol": 0, "analytic_area": 0})
    return out


# ------------------------------------------------------------------ primitive histories
def prim_make(tm, which, params):
    """params["T"] None: the constructor is called WITHOUT a transform (the class' own default placement)"""
    P = tm.primitives
    res = params.get("res")
    kw = {} if params.get("T") is None else {"transform": np.array(params["T"], dtype=float).copy()}
    if which == "box":
        return P.Box(extents=params["dim"], **kw)
    if which == "sphere":
        return P.Sphere(radius=params["dim"][0], subdivisions=2 if res is None else res, **kw)
    if which == "cylinder":
        return P.Cylinder(radius=params["dim"][0], height=params["dim"][1], sections=7 if res is None else res, **kw)
    if which == "capsule":
        return P.Capsule(radius=params["dim"][0], height=params["dim"][1], sections=6 if res is None else res, **kw)
    from shapely.geometry import Polygon
    d = 1.0 if res is None else res
    return P.Extrusion(polygon=Polygon([(0, 0), (params["dim"][0], 0), (params["dim"][0], d), (0, d)]), height=params["dim"][1], **kw)


def same_params(a, b):
    return (np.allclose(a["dim"], b["dim"], atol=1e-12) and np.allclose(a["T"], b["T"], atol=1e-12)
            and ((a["res"] is None and b["res"] is None) or abs(float(a["res"]) - float(b["res"])) < 1e-12))


def same_mesh(p, fresh):
    a, b = (np.array(p.vertices), np.array(p.faces)), (np.array(fresh.vertices), np.array(fresh.faces))
    return (a[0].shape == b[0].shape and np.allclose(a[0], b[0], atol=1e-9) and np.array_equal(a[1], b[1])
            and np.allclose(np.array(p.bounds), np.array(fresh.bounds), atol=1e-9)
            and abs(float(p.volume) - float(fresh.volume)) <= 1e-9 * max(1.0, abs(float(fresh.volume))))


def prim_params(p, which):
    pr = p.primitive
    res = None
    if which == "box":
        dim = list(np.array(pr.extents, dtype=float))
    elif which == "sphere":
        dim = [float(pr.radius)]
        res = int(pr.subdivisions)
    elif which in ("cylinder", "capsule"):
        dim = [float(pr.radius), float(pr.height)]
        res = int(pr.sections)
    else:
        b = pr.polygon.bounds
        dim = [float(b[2] - b[0]), float(pr.height)]
        res = float(b[3] - b[1])
    return {"dim": dim, "T": np.array(pr.transform, dtype=float).copy(), "res": res}


# apply_transform classes of the state machine -> lattice maps (fam.placed_record needs them exact)
TRANSFORMS = {"translate": [(I3, (2, 0, 1), 1)], "rotate": [(RX, (0, 1, 0), 1), (fam.RY @ RZ, (0, 0, 0), 1)],
              "mirror": [(MIR, (0, 2, 0), 1), (np.diag([1.0, 1.0, -1.0]), (-1, 0, 4), 1)],
              "scale": [fam.SIMILAR["scale_t"], fam.SIMILAR["similarity"], fam.SIMILAR["scale_about_point"], fam.SIMILAR["shrink_about_point"]]}
LIMIT = 2 ** 31 // 40


def _small(ms):
    return all(abs(v) < LIMIT for m in ms for v in (m["vol"], m["area"], *m["com"], *m["b"][0], *m["b"][1]))


def replay_prim(tm, which, h, rot):
    # two primitives of the class are built from the same arguments, either with a lattice placement or without
    # any transform argument (default placement); the second one is a bystander that is only ever read
    T0 = T4(RZ, (1, 2, 3)) if rot % 2 == 0 else None
    start = {"box": [1.0, 2.0, 3.0], "sphere": [2.0], "cylinder": [1.5, 3.0], "capsule": [1.0, 2.0], "extrusion": [2.0, 1.5]}[which]
    first = (rot // 2) % 3       # 0: bystander built first, 1: built second, 2: built second and its mesh read at once
    other = prim_make(tm, which, {"dim": start, "T": T0}) if first == 0 else None
    p = prim_make(tm, which, {"dim": start, "T": T0})
    if other is None:
        other = prim_make(tm, which, {"dim": start, "T": T0})
    if first == 2:
        np.array(other.vertices)
    born = prim_params(other, which)      # parameters of a primitive just built from these arguments
    steps = ["start " + ("placed" if T0 is not None else "default placement") + "/%d" % first]
    placed = []
    for j, st in enumerate(h):
        op = st["op"]
        if op == "set":
            pr = p.primitive
            which_p = st["p"]
            try:
                if which_p == "transform":
                    var = (rot + j) % 3
                    if var == 1:
                        # in-place edit of the stored matrix
                        pr.transform[:3, 3] += [1.0, 0.5, -1.0]
                    elif var == 2 and which == "sphere":
                        p.center = np.array(pr.center, dtype=float) + [1.0, 0.5, -1.0]
                    elif var == 2 and which == "extrusion":
                        p.slide(0.5)
                    else:
                        M = np.array(pr.transform, dtype=float)
                        M[:3, 3] += [1.0, 0.5, -1.0]
                        pr.transform = M
                    which_p = "transform/%d" % var
                elif which_p == "resolution":
                    if which == "box":
                        pr.extents[2] = float(pr.extents[2]) + 0.5     # item assignment on the stored array
                    elif which == "sphere":
                        pr.subdivisions = 1 if int(pr.subdivisions) == 2 else 2
                    elif which in ("cylinder", "capsule"):
                        pr.sections = int(pr.sections) + 2
                    else:
                        from shapely.geometry import Polygon
                        b = pr.polygon.bounds
                        pr.polygon = Polygon([(0, 0), (b[2], 0), (b[2], b[3] + 1.0), (0, b[3] + 1.0)])
                elif which == "box":
                    e = np.array(pr.extents, dtype=float)
                    e[0 if which_p == "dim1" else 1] *= 1.5
                    pr.extents = e
                elif which == "sphere":
                    pr.radius = float(pr.radius) * 1.25
                elif which in ("cylinder", "capsule"):
                    if which_p == "dim1":
                        pr.radius = float(pr.radius) * 1.5
                    else:
                        pr.height = float(pr.height) + 1.0
                else:
                    pr.height = float(pr.height) + (1.0 if which_p == "dim1" else 0.5)
            except BaseException as e:  # noqa
                return {"clause": "set_parameter_raises", "step": j, "exc": type(e).__name__}, steps, placed
            steps.append("set " + which_p)
        elif op == "transform":
            variants = TRANSFORMS[st["c"]]
            spec = variants[(rot + j) % len(variants)]
            M = fam.lattice_matrix(spec)
            try:
                pre = fam.meas(p.to_mesh())
                p.apply_transform(M)
            except ValueError:
                steps.append("transform refused")
                continue
            except BaseException as e:  # noqa
                return {"clause": "apply_transform_raises", "step": j, "exc": type(e).__name__ + ":" + str(e)[:60]}, steps, placed
            steps.append("transform %s/%d" % (st["c"], (rot + j) % len(variants)))
            try:
                post = fam.meas(p.to_mesh())
            except BaseException as e:  # noqa
                return {"clause": "read_raises", "step": j, "exc": type(e).__name__ + ":" + str(e)[:60]}, steps, placed
            if _small([pre, post]):
                placed.append(fam.placed_record("apply_transform:" + which, {"steps": list(steps)}, spec, pre, post))
        elif op == "copy":
            p = p.copy() if (rot + j) % 2 else __import__("copy").deepcopy(p)
            steps.append("copy")
        elif op == "read_other":
            steps.append("read_other")
            try:
                now = prim_params(other, which)
                if not same_params(now, born):
                    return {"clause": "bystander_parameters_changed", "step": j, "was": str(born["T"][:3, 3]), "now": str(now["T"][:3, 3])}, steps, placed
                if not same_mesh(other, prim_make(tm, which, born)):
                    return {"clause": "MeshReflectsParameters", "step": j, "what": "bystander"}, steps, placed
                if not same_params(prim_params(prim_make(tm, which, {"dim": start, "T": T0}), which), born):
                    return {"clause": "new_primitive_differs_from_first", "step": j}, steps, placed
            except BaseException as e:  # noqa
                return {"clause": "read_raises", "step": j, "exc": type(e).__name__ + ":" + str(e)[:60]}, steps, placed
        elif op == "read":
            fresh = prim_make(tm, which, prim_params(p, which))
            steps.append("read " + st["what"])
            try:
                if st["what"] == "mesh":
                    a, b = (np.array(p.vertices), np.array(p.faces)), (np.array(fresh.vertices), np.array(fresh.faces))
                    ok = a[0].shape == b[0].shape and np.allclose(a[0], b[0], atol=1e-9) and np.array_equal(a[1], b[1])
                elif st["what"] == "volume":
                    ok = abs(float(p.volume) - float(fresh.volume)) <= 1e-9 * max(1.0, abs(float(fresh.volume))) and \
                        abs(float(p.to_mesh().volume) - float(fresh.to_mesh().volume)) <= 1e-9 * max(1.0, abs(float(fresh.volume)))
                else:
                    ok = np.allclose(np.array(p.bounds), np.array(fresh.bounds), atol=1e-9) and np.allclose(np.array(p.to_mesh().bounds), np.array(fresh.to_mesh().bounds), atol=1e-9)
            except BaseException as e:  # noqa
                return {"clause": "read_raises", "step": j, "exc": type(e).__name__ + ":" + str(e)[:60]}, steps, placed
            if not ok:
                return {"clause": "MeshReflectsParameters", "step": j, "what": st["what"]}, steps, placed
            if not p.is_watertight or float(p.to_mesh().volume) <= 0:
                return {"clause": "primitive_stays_a_valid_solid", "step": j}, steps, placed
            tv = float(p.to_mesh().volume)
            if not (tv <= float(p.volume) * (1 + 1e-9) and tv >= 0.6 * float(p.volume)):
                return {"clause": "closed_form_volume_vs_tessellation", "step": j, "closed_form": float(p.volume), "tessellation": tv}, steps, placed
    # whatever the history was, nothing in it was an edit of the bystander (its parameter version is still 0)
    now = prim_params(other, which)
    if not same_params(now, born):
        return {"clause": "bystander_parameters_changed", "step": len(h), "was": str(born["T"][:3, 3]), "now": str(now["T"][:3, 3])}, steps, placed
    return None, steps, placed


def _prim_chunk(args):
    tm = import_trimesh()
    out = []
    recs = []
    n = 0
    for idx, h, which in args:
        f, steps, placed = replay_prim(tm, which, h, idx + seed())
        n += 1
        recs.extend(placed)
        if f:
            f.update({"primitive": which, "steps": steps})
            out.append(f)
    return out, n, recs


# findings of the coverage audit: attributed by a predicate on the INPUT of the record (a listed known finding turns the
# observation into KNOWN-FINDING; while it is not listed in known_findings.jsonl it is reported as a violation)
def audit_deviation(kind, pr, clause):
    if kind.startswith("resolution_Capsule") and clause in ("volume_grows_with_resolution", "area_grows_with_resolution", "approaches_smooth_value"):
        return "CapsuleIgnoresSections"
    if kind == "revolve2" and pr.get("sections", 0) is None and pr.get("angle64", 64) < 2:
        return "RevolveDefaultSectionsZero"
    # creation.revolve drops template triangles whose area is <= tol.merge = 1e-8 whatever the size of the shape: real faces
    # of small shapes go (observed for sizes 2^-10 and below), the sliver triangles at poles computed as sin(pi) * r stay for
    # large ones (observed for 2^14 and above)
    if kind == "magnitude" and pr.get("kind") in fam.REVOLVED and (pr["exp2"] <= -10 or pr["exp2"] >= 14) and not clause.startswith("analytic"):
        return "RevolveAbsoluteAreaCull"
    return None


def main(argv):
    import random
    tier = tier_from_args(argv)
    V = Verdict(PROP, tier)
    tm = import_trimesh()
    jobs = shape_jobs(tier)
    res = pmap(_shape_chunk, jobs, chunk=25)
    cases = [c for r in res for c in r]
    try:
        cases += series_records(tm)
        cases += fam.primitive_series(tm, 50)
    except BaseException as e:  # a creation function raised on plain valid parameters
        cases.append({"rec": "series", "kind": "series", "params": {}, "exc": type(e).__name__ + ":" + str(e)[:80], "vols": [0, 1], "areas": [0, 1],
                      "smooth_vol": 0, "smooth_area": 0, "radius_residual": 0, "slack": 0, "has_analytic_vol": False, "has_analytic_area": False, "analytic_vol": 0, "analytic_area": 0})
    pj = fam.placed_jobs(tier)
    for r in pmap(fam.placed_chunk, pj, chunk=12):
        cases += r
    if len(cases) < 2000:
        raise MachineryError("too few shapes")
    # primitive state machine: model-check, emit every history, replay on the real classes
    d = tlc.prepare("c15/prim")
    r = tlc.must(tlc.run(d, "PrimitiveObject", PCFG.format(depth=7, view="VIEW View", invs="INVARIANT MeshReflectsParameters")), "prim-mc")
    states = r.distinct
    trans = r.distinct + r.generated
    prims = ["box", "sphere", "cylinder", "capsule", "extrusion"]
    rng = random.Random(seed())
    work = []
    all_hists = []
    emitted = 0
    for depth, times, cap in ([(4, 1, 7000)] if tier == "quick" else [(4, 3, None), (5, 1, 60000)]):
        r2 = tlc.must(tlc.run(d, "PrimitiveObject", PCFG.format(depth=depth, view="", invs="INVARIANT EmitLeaf"), workers=1, timeout=1500), "prim-emit")
        hists = [h for h in r2.printed if any(s["op"] in ("read", "read_other") for s in h)]
        emitted += len(hists)
        states += r2.distinct
        trans += r2.generated
        if len(hists) < 5000:
            raise MachineryError("too few primitive histories")
        if cap is not None and len(hists) > cap:
            hists = rng.sample(hists, cap)
        base = len(all_hists)
        all_hists += hists
        for hi, h in enumerate(hists):
            for t in range(times):
                work.append((base + hi + t, h, prims[(hi + t * 2 + seed()) % len(prims)]))
    res = pmap(_prim_chunk, work, chunk=60)
    nprim = sum(x[1] for x in res)
    nother = sum(1 for _, h, _ in work for st in h if st["op"] == "read_other")
    ndefault = sum(1 for idx, _, _ in work if (idx + seed()) % 2 == 1)
    if nother < 2000 or ndefault < len(work) // 4:
        raise MachineryError("too few reads of the bystander primitive / default-placed starts")
    nplaced = 0
    seen = set()
    for x in res:
        for f in x[0]:
            V.violation("primitive:" + f["clause"], f)
        for rec in x[2]:
            # the same (primitive, map, measures) arises in many histories: judge each once
            key = (rec["kind"], str(rec["M"]), str(rec["t"]), rec["den"], str(rec["pre"]), str(rec["post"]))
            nplaced += 1
            if key not in seen:
                seen.add(key)
                cases.append(rec)
    meta = []
    for k, c in enumerate(cases):
        c["id"] = k
        meta.append({"kind": c.pop("kind"), "params": c.pop("params")})
    rejects, vstates, wall = tlc.validate_batches("c15", "Solids", cases, CFG, timeout=1500)
    states += vstates
    trans += vstates
    for cid, clause in sorted(rejects.items()):
        pr = meta[cid]["params"]
        kind = meta[cid]["kind"]
        dev = audit_deviation(kind, pr, clause)
        earcut = pr.get("engine", "") in ("earcut", None) or (kind in ("prim_extrusion", "sweep_prism") and pr.get("which") != "closed_form")
        if kind in ("extrude", "extrude2", "prim_extrusion", "sweep_prism", "sweep_prism2") and clause == "analytic_area" and earcut and len(POLYS[pr["polygon"]][1]) >= 2:
            dev = "ExtrudeEarcutTJunctions"
        V.violation(f"{kind.split(':')[0]}:{clause}", dict(meta[cid], exc=cases[cid]["exc"], vol_fp=cases[cid].get("vol_fp"), n_faces=len(cases[cid].get("faces", []))), dev)
    bykind = {}
    for m_ in meta:
        k_ = m_["kind"].split(":")[0]
        bykind[k_] = bykind.get(k_, 0) + 1
    # coverage guards: every family must really have been exercised
    need = {"extrude2": 150, "sweep_prism2": 80, "sweep_closed": 20, "revolve2": 100, "magnitude": 60, "defaults": 6, "placed": 150, "independent": 16,
            "independent_rebuilt": 16, "segment": 50, "box_inertia": 30, "curved_inertia": 15, "apply_transform": 300, "resolution_Cylinder": 4,
            "resolution_Sphere": 2, "box_bounds": 4, "aspect": 60, "fine_detail": 12}
    for k_, n_ in need.items():
        if bykind.get(k_, 0) < n_:
            raise MachineryError(f"family {k_} nearly empty: {bykind.get(k_, 0)} records (expected >= {n_})")
    if nplaced < 2000:
        raise MachineryError("too few apply_transform observations")
    cov = {"states": states, "transitions": trans, "traces_validated_against_impl": len(cases) + nprim,
           "shapes_per_kind": bykind, "primitive_histories_emitted": emitted, "primitive_histories_replayed": nprim,
           "apply_transform_observations": nplaced, "bystander_reads": nother, "histories_from_default_placement": ndefault, "rejected": len(rejects), "tlc_wall_s": round(wall, 1),
           "samples": [meta[len(meta) // 3], meta[-1], all_hists[len(all_hists) // 2]]}
    return V.finish("model_checking", cov, assumptions=[
        "fixed point 1e-4 for measures; inscribed-versus-smooth comparisons allow 5e-3 of float noise",
        "section counts 3..12 (thorough 3..16, 32), subdivisions 0..2, partial revolutions in eighths of a turn",
        "Sphere keeps its tessellation axis aligned (by design, see C04): compared against a fresh Sphere with the same parameters",
        "placement law judged for lattice similarity maps only (signed permutation times 1, 2 or 1/2, integer or half-integer shifts)",
        "quick replays a seeded sample of 7000 of the depth-4 histories (two primitives each, half of them built without a transform); thorough all of them three times plus 60000 of depth 5",
    ])


if __name__ == "__main__":
    try:
        sys.exit(main(sys.argv[1:]))
    except MachineryError as e:
        print("MACHINERY-ERROR:", e)
        sys.exit(2)
