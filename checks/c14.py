"""C14 - paths rebuild the same regions from segments in any order.

Reference: spec/Regions.tla (polygon identity as undirected edge sets, exact even-odd
containment, nesting depth, shells and holes, shoelace area with holes, integer perimeter;
covariance under integer similarity maps).
The harness enumerates drawings (disjoint / nested rectangles, rectilinear and 3-4-5 polygons)
and their presentations - every split of each curve into polylines at its vertices, every
direction assignment, listing orders (all for few pieces, seeded samples beyond), shared or
duplicated vertices - builds the real Path2D, runs a history (read; or read*, apply_transform
of a similarity class, read*; or export to dxf / svg / dict and load_path) and records
is_closed, polygons_closed, polygons_full, area, length, body_count as integers; TLC judges
every record against the drawing alone.  Drawings with arcs (lattice circle of radius 5 as
three-point arcs) have irrational measures: there every presentation must agree with the
canonical presentation of the same drawing (length at 1e-9, area within the discretisation
granularity 1e-3), with polygon counts and nesting judged exactly.

Families added by the coverage audit (all judged by TLC, Regions.tla):
  * other ways to build the same drawing (line segments / MultiLineString / shapely polygons through
    load_path, concatenation of per-piece paths, explode(), copy(), split() and back together, 3D and
    back), fully exploded
    presentations, deeper nesting (depth 4, sibling holes with islands, nested second body);
  * histories with two transforms and a single derived value read before / between them, the
    convenience entry points (apply_scale, apply_translation, rezero), a similarity that is not
    axis aligned (3-4-5 rotation, also as a pure rotation by a rational angle), transform then export
    and export then transform, svg round trips compared exactly, drawings 10^3 times larger;
  * drawings whose boundaries mix straight and circular parts (stadium, half disc, rounded square with
    a hole, closed-circle entities, annulus, circle as shell, several bodies): lattice skeletons give
    the nesting, polygonal curves must come back exactly, measures must stand in a fixed-point
    relation to the canonical presentation (records of kind "arc", ArcClause) through splittings,
    directions, orders, private vertices, similarity maps (cold / warm), dxf / svg / dict round trips,
    magnitudes 2^-20 .. 2^40, and the same boundary given by Line entities through the
    discretisation of its arcs.
"""
import itertools
import io
import sys

import numpy as np

from harness import tlc
from harness.common import (MachineryError, Verdict, import_trimesh, pmap, seed,
                            tier_from_args)

PROP = "C14"
CFG = "INIT Init\nNEXT Next\nINVARIANT Report\nINVARIANT RefSane\nCHECK_DEADLOCK FALSE\n"


def rect(x0, y0, x1, y1):
    return [[x0, y0], [x1, y0], [x1, y1], [x0, y1]]


CURVES = {
    "outer": rect(0, 0, 12, 12),
    "hole": rect(2, 2, 8, 8),
    "island": rect(3, 3, 5, 5),
    "hole2": rect(9, 2, 11, 6),
    "apart": rect(14, 0, 18, 4),
    "ell": [[20, 0], [26, 0], [26, 2], [22, 2], [22, 6], [20, 6]],
    "tri345": [[30, 0], [33, 0], [30, 4]],
    "tri345_big": [[14, 6], [20, 6], [14, 14]],
    "split_side": [[0, 20], [4, 20], [8, 20], [8, 24], [0, 24]],          # a side with a collinear vertex
}
CURVES.update({
    # audit: deeper nesting, sibling holes with their own islands, a nested second body
    "n1": rect(2, 2, 10, 10), "n2": rect(3, 3, 9, 9), "n3": rect(4, 4, 8, 8), "n4": rect(5, 5, 7, 7),
    "h1": rect(1, 1, 5, 5), "h2": rect(6, 1, 11, 7), "i1": rect(2, 2, 4, 4), "i2": [[7, 2], [10, 2], [7, 6]],
    "b2": rect(14, 0, 24, 10), "b2h": rect(15, 1, 23, 9), "b2i": rect(16, 2, 22, 8), "b2j": rect(17, 3, 21, 7),
    # inside the bounding box of a non-convex / slanted curve but outside the curve itself
    "notch": rect(23, 3, 25, 5), "corner": rect(18, 11, 19, 13),
})
DRAWINGS = [["outer"], ["outer", "hole"], ["outer", "hole", "island"], ["outer", "apart"], ["outer", "hole", "hole2"],
            ["ell"], ["tri345", "apart"], ["outer", "hole", "island", "apart"], ["split_side"], ["tri345_big", "outer"]]
DRAWINGS_DEEP = [["outer", "n1", "n2", "n3", "n4"], ["outer", "h1", "h2", "i1", "i2"],
                 ["outer", "hole", "b2", "b2h", "b2i", "b2j"], ["outer", "h1", "i1", "h2", "b2", "b2h"],
                 ["ell", "notch"], ["tri345_big", "corner", "outer"]]

MAPS = {
    "none": {"l": [[1, 0], [0, 1]], "t": [0, 0]},
    "rot90": {"l": [[0, -1], [1, 0]], "t": [3, -2]},
    "rot180": {"l": [[-1, 0], [0, -1]], "t": [0, 7]},
    "scale2": {"l": [[2, 0], [0, 2]], "t": [-5, 1]},
    "mirror": {"l": [[-1, 0], [0, 1]], "t": [40, 0]},
    "translate": {"l": [[1, 0], [0, 1]], "t": [7, 11]},
    "sim": {"l": [[0, 3], [-3, 0]], "t": [1, 1]},
    # audit: similarities that are not axis aligned (3-4-5 rotation with scale 5, also mirrored), plain scale 3
    "r345": {"l": [[3, -4], [4, 3]], "t": [1, 2]},
    "r345m": {"l": [[3, 4], [4, -3]], "t": [-2, 0]},
    "scale3": {"l": [[3, 0], [0, 3]], "t": [0, 0]},
}
# single derived values read before / between transforms
READS = {
    "none": lambda p: None, "paths": lambda p: p.paths, "discrete": lambda p: p.discrete, "root": lambda p: p.root,
    "encl": lambda p: p.enclosure_directed, "graph": lambda p: p.vertex_graph, "closed": lambda p: p.polygons_closed,
    "full": lambda p: p.polygons_full, "area": lambda p: p.area, "length": lambda p: p.length,
    "shell": lambda p: p.enclosure_shell, "bounds": lambda p: (p.bounds, p.extents, p.scale), "dangling": lambda p: p.dangling,
    "all": lambda p: (p.paths, p.polygons_full, p.area, p.length, p.bounds, p.is_closed, p.body_count),
}


def m3(m):
    M = np.eye(3)
    M[:2, :2] = m["l"]
    M[:2, 2] = m["t"]
    return M


def presentations(curve, maxpieces, rs, cap):
    """All ways to cut a closed vertex cycle into <= maxpieces polylines at vertices, with directions."""
    n = len(curve)
    out = []
    for k in range(1, min(maxpieces, n) + 1):
        for cuts in itertools.combinations(range(n), k):
            pieces = []
            for a, b in zip(cuts, cuts[1:] + (cuts[0] + n,)):
                idx = [j % n for j in range(a, b + 1)]
                if k == 1:
                    idx = [j % n for j in range(a, a + n + 1)]
                pieces.append(idx)
            for dirs in itertools.product((False, True), repeat=k):
                out.append([p[::-1] if d else p for p, d in zip(pieces, dirs)])
    if len(out) > cap:
        sel = rs.permutation(len(out))[:cap]
        out = [out[i] for i in sorted(sel)]
    return out


def exploded(curve, rs):
    """One two-point piece per edge, random directions."""
    n = len(curve)
    return [[j, (j + 1) % n][::(-1 if rs.randint(2) else 1)] for j in range(n)]


def snap(x, what):
    a = np.asarray(x, dtype=float)
    r = np.round(a)
    if a.size and np.abs(a - r).max() > 1e-6:
        raise ValueError("offlattice:" + what)
    return r.astype(int).tolist()


def observe(p, loose=False, unscale=1.0):
    """unscale: the drawing was built at 1/unscale of its lattice size; report it back at lattice size
    (similarity covariance: lengths scale by s, areas by s^2)."""
    full = []
    k = unscale
    if loose:
        # frame chosen by the library: only counts, hole counts, area and length are reported
        return {"den": 1, "closed": bool(p.is_closed), "polys": [[] for _ in p.polygons_closed],
                "full": [{"ext": [], "ints": [[] for _ in q.interiors]} for q in p.polygons_full],
                "area2": snap(float(p.area) * 2 * k * k, "area"), "length": snap(float(p.length) * k, "length"), "bodies": int(p.body_count)}
    for poly in p.polygons_full:
        full.append({"ext": snap(np.array(poly.exterior.coords) * k, "ext"), "ints": [snap(np.array(i.coords) * k, "int") for i in poly.interiors]})
    return {"den": 1, "closed": bool(p.is_closed), "polys": [snap(np.array(q.exterior.coords) * k, "poly") for q in p.polygons_closed],
            "full": full, "area2": snap(float(p.area) * 2 * k * k, "area"), "length": snap(float(p.length) * k, "length"),
            "bodies": int(p.body_count)}


def build(tm, names, pres, order, dup_vertices, process, shrink=1.0):
    from trimesh.path.entities import Line
    verts = []
    ents = []
    base = {}
    for n in names:
        base[n] = len(verts)
        verts += CURVES[n]
    if dup_vertices:
        # every piece gets private copies of its vertices (merged again by process=True)
        verts = []
    pieces = []
    for n, pr in zip(names, pres):
        for piece in pr:
            pieces.append((n, piece))
    pieces = [pieces[i] for i in order]
    for n, piece in pieces:
        if dup_vertices:
            start = len(verts)
            verts += [CURVES[n][j] for j in piece]
            ents.append(Line(list(range(start, start + len(piece)))))
        else:
            ents.append(Line([base[n] + j for j in piece]))
    return tm.path.Path2D(entities=ents, vertices=np.array(verts, dtype=float) * shrink, process=process)


def pieces_of(names, pres, order):
    pieces = []
    for n, pr in zip(names, pres):
        for piece in pr:
            pieces.append([CURVES[n][j] for j in piece])
    return [pieces[i] for i in order]


def build_entry(tm, names, pres, order, how):
    """The same presentation handed to trimesh through its other constructors."""
    import shapely.geometry as sg
    pcs = pieces_of(names, pres, order)
    if how == "segments":
        segs = np.array([[a, b] for pc in pcs for a, b in zip(pc[:-1], pc[1:])], dtype=float)
        return tm.load_path(segs)                                    # misc.lines_to_path / edges_to_path
    if how == "mls":
        return tm.load_path(sg.MultiLineString([[tuple(q) for q in pc] for pc in pcs]))   # linestrings_to_path
    if how in ("polygon", "multipolygon"):
        # one shapely polygon per curve (ring start and direction from the presentation)
        rings = []
        for n, pr in zip(names, pres):
            c = CURVES[n]
            first = pr[0]
            d = 1 if (len(first) < 2 or (first[1] - first[0]) % len(c) == 1) else -1
            rings.append(sg.Polygon([c[(first[0] + d * j) % len(c)] for j in range(len(c))]))
        r = order[0] % len(rings)
        rings = rings[r:] + rings[:r]
        if how == "multipolygon":
            # the rings as one (unvalidated) collection: polygon_to_path walks several boundaries
            return tm.load_path(sg.MultiPolygon(rings))
        parts = [tm.load_path(q) for q in rings]                      # polygon_to_path, one boundary each
        return parts[0].copy() if len(parts) == 1 else tm.path.util.concatenate(parts)
    if how in ("concat", "add"):
        parts = [tm.load_path(np.array(pc, dtype=float)) for pc in pcs]   # (n, 2) connected polyline
        if how == "concat" or len(parts) == 1:
            return tm.path.util.concatenate(parts)
        q = parts[0]
        for x in parts[1:]:
            q = q + x
        q.merge_vertices()
        return q
    raise ValueError(how)


def apply_hist_map(p, name):
    p.apply_transform(m3(MAPS[name]))


def roundtrip(tm, p, ft):
    data = p.export(file_type=ft)
    if ft == "dict":
        return tm.load_path(data)
    raw = data.encode() if isinstance(data, str) else data
    return tm.load_path(io.BytesIO(raw), file_type=ft)


def run_case(tm, job):
    names, pres, order, dup, hist = job
    rec = {"kind": "poly", "curves": [CURVES[n] for n in names], "m": MAPS["none"], "m2": MAPS["none"], "loose": False, "rezero": False, "exc": "",
           "desc": {"drawing": names, "pieces": pres, "order": list(order), "dup_vertices": dup, "history": hist}}
    try:
        kind = hist[0]
        unscale = 1.0
        if kind == "tiny":
            # the same drawing at 10^-k of its size: rebuilt from segments, and through dict / dxf / svg
            # (negative k: 2^-k times larger - a power of two keeps the lattice exact and uses many digits)
            unscale = 10.0 ** hist[1] if hist[1] > 0 else 2.0 ** hist[1]
            p = build(tm, names, pres, order, dup, True, shrink=1.0 / unscale)
            if hist[2] != "direct":
                p = roundtrip(tm, p, hist[2])
        elif kind == "entry" and hist[1] in ("segments", "mls", "polygon", "multipolygon", "concat", "add"):
            p = build_entry(tm, names, pres, order, hist[1])
        else:
            p = build(tm, names, pres, order, dup, True if dup else (hist[0] != "raw"))
        if kind in ("read", "raw", "tiny"):
            pass
        elif kind == "entry":
            how = hist[1]
            if how == "explode":
                if hist[2] == "warm":
                    p.polygons_full, p.length
                p.explode()
            elif how == "copy":
                READS[hist[2]](p)
                q = p.copy()
                p.apply_transform(m3(MAPS["sim"]))            # the original moves on, the copy must not
                p = q
            elif how == "split":
                # one path per body and back together
                READS[hist[2]](p)
                parts = list(p.split())
                p = parts[0] if len(parts) == 1 else tm.path.util.concatenate(parts[::-1])
            elif how == "to3d":
                p3 = p.to_3D()
                p3.apply_transform(tm.transformations.rotation_matrix(0.7, [1, 2, 3], [1, 1, 1]))
                p, _ = p3.to_2D()
                rec["loose"] = True                           # the fitted plane frame is arbitrary in-plane
        elif kind == "transform":
            if hist[2] == "warm":
                p.paths, p.polygons_full, p.area, p.length, p.bounds, p.is_closed
            elif hist[2] == "partial":
                p.polygons_closed, p.length
            p.apply_transform(m3(MAPS[hist[1]]))
            rec["m"] = MAPS[hist[1]]
        elif kind == "transform2":
            _, m1, r1, m2, r2 = hist
            READS[r1](p)
            p.apply_transform(m3(MAPS[m1]))
            READS[r2](p)
            p.apply_transform(m3(MAPS[m2]))
            rec["m"], rec["m2"] = MAPS[m1], MAPS[m2]
        elif kind == "via":
            READS[hist[2]](p)
            if hist[1] == "apply_scale":
                p.apply_scale(3.0)
                rec["m"] = MAPS["scale3"]
            elif hist[1] == "apply_translation":
                p.apply_translation([7, 11])
                rec["m"] = MAPS["translate"]
            elif hist[1] == "rezero":
                p.apply_transform(m3(MAPS["r345m"]))
                p.rezero()
                rec["m"] = MAPS["r345m"]
                rec["rezero"] = True                          # TLC moves the lower left corner of the image to the origin
        elif kind == "rot345":
            # a pure rotation by the rational angle atan2(4, 3): reported at 5 times its size
            READS[hist[1]](p)
            M = m3(MAPS["r345"])
            M[:2, :2] /= 5.0
            M[:2, 2] = [0.2, 0.4]
            p.apply_transform(M)
            unscale = 5.0
            rec["m"] = MAPS["r345"]
        elif kind == "t_export":
            READS[hist[3]](p)
            p.apply_transform(m3(MAPS[hist[1]]))
            p = roundtrip(tm, p, hist[2])
            rec["m"] = MAPS[hist[1]]
        elif kind == "export_t":
            p = roundtrip(tm, p, hist[1])
            READS[hist[3]](p)
            p.apply_transform(m3(MAPS[hist[2]]))
            rec["m"] = MAPS[hist[2]]
        elif kind == "export":
            ft = hist[1]
            if hist[2] == "warm":
                p.polygons_full, p.area
            p = roundtrip(tm, p, ft)
        rec["obs"] = observe(p, loose=rec["loose"], unscale=unscale)
    except BaseException as e:  # noqa
        rec["exc"] = type(e).__name__ + ":" + str(e)[:60]
        rec["obs"] = {"den": 1, "closed": False, "polys": [], "full": [], "area2": 0, "length": 0, "bodies": 0}
    return rec


def _chunk(jobs):
    tm = import_trimesh()
    return [run_case(tm, j) for j in jobs]


# ------------------------------------------------------------------ arcs: relation to the canonical presentation
CIRC = [(5, 0), (4, 3), (3, 4), (0, 5), (-3, 4), (-4, 3), (-5, 0), (-4, -3), (-3, -4), (0, -5), (3, -4), (4, -3)]


def arc_cases(tm, tier, rs):
    from trimesh.path.entities import Arc, Line
    fails = []
    n = 0

    def build_circle(starts, dirs, order, with_square, ctrl=1):
        verts = [[x + 10, y + 10] for x, y in CIRC]
        ents = []
        k = len(starts)
        for j, (a, b, d) in enumerate(zip(starts, starts[1:] + [starts[0] + 12], dirs)):
            # control point: near the start, in the middle or near the end of the arc
            mid = [a + 1, (a + b) // 2, b - 1][(ctrl + j) % 3]
            tri = [a % 12, mid % 12, b % 12]
            ents.append(Arc(tri[::-1] if d else tri))
        if with_square:
            base = len(verts)
            verts += [[0, 0], [20, 0], [20, 20], [0, 20]]
            ents.append(Line([base, base + 1, base + 2, base + 3, base]))
        ents = [ents[i] for i in order]
        return tm.path.Path2D(entities=ents, vertices=np.array(verts, dtype=float))
    for with_square in (False, True):
        ref = None
        for starts in ([0, 6], [0, 4, 8], [0, 2, 6], [0, 2, 4, 8], [2, 6, 10], [0, 4, 6, 10], [0, 8], [0, 3], [1, 10], [0, 8, 10]):
            k = len(starts)
            ne = k + (1 if with_square else 0)
            orders = list(itertools.permutations(range(ne)))
            if len(orders) > 6:
                orders = [orders[i] for i in rs.permutation(len(orders))[:6]]
            for dirs in itertools.product((False, True), repeat=k):
                for order in orders:
                  for ctrl in (0, 1, 2):
                    p = build_circle(starts, list(dirs), list(order), with_square, ctrl)
                    n += 1
                    val = (bool(p.is_closed), int(p.body_count), len(p.polygons_closed), len(p.polygons_full),
                           [len(q.interiors) for q in p.polygons_full])
                    num = (float(p.area), float(p.length))
                    if ref is None:
                        ref = (val, num)
                        # sanity of the canonical presentation against the smooth circle (discretisation is fine)
                        want_area = (400 - np.pi * 25) if with_square else np.pi * 25
                        if abs(num[0] - want_area) > 0.5:
                            fails.append({"clause": "arc_area_far_from_circle", "got": num[0], "want": want_area})
                        continue
                    if val != ref[0]:
                        fails.append({"clause": "arc_regions_depend_on_presentation", "starts": starts, "dirs": list(dirs), "order": list(order), "got": val, "canonical": ref[0]})
                    # length of an arc is analytic (independent of the split); area is that of the
                    # discretised polygon, whose resolution depends on how the circle was split: equal
                    # only up to the discretisation granularity (1e-3 relative)
                    elif abs(num[0] - ref[1][0]) > 1e-3 * abs(ref[1][0]) or abs(num[1] - ref[1][1]) > 1e-9 * 100:
                        fails.append({"clause": "arc_measures_depend_on_presentation", "starts": starts, "dirs": list(dirs), "order": list(order),
                                      "got": num, "canonical": ref[1]})
    return n, fails


# ------------------------------------------------------------------ arcs judged by TLC (records of kind "arc")
def _circ(cx, cy, pts):
    return [[cx + x, cy + y] for x, y in pts]


R5 = CIRC                                                                  # 12 lattice points of radius 5
R_SQRT5 = [(2, 1), (1, 2), (-1, 2), (-2, 1), (-2, -1), (-1, -2), (1, -2), (2, -1)]     # 8 lattice points of radius sqrt 5
# a curve is a cycle of spans; ("L", points) straight polyline, ("A", points) lattice points along one circular arc,
# ("O", points) a full circle (cyclic, first point not repeated)
ARC_CURVES = {
    "circle": [("O", _circ(10, 10, R5))],
    "circle_b": [("O", _circ(30, 8, R5))],
    "small_circle": [("O", _circ(10, 10, R_SQRT5))],
    "frame": [("L", [[0, 0], [20, 0], [20, 20], [0, 20], [0, 0]])],
    "island": [("L", [[9, 9], [11, 9], [11, 11], [9, 11], [9, 9]])],
    "tri_in": [("L", [[9, 9], [12, 9], [9, 13], [9, 9]])],
    "stadium": [("L", [[0, 0], [5, 0], [10, 0]]), ("A", [[10, 0], [13, 1], [14, 2], [15, 5], [14, 8], [13, 9], [10, 10]]),
                ("L", [[10, 10], [0, 10]]), ("A", [[0, 10], [-3, 9], [-4, 8], [-5, 5], [-4, 2], [-3, 1], [0, 0]])],
    "half_disc": [("A", [[0, -5], [3, -4], [4, -3], [5, 0], [4, 3], [3, 4], [0, 5]]), ("L", [[0, 5], [0, 0], [0, -5]])],
    "rounded": [("L", [[5, 0], [15, 0]]), ("A", [[15, 0], [18, 1], [19, 2], [20, 5]]), ("L", [[20, 5], [20, 15]]),
                ("A", [[20, 15], [19, 18], [18, 19], [15, 20]]), ("L", [[15, 20], [5, 20]]), ("A", [[5, 20], [2, 19], [1, 18], [0, 15]]),
                ("L", [[0, 15], [0, 5]]), ("A", [[0, 5], [1, 2], [2, 1], [5, 0]])],
    "rounded_hole": [("L", [[8, 8], [12, 8], [12, 12], [8, 12], [8, 8]])],
}
PI = float(np.pi)
# drawing -> (curves, closed form of the smooth region's area)
ARC_DRAWINGS = {
    "circle": (["circle"], 25 * PI),
    "circle_in_frame": (["frame", "circle"], 400 - 25 * PI),
    "frame_circle_island": (["frame", "circle", "island"], 400 - 25 * PI + 4),
    "annulus": (["circle", "small_circle"], 20 * PI),
    "circle_with_triangle": (["circle", "tri_in"], 25 * PI - 6),
    "stadium": (["stadium"], 100 + 25 * PI),
    "half_disc": (["half_disc"], 12.5 * PI),
    "rounded_with_hole": (["rounded", "rounded_hole"], 400 - (100 - 25 * PI) - 16),
    "two_bodies": (["stadium", "circle_b"], 100 + 50 * PI),
}


def skeleton(curve):
    pts = []
    for kind, q in curve:
        pts += q if kind == "O" else q[:-1]
    return pts


def has_arcs(curve):
    return any(kind != "L" for kind, _ in curve)


def _cut_run(n_edges, min_edges, rs, maxpieces):
    """Random cut of a run of n_edges elementary edges into pieces of >= min_edges edges: list of (a, b) node ranges."""
    for _ in range(50):
        k = 1 + rs.randint(min(maxpieces, max(1, n_edges // min_edges)))
        cuts = sorted(rs.permutation(np.arange(1, n_edges))[:k - 1].tolist()) if n_edges > 1 else []
        bounds = [0] + cuts + [n_edges]
        if all(b - a >= min_edges for a, b in zip(bounds[:-1], bounds[1:])):
            return list(zip(bounds[:-1], bounds[1:]))
    return [(0, n_edges)]


def arc_presentation(curve, rs, canonical=False, closed_entity=False):
    """Entities ("L", points) / ("A", [a, mid, b]) / ("C", [a, mid, b]) for one curve."""
    ents = []
    for kind, q in curve:
        if kind == "L":
            runs = [(0, len(q) - 1)] if canonical else _cut_run(len(q) - 1, 1, rs, 3)
            for a, b in runs:
                ents.append(("L", q[a:b + 1]))
        elif kind == "A":
            runs = [(0, len(q) - 1)] if canonical else _cut_run(len(q) - 1, 2, rs, 3)
            for a, b in runs:
                mid = (a + b) // 2 if canonical else a + 1 + rs.randint(b - a - 1)
                ents.append(("A", [q[a], q[mid], q[b]]))
        else:
            n = len(q)
            if closed_entity:
                i, j, k = sorted(rs.permutation(n)[:3].tolist())
                ents.append(("C", [q[i], q[j], q[k]]))
                continue
            if canonical:
                runs, off = [(0, n // 2), (n // 2, n)], 0
            else:
                off = rs.randint(n)
                runs = _cut_run(n, 2, rs, 4)
                if len(runs) == 1:
                    c = 2 + rs.randint(n - 3)
                    runs = [(0, c), (c, n)]
            for a, b in runs:
                mid = (a + b) // 2 if canonical else a + 1 + rs.randint(b - a - 1)
                ents.append(("A", [q[(off + a) % n], q[(off + mid) % n], q[(off + b) % n]]))
    if not canonical:
        ents = [(k, pts[::-1]) if rs.randint(2) else (k, pts) for k, pts in ents]
    return ents


def build_arcs(tm, ents, dup):
    from trimesh.path.entities import Arc, Line
    verts, index, out = [], {}, []

    def vid(pt):
        if dup:
            verts.append(pt)
            return len(verts) - 1
        key = tuple(pt)
        if key not in index:
            index[key] = len(verts)
            verts.append(pt)
        return index[key]
    for kind, pts in ents:
        ids = [vid(q) for q in pts]
        out.append(Line(ids) if kind == "L" else Arc(ids, closed=(kind == "C")))
    return tm.path.Path2D(entities=out, vertices=np.array(verts, dtype=float))


def line_twin(tm, p):
    """The same boundary with every Arc entity replaced by a Line through that arc's own discretisation."""
    from trimesh.path.entities import Line
    scale = p.scale
    verts = [list(v) for v in np.asarray(p.vertices)]
    ents = []
    for e in p.entities:
        if type(e).__name__ == "Arc":
            d = np.asarray(e.discrete(p.vertices, scale=scale))
            ents.append(Line(list(range(len(verts), len(verts) + len(d)))))
            verts += d.tolist()
        else:
            ents.append(Line(e.points.copy()))
    return tm.path.Path2D(entities=ents, vertices=np.array(verts, dtype=float))


def _ring(coords, k):
    a = np.array(coords, dtype=float) * k
    r = np.round(a)
    if np.abs(a - r).max() < 1e-6:
        return r.astype(int).tolist()
    return None


def observe_arcs(p, unscale, canon, kfac):
    k = unscale
    polys, ncurved = [], 0
    closed = p.polygons_closed
    for q in closed:
        r = _ring(q.exterior.coords, k)
        if r is None:
            ncurved += 1
        else:
            polys.append(r)
    full = []
    for q in p.polygons_full:
        ext = _ring(q.exterior.coords, k)
        ints = [_ring(i.coords, k) for i in q.interiors]
        full.append({"curved": ext is None, "ext": ext or [], "ints": [r for r in ints if r is not None],
                     "ncurved": sum(1 for r in ints if r is None)})
    area = float(p.area) * k * k
    length = float(p.length) * k
    want = kfac * canon["len"]
    ppb = (length - want) / want * 1e9
    return {"closed": bool(p.is_closed), "npolys": int(len(closed)), "bodies": int(p.body_count), "polys": polys, "full": full,
            "area_fp": int(round(area * 100)), "len_fp": int(round(length * 1000)),
            "len_ppb": int(np.clip(round(ppb), -10 ** 9, 10 ** 9))}


def arc_canonical(tm, dname):
    names, _ = ARC_DRAWINGS[dname]
    ents = [e for n in names for e in arc_presentation(ARC_CURVES[n], None, canonical=True)]
    p = build_arcs(tm, ents, False)
    return {"area": float(p.area), "len": float(p.length)}


def run_arc_case(tm, job):
    dname, ents, dup, hist, canon = job
    names, smooth = ARC_DRAWINGS[dname]
    rec = {"kind": "arc", "curves": [skeleton(ARC_CURVES[n]) for n in names], "arcs": [has_arcs(ARC_CURVES[n]) for n in names],
           "m": MAPS["none"], "m2": MAPS["none"], "exc": "", "len_tol_ppb": 3,
           "canon": {"area_fp": int(round(canon["area"] * 100)), "len_fp": int(round(canon["len"] * 1000))},
           "smooth_area_fp": int(round(smooth * 100)),
           "desc": {"drawing": dname, "entities": ents, "dup_vertices": dup, "history": hist}}
    try:
        kind = hist[0]
        unscale = 1.0
        kfac = 1.0
        p = build_arcs(tm, ents, dup)
        if kind == "read":
            pass
        elif kind == "twin":
            p = line_twin(tm, p)
            rec["len_tol_ppb"] = 0          # Line entities measure the polygon, Arc entities the circle: not compared
        elif kind == "transform":
            READS[hist[2]](p)
            p.apply_transform(m3(MAPS[hist[1]]))
            rec["m"] = MAPS[hist[1]]
        elif kind == "transform2":
            READS[hist[3]](p)
            p.apply_transform(m3(MAPS[hist[1]]))
            READS[hist[4]](p)
            p.apply_transform(m3(MAPS[hist[2]]))
            rec["m"], rec["m2"] = MAPS[hist[1]], MAPS[hist[2]]
        elif kind == "export":
            READS[hist[2]](p)
            p = roundtrip(tm, p, hist[1])
            if hist[1] != "dict":
                rec["len_tol_ppb"] = 1000   # 12 significant digits of centre / radius / angles
        elif kind == "t_export":
            p.apply_transform(m3(MAPS[hist[1]]))
            p = roundtrip(tm, p, hist[2])
            rec["m"] = MAPS[hist[1]]
            if hist[2] != "dict":
                rec["len_tol_ppb"] = 1000
        elif kind == "mag":
            # a similarity by a power of two (exact in doubles), reported back at lattice size
            READS[hist[2]](p)
            f = 2.0 ** hist[1]
            M = np.eye(3)
            M[0, 0] = M[1, 1] = f
            p.apply_transform(M)
            unscale = 1.0 / f
        L = np.array(rec["m"]["l"], dtype=float) @ np.array(rec["m2"]["l"], dtype=float)
        kfac = float(np.sqrt(abs(np.linalg.det(L))))
        rec["obs"] = observe_arcs(p, unscale, canon, kfac)
    except BaseException as e:  # noqa
        rec["exc"] = type(e).__name__ + ":" + str(e)[:60]
        rec["obs"] = {"closed": False, "npolys": 0, "bodies": 0, "polys": [], "full": [], "area_fp": 0, "len_fp": 0, "len_ppb": 0}
    return rec


def _arc_chunk(jobs):
    tm = import_trimesh()
    return [run_arc_case(tm, j) for j in jobs]


def arc_jobs(tm, tier, rs, V):
    per = 230 if tier == "quick" else 2600
    warm = ["none", "all", "paths", "discrete", "full", "length", "bounds", "closed"]
    hists = [("read",)] * 4 + [("twin",)] * 2
    hists += [("transform", m, w) for m in ("rot90", "mirror", "scale2", "sim", "r345", "r345m", "translate") for w in ("none", "all", "paths", "discrete")]
    hists += [("transform2", m1, m2, r1, r2) for (m1, m2) in (("mirror", "r345"), ("rot90", "scale2"), ("scale2", "mirror"), ("translate", "r345m"))
              for (r1, r2) in (("none", "full"), ("discrete", "none"), ("all", "paths"))]
    hists += [("export", ft, w) for ft in ("dxf", "svg", "dict") for w in ("none", "all", "paths")]
    hists += [("t_export", m, ft) for m in ("mirror", "r345", "scale2") for ft in ("dxf", "svg", "dict")]
    hists += [("mag", e, w) for e in (-20, 10, 40) for w in ("none", "all", "discrete")]
    jobs = []
    for dname, (names, _) in ARC_DRAWINGS.items():
        try:
            canon = arc_canonical(tm, dname)
        except BaseException as e:  # noqa
            V.violation("raised", {"drawing": dname, "presentation": "canonical", "exc": type(e).__name__ + ":" + str(e)[:80]})
            continue
        circles = [n for n in names if ARC_CURVES[n][0][0] == "O"]
        for t in range(per):
            closed_entity = bool(circles) and t % 5 == 0
            ents = [e for n in names for e in arc_presentation(ARC_CURVES[n], rs, closed_entity=closed_entity and ARC_CURVES[n][0][0] == "O")]
            ents = [ents[i] for i in rs.permutation(len(ents))]
            hist = hists[t % len(hists)]
            dup = bool(rs.randint(3) == 0)
            jobs.append((dname, ents, dup, hist, canon))
    return jobs


def family(hist):
    return ":".join(str(x) for x in hist[:2])


def main(argv):
    tier = tier_from_args(argv)
    V = Verdict(PROP, tier)
    tm = import_trimesh()
    rs = np.random.RandomState(seed() + 14)
    jobs = []
    maxp = 3 if tier == "quick" else 4
    cap_curve = 14 if tier == "quick" else 60
    per_drawing = 120 if tier == "quick" else 1500
    hists = [("read",), ("raw",)] + [("transform", m, w) for m in MAPS if m not in ("none", "scale3") for w in ("cold", "warm", "partial")] + \
            [("export", ft, w) for ft in ("dxf", "svg", "dict") for w in ("cold", "warm")] + \
            [("tiny", k, via) for k in (2, 4, 5, 6) for via in ("direct", "dict")] + [("tiny", 4, "dxf")]
    # audit families
    pairs = [("mirror", "r345"), ("r345m", "mirror"), ("scale2", "rot90"), ("rot180", "sim"), ("translate", "r345m"), ("sim", "translate")]
    reads = [r for r in READS if r != "none"]
    hists2 = [("entry", how, w) for how, w in (("segments", ""), ("mls", ""), ("polygon", ""), ("multipolygon", ""), ("concat", ""), ("add", ""), ("explode", "cold"),
                                                ("explode", "warm"), ("copy", "all"), ("copy", "discrete"), ("to3d", ""), ("split", "none"), ("split", "all"))]
    hists2 += [("transform2", m1, reads[(3 * j) % len(reads)], m2, (["none"] + reads)[(5 * j + 1) % (len(reads) + 1)]) for j, (m1, m2) in enumerate(pairs * 3)]
    hists2 += [("via", e, w) for e in ("apply_scale", "apply_translation", "rezero") for w in ("none", "all", "discrete")]
    hists2 += [("rot345", w) for w in ("none", "all", "paths")]
    hists2 += [("t_export", m, ft, w) for m, ft, w in (("r345", "dxf", "none"), ("mirror", "svg", "all"), ("scale2", "dict", "paths"), ("r345m", "svg", "none"),
                                                       ("mirror", "dxf", "discrete"), ("rot90", "dict", "full"))]
    hists2 += [("export_t", ft, m, w) for ft, m, w in (("dxf", "r345", "none"), ("svg", "mirror", "full"), ("dict", "sim", "paths"), ("svg", "r345m", "discrete"))]
    hists2 += [("tiny", -10, "direct"), ("tiny", -10, "dict"), ("tiny", -10, "dxf"), ("tiny", -10, "svg"), ("tiny", -20, "direct"), ("tiny", -20, "dxf"), ("tiny", 4, "svg"), ("tiny", 6, "dxf"), ("tiny", 6, "svg")]
    # single reads before one transform (each derived value alone)
    hists2 += [("transform2", m, r, "none", "none") for m, r in zip(("mirror", "r345", "scale2", "rot90", "r345m", "sim") * 3, reads)]

    def add_jobs(drawings, hist_list, per):
        for names in drawings:
            pres_lists = [presentations(CURVES[n], maxp, rs, cap_curve) for n in names]
            for t in range(per):
                # (seeded choices, not t modulo something: the history cycles with t)
                if rs.randint(7) == 3:
                    pres = [exploded(CURVES[n], rs) for n in names]           # one entity per edge
                else:
                    pres = [pl[rs.randint(len(pl))] for pl in pres_lists]
                npieces = sum(len(p) for p in pres)
                order = list(rs.permutation(npieces)) if rs.randint(4) else list(range(npieces))
                dup = bool(rs.randint(3) == 0)
                hist = hist_list[t % len(hist_list)]
                if hist[0] == "raw" and dup:
                    hist = ("read",)
                jobs.append((names, pres, [int(x) for x in order], dup, hist))
    add_jobs(DRAWINGS, hists, per_drawing)
    add_jobs(DRAWINGS_DEEP, hists, per_drawing // 2)
    add_jobs(DRAWINGS + DRAWINGS_DEEP, hists2, len(hists2) * (2 if tier == "quick" else 12))
    # exhaustive block: the nested pair, every presentation with <= 2 pieces per curve, every order and direction
    names = ["outer", "hole"]
    pl = [presentations(CURVES[n], 2, rs, 10 ** 6) for n in names]
    sub = [pl[0][i] for i in range(0, len(pl[0]), 3)], [pl[1][i] for i in range(0, len(pl[1]), 3 if tier == "quick" else 1)]
    for pa in sub[0]:
        for pb in sub[1]:
            npieces = len(pa) + len(pb)
            for order in itertools.permutations(range(npieces)):
                jobs.append((names, [pa, pb], list(order), False, ("read",)))
    ajobs = arc_jobs(tm, tier, rs, V)
    res = pmap(_chunk, jobs, chunk=100)
    cases = [c for r in res for c in r]
    ares = pmap(_arc_chunk, ajobs, chunk=50)
    cases += [c for r in ares for c in r]
    descs = []
    for k, c in enumerate(cases):
        c["id"] = k
        descs.append(c.pop("desc"))
    if len(cases) < 1000:
        raise MachineryError("too few cases")
    rejects, states, wall = tlc.validate_batches("c14", "Regions", cases, CFG, timeout=1500)
    for cid, clause in sorted(rejects.items()):
        obs = cases[cid]["obs"]
        if clause == "raised":
            clause = "raised:" + cases[cid]["exc"].split(":")[0] + (":arc_drawing" if cases[cid]["kind"] == "arc" else "")
        V.violation(clause, dict(descs[cid], exc=cases[cid]["exc"],
                                 observed={k: obs[k] for k in ("closed", "area2", "length", "bodies", "npolys", "area_fp", "len_fp", "len_ppb") if k in obs}))
    n_arc, arc_fails = arc_cases(tm, tier, rs)
    for f in arc_fails:
        V.violation(f["clause"], f)
    byh, bya, byd = {}, {}, {}
    for d, c in zip(descs, cases):
        key = family(d["history"])
        tgt = bya if c["kind"] == "arc" else byh
        tgt[key] = tgt.get(key, 0) + 1
        dk = d["drawing"] if isinstance(d["drawing"], str) else "+".join(d["drawing"])
        byd[dk] = byd.get(dk, 0) + 1
    # coverage guards: every family of the enumeration really produced records
    need_poly = ["read", "raw", "transform:r345", "transform:mirror", "export:svg", "tiny:2", "tiny:-10", "tiny:-20", "entry:segments", "entry:mls", "entry:polygon", "entry:multipolygon",
                 "entry:concat", "entry:add", "entry:explode", "entry:copy", "entry:to3d", "entry:split", "transform2:mirror", "transform2:r345", "via:apply_scale",
                 "via:rezero", "rot345:none", "rot345:all", "t_export:r345", "export_t:dxf", "export_t:svg"]
    need_arc = ["read", "twin", "transform:mirror", "transform:r345", "transform2:mirror", "export:dxf", "export:svg", "export:dict",
                "t_export:r345", "mag:-20", "mag:10", "mag:40"]
    for key in need_poly:
        if byh.get(key, 0) < 5:
            raise MachineryError("family %s of the polygonal enumeration came out nearly empty (%d)" % (key, byh.get(key, 0)))
    for key in need_arc:
        if bya.get(key, 0) < 5:
            raise MachineryError("family %s of the arc enumeration came out nearly empty (%d)" % (key, bya.get(key, 0)))
    n_arc_rec = sum(bya.values())
    if n_arc_rec < 1500 or len([d for d in byd if d in ARC_DRAWINGS]) < len(ARC_DRAWINGS):
        raise MachineryError("arc records: %d over %d drawings" % (n_arc_rec, len([d for d in byd if d in ARC_DRAWINGS])))
    n_closed_entity = sum(1 for d in descs if "entities" in d and any(k == "C" for k, _ in d["entities"]))
    n_exploded = sum(1 for d in descs if "pieces" in d and all(len(pc) == 2 for pr in d["pieces"] for pc in pr) and sum(len(pr) for pr in d["pieces"]) > 3)
    if n_closed_entity < 50 or n_exploded < 50:
        raise MachineryError("closed-circle entities %d, fully exploded presentations %d" % (n_closed_entity, n_exploded))
    # observation kept out of the verdict: an Arc entity reports twice the analytic arc length on this tree, a Line
    # through the same discretisation reports the polygon's perimeter (the statement promises exact lengths for
    # polygonal input and invariance otherwise)
    try:
        hd = build_arcs(tm, [e for e in arc_presentation(ARC_CURVES["half_disc"], None, canonical=True)], False)
        ratio = round(float(hd.length) / float(line_twin(tm, hd).length), 4)
    except BaseException as e:  # noqa
        ratio = "raised " + type(e).__name__
    cov = {"states": states, "transitions": states, "traces_validated_against_impl": len(cases),
           "drawings": len(DRAWINGS) + len(DRAWINGS_DEEP), "arc_drawings": len(ARC_DRAWINGS), "cases_per_history": byh, "arc_records_per_history": bya,
           "records_per_drawing": byd, "arc_records": n_arc_rec, "closed_circle_entity_presentations": n_closed_entity,
           "fully_exploded_presentations": n_exploded, "arc_presentations_compared": n_arc, "rejected": len(rejects),
           "half_disc_length_as_arc_over_length_as_polyline": ratio,
           "tlc_wall_s": round(wall, 1), "samples": [descs[len(descs) // 3], descs[-1]]}
    return V.finish("model_checking", cov, assumptions=[
        "polygonal drawings on the integer lattice (rectilinear and 3-4-5 families, so lengths are integers); similarity maps with integer matrices (a rational rotation is reported at 5 times its size)",
        "frames chosen by the library (to_2D of a lifted path) are compared on counts, nesting hole counts, area and length only",
        "arc drawings: nesting from lattice skeletons, polygonal curves exactly, area within 2e-3 of the canonical presentation scaled by the map, length at 3e-9 (1e-6 through dxf / svg); a Line presentation of an arc boundary is not compared on length",
    ])


if __name__ == "__main__":
    try:
        sys.exit(main(sys.argv[1:]))
    except MachineryError as e:
        print("MACHINERY-ERROR:", e)
        sys.exit(2)
