"""C14 - paths rebuild the same regions from segments in any order.

Reference: spec/Regions.tla (polygon identity as undirected edge sets, exact even-odd
containment, nesting depth, shells and holes, shoelace area with holes, integer perimeter;
covariance under integer similarity maps).
The harness enumerates drawings (disjoint / nested rectangles, rectilinear and 3-4-5 polygons)
and their presentations - every split of each curve into polylines at its vertices, every
direction assignment, listing orders (all for few pieces, seeded samples beyond), shared or
duplicated vertices - builds the real Path2D, runs a history (read; or read*, apply_transform
of a similarity class, read*; or export to dxf / svg / dict and load_path) and records
is_closed, polygons_closed, polygons_full, area, length, body_count as integers; TLC judges
every record against the drawing alone.  Drawings with arcs (lattice circle of radius 5 as
three-point arcs) have irrational measures: there every presentation must agree with the
canonical presentation of the same drawing (length at 1e-9, area within the discretisation
granularity 1e-3), with polygon counts and nesting judged exactly.
"""
import itertools
import io
import sys

import numpy as np

from harness import tlc
from harness.common import (MachineryError, Verdict, import_trimesh, pmap, seed,
                            tier_from_args)

PROP = "C14"
CFG = "INIT Init\nNEXT Next\nINVARIANT Report\nINVARIANT RefSane\nCHECK_DEADLOCK FALSE\n"


def rect(x0, y0, x1, y1):
    return [[x0, y0], [x1, y0], [x1, y1], [x0, y1]]


CURVES = {
    "outer": rect(0, 0, 12, 12),
    "hole": rect(2, 2, 8, 8),
    "island": rect(3, 3, 5, 5),
    "hole2": rect(9, 2, 11, 6),
    "apart": rect(14, 0, 18, 4),
    "ell": [[20, 0], [26, 0], [26, 2], [22, 2], [22, 6], [20, 6]],
    "tri345": [[30, 0], [33, 0], [30, 4]],
    "tri345_big": [[14, 6], [20, 6], [14, 14]],
    "split_side": [[0, 20], [4, 20], [8, 20], [8, 24], [0, 24]],          # a side with a collinear vertex
}
DRAWINGS = [["outer"], ["outer", "hole"], ["outer", "hole", "island"], ["outer", "apart"], ["outer", "hole", "hole2"],
            ["ell"], ["tri345", "apart"], ["outer", "hole", "island", "apart"], ["split_side"], ["tri345_big", "outer"]]

MAPS = {
    "none": {"l": [[1, 0], [0, 1]], "t": [0, 0]},
    "rot90": {"l": [[0, -1], [1, 0]], "t": [3, -2]},
    "rot180": {"l": [[-1, 0], [0, -1]], "t": [0, 7]},
    "scale2": {"l": [[2, 0], [0, 2]], "t": [-5, 1]},
    "mirror": {"l": [[-1, 0], [0, 1]], "t": [40, 0]},
    "translate": {"l": [[1, 0], [0, 1]], "t": [7, 11]},
    "sim": {"l": [[0, 3], [-3, 0]], "t": [1, 1]},
}


def m3(m):
    M = np.eye(3)
    M[:2, :2] = m["l"]
    M[:2, 2] = m["t"]
    return M


def presentations(curve, maxpieces, rs, cap):
    """All ways to cut a closed vertex cycle into <= maxpieces polylines at vertices, with directions."""
    n = len(curve)
    out = []
    for k in range(1, min(maxpieces, n) + 1):
        for cuts in itertools.combinations(range(n), k):
            pieces = []
            for a, b in zip(cuts, cuts[1:] + (cuts[0] + n,)):
                idx = [j % n for j in range(a, b + 1)]
                if k == 1:
                    idx = [j % n for j in range(a, a + n + 1)]
                pieces.append(idx)
            for dirs in itertools.product((False, True), repeat=k):
                out.append([p[::-1] if d else p for p, d in zip(pieces, dirs)])
    if len(out) > cap:
        sel = rs.permutation(len(out))[:cap]
        out = [out[i] for i in sorted(sel)]
    return out


def snap(x, what):
    a = np.asarray(x, dtype=float)
    r = np.round(a)
    if a.size and np.abs(a - r).max() > 1e-6:
        raise ValueError("offlattice:" + what)
    return r.astype(int).tolist()


def observe(p, loose=False, unscale=1.0):
    """unscale: the drawing was built at 1/unscale of its lattice size; report it back at lattice size
    (similarity covariance: lengths scale by s, areas by s^2)."""
    full = []
    k = unscale
    for poly in p.polygons_full:
        full.append({"ext": snap(np.array(poly.exterior.coords) * k, "ext"), "ints": [snap(np.array(i.coords) * k, "int") for i in poly.interiors]})
    return {"den": 1, "closed": bool(p.is_closed), "polys": [snap(np.array(q.exterior.coords) * k, "poly") for q in p.polygons_closed],
            "full": full, "area2": snap(float(p.area) * 2 * k * k, "area"), "length": snap(float(p.length) * k, "length"),
            "bodies": int(p.body_count)}


def build(tm, names, pres, order, dup_vertices, process, shrink=1.0):
    from trimesh.path.entities import Line
    verts = []
    ents = []
    base = {}
    for n in names:
        base[n] = len(verts)
        verts += CURVES[n]
    if dup_vertices:
        # every piece gets private copies of its vertices (merged again by process=True)
        verts = []
    pieces = []
    for n, pr in zip(names, pres):
        for piece in pr:
            pieces.append((n, piece))
    pieces = [pieces[i] for i in order]
    for n, piece in pieces:
        if dup_vertices:
            start = len(verts)
            verts += [CURVES[n][j] for j in piece]
            ents.append(Line(list(range(start, start + len(piece)))))
        else:
            ents.append(Line([base[n] + j for j in piece]))
    return tm.path.Path2D(entities=ents, vertices=np.array(verts, dtype=float) * shrink, process=process)


def run_case(tm, job):
    names, pres, order, dup, hist = job
    rec = {"curves": [CURVES[n] for n in names], "m": MAPS["none"], "loose": False, "exc": "",
           "desc": {"drawing": names, "pieces": pres, "order": list(order), "dup_vertices": dup, "history": hist}}
    try:
        kind = hist[0]
        unscale = 1.0
        if kind == "tiny":
            # the same drawing at 10^-k of its size: rebuilt from segments, and through dict / dxf
            unscale = 10.0 ** hist[1]
            p = build(tm, names, pres, order, dup, True, shrink=1.0 / unscale)
            if hist[2] == "dict":
                p = tm.load_path(p.export(file_type="dict"))
            elif hist[2] == "dxf":
                data = p.export(file_type="dxf")
                p = tm.load_path(io.BytesIO(data.encode() if isinstance(data, str) else data), file_type="dxf")
        else:
            p = build(tm, names, pres, order, dup, True if dup else (hist[0] != "raw"))
        if kind in ("read", "raw", "tiny"):
            pass
        elif kind == "transform":
            if hist[2] == "warm":
                p.paths, p.polygons_full, p.area, p.length, p.bounds, p.is_closed
            elif hist[2] == "partial":
                p.polygons_closed, p.length
            p.apply_transform(m3(MAPS[hist[1]]))
            rec["m"] = MAPS[hist[1]]
        elif kind == "export":
            ft = hist[1]
            if hist[2] == "warm":
                p.polygons_full, p.area
            data = p.export(file_type=ft)
            if ft == "dict":
                p = tm.load_path(data)
            else:
                raw = data.encode() if isinstance(data, str) else data
                p = tm.load_path(io.BytesIO(raw), file_type=ft)
            rec["loose"] = ft == "svg"
        rec["obs"] = observe(p, unscale=unscale)
    except BaseException as e:  # noqa
        rec["exc"] = type(e).__name__ + ":" + str(e)[:60]
        rec["obs"] = {"den": 1, "closed": False, "polys": [], "full": [], "area2": 0, "length": 0, "bodies": 0}
    return rec


def _chunk(jobs):
    tm = import_trimesh()
    return [run_case(tm, j) for j in jobs]


# ------------------------------------------------------------------ arcs: relation to the canonical presentation
CIRC = [(5, 0), (4, 3), (3, 4), (0, 5), (-3, 4), (-4, 3), (-5, 0), (-4, -3), (-3, -4), (0, -5), (3, -4), (4, -3)]


def arc_cases(tm, tier, rs):
    from trimesh.path.entities import Arc, Line
    fails = []
    n = 0

    def build_circle(starts, dirs, order, with_square, ctrl=1):
        verts = [[x + 10, y + 10] for x, y in CIRC]
        ents = []
        k = len(starts)
        for j, (a, b, d) in enumerate(zip(starts, starts[1:] + [starts[0] + 12], dirs)):
            # control point: near the start, in the middle or near the end of the arc
            mid = [a + 1, (a + b) // 2, b - 1][(ctrl + j) % 3]
            tri = [a % 12, mid % 12, b % 12]
            ents.append(Arc(tri[::-1] if d else tri))
        if with_square:
            base = len(verts)
            verts += [[0, 0], [20, 0], [20, 20], [0, 20]]
            ents.append(Line([base, base + 1, base + 2, base + 3, base]))
        ents = [ents[i] for i in order]
        return tm.path.Path2D(entities=ents, vertices=np.array(verts, dtype=float))
    for with_square in (False, True):
        ref = None
        for starts in ([0, 6], [0, 4, 8], [0, 2, 6], [0, 2, 4, 8], [2, 6, 10], [0, 4, 6, 10], [0, 8], [0, 3], [1, 10], [0, 8, 10]):
            k = len(starts)
            ne = k + (1 if with_square else 0)
            orders = list(itertools.permutations(range(ne)))
            if len(orders) > 6:
                orders = [orders[i] for i in rs.permutation(len(orders))[:6]]
            for dirs in itertools.product((False, True), repeat=k):
                for order in orders:
                  for ctrl in (0, 1, 2):
                    p = build_circle(starts, list(dirs), list(order), with_square, ctrl)
                    n += 1
                    val = (bool(p.is_closed), int(p.body_count), len(p.polygons_closed), len(p.polygons_full),
                           [len(q.interiors) for q in p.polygons_full])
                    num = (float(p.area), float(p.length))
                    if ref is None:
                        ref = (val, num)
                        # sanity of the canonical presentation against the smooth circle (discretisation is fine)
                        want_area = (400 - np.pi * 25) if with_square else np.pi * 25
                        if abs(num[0] - want_area) > 0.5:
                            fails.append({"clause": "arc_area_far_from_circle", "got": num[0], "want": want_area})
                        continue
                    if val != ref[0]:
                        fails.append({"clause": "arc_regions_depend_on_presentation", "starts": starts, "dirs": list(dirs), "order": list(order), "got": val, "canonical": ref[0]})
                    # length of an arc is analytic (independent of the split); area is that of the
                    # discretised polygon, whose resolution depends on how the circle was split: equal
                    # only up to the discretisation granularity (1e-3 relative)
                    elif abs(num[0] - ref[1][0]) > 1e-3 * abs(ref[1][0]) or abs(num[1] - ref[1][1]) > 1e-9 * 100:
                        fails.append({"clause": "arc_measures_depend_on_presentation", "starts": starts, "dirs": list(dirs), "order": list(order),
                                      "got": num, "canonical": ref[1]})
    return n, fails


def main(argv):
    tier = tier_from_args(argv)
    V = Verdict(PROP, tier)
    tm = import_trimesh()
    rs = np.random.RandomState(seed() + 14)
    jobs = []
    maxp = 3 if tier == "quick" else 4
    cap_curve = 14 if tier == "quick" else 60
    per_drawing = 120 if tier == "quick" else 1500
    hists = [("read",), ("raw",)] + [("transform", m, w) for m in MAPS if m != "none" for w in ("cold", "warm", "partial")] + \
            [("export", ft, w) for ft in ("dxf", "svg", "dict") for w in ("cold", "warm")] + \
            [("tiny", k, via) for k in (2, 4, 5, 6) for via in ("direct", "dict")] + [("tiny", 4, "dxf")]
    for names in DRAWINGS:
        pres_lists = [presentations(CURVES[n], maxp, rs, cap_curve) for n in names]
        combos = 1
        for pl in pres_lists:
            combos *= len(pl)
        for t in range(per_drawing):
            pres = [pl[rs.randint(len(pl))] for pl in pres_lists]
            npieces = sum(len(p) for p in pres)
            order = list(rs.permutation(npieces)) if t % 4 else list(range(npieces))
            dup = bool(t % 3 == 0)
            hist = hists[t % len(hists)]
            if hist[0] == "raw" and dup:
                hist = ("read",)
            jobs.append((names, pres, [int(x) for x in order], dup, hist))
    # exhaustive block: the nested pair, every presentation with <= 2 pieces per curve, every order and direction
    names = ["outer", "hole"]
    pl = [presentations(CURVES[n], 2, rs, 10 ** 6) for n in names]
    sub = [pl[0][i] for i in range(0, len(pl[0]), 3)], [pl[1][i] for i in range(0, len(pl[1]), 3 if tier == "quick" else 1)]
    for pa in sub[0]:
        for pb in sub[1]:
            npieces = len(pa) + len(pb)
            for order in itertools.permutations(range(npieces)):
                jobs.append((names, [pa, pb], list(order), False, ("read",)))
    res = pmap(_chunk, jobs, chunk=100)
    cases = [c for r in res for c in r]
    descs = []
    for k, c in enumerate(cases):
        c["id"] = k
        descs.append(c.pop("desc"))
    if len(cases) < 1000:
        raise MachineryError("too few cases")
    rejects, states, wall = tlc.validate_batches("c14", "Regions", cases, CFG, timeout=1500)
    for cid, clause in sorted(rejects.items()):
        V.violation(clause, dict(descs[cid], exc=cases[cid]["exc"], observed={k: cases[cid]["obs"][k] for k in ("closed", "area2", "length", "bodies")}))
    n_arc, arc_fails = arc_cases(tm, tier, rs)
    for f in arc_fails:
        V.violation(f["clause"], f)
    byh = {}
    for d in descs:
        key = ":".join(str(x) for x in d["history"][:2])
        byh[key] = byh.get(key, 0) + 1
    cov = {"states": states, "transitions": states, "traces_validated_against_impl": len(cases),
           "drawings": len(DRAWINGS), "cases_per_history": byh, "arc_presentations_compared": n_arc, "rejected": len(rejects),
           "tlc_wall_s": round(wall, 1), "samples": [descs[len(descs) // 3], descs[-1]]}
    return V.finish("model_checking", cov, assumptions=[
        "polygonal drawings on the integer lattice (rectilinear and 3-4-5 families, so lengths are integers); similarity maps with integer matrices",
        "svg round trips are compared on counts, nesting hole counts, area and length only (the format may re-frame coordinates)",
        "arc drawings: equality with the canonical presentation of the same drawing at 1e-9 relative",
    ])


if __name__ == "__main__":
    try:
        sys.exit(main(sys.argv[1:]))
    except MachineryError as e:
        print("MACHINERY-ERROR:", e)
        sys.exit(2)
