"""X04 - path entity / vertex bookkeeping: re-indexing never changes the drawing.

Component: trimesh/path/path.py (Path.remove_entities, remove_invalid, remove_duplicate_entities,
remove_unreferenced_vertices, merge_vertices, replace_vertex_references, process, explode, copy,
apply_transform, the cached readers referenced_vertices / bounds / length / is_closed),
trimesh/path/entities.py (Line / Arc: points, end_points, closed, nodes, is_valid, reverse,
explode, length, bounds) and trimesh/path/util.py (concatenate, Path.__add__).

spec -> code: TLC model-checks spec/PathEdit.tla (implementation-shaped model with the hash-keyed
cache, property-level drawing / readers, ghost `want` drawing), runs the spec self-tests (every
deviation / mutant switch must make TLC report its invariant) and emits behaviours (every history to
a depth, simulated long ones).  Each behaviour is replayed into real Path2D / Path3D objects; after
every step the projected real state is compared with the state TLC computed: the drawing, the index
range, the data attached to every surviving entity, every value read - all expected values are
emitted by TLC.  Vertex order and entity order are compared up to a bijection (ghost ids on the
entity objects), because neither is part of a contract.

The deviations of the tree under test from the intended behaviour (Dev.. constants of the module)
are observed by four small probes and switched on in the emitting model, so that the replay follows
the code after a deviation; an observation that contradicts the INTENDED value is a VIOLATION in
either case (attributed to the deviation id when the as-built model predicts it exactly).
"""
import json
import math
import os
import sys
import time
from concurrent.futures import ThreadPoolExecutor

import numpy as np

from harness import tlc
from harness.common import (MachineryError, Verdict, import_trimesh, pmap, seed,
                            tier_from_args)

PROP = "X04"

CFG = """CONSTANTS
  MaxDepth = {depth}
  Starts <- {starts}
  Ops <- {ops}
  DevArcLen2 = {d1}
  DevExplodeDropsColor = {d2}
  DevEmptyRaises = {d3}
  DevLoopRevNotDup = {d4}
  MutStaleRemove = {m1}
  MutTransformKeepsBounds = {m2}
  MutUnrefNoRemap = {m3}
  MutDedupeEnds = {m4}
SPECIFICATION Spec
{view}
{invs}
CHECK_DEADLOCK FALSE
"""
ALL_INVS = ["IndexInRange", "DrawingIsWanted", "DataAttached", "ReadIsCurrent", "DedupeComplete",
            "NoRaise", "CacheCoherent"]
DEV_IDS = {"d1": "ArcLengthDoubled", "d2": "ExplodeDropsColor", "d3": "EmptyPathScaleRaises",
           "d4": "ClosedLoopReverseNotDuplicate"}


def cfg(depth=2, starts="AllStarts", ops="OpsAll", flags=(), view=True, invs=()):
    b = lambda n: "TRUE" if n in flags else "FALSE"
    return CFG.format(depth=depth, starts=starts, ops=ops, d1=b("d1"), d2=b("d2"), d3=b("d3"),
                      d4=b("d4"), m1=b("m1"), m2=b("m2"), m3=b("m3"), m4=b("m4"),
                      view="VIEW View" if view else "",
                      invs="\n".join("INVARIANT " + i for i in invs))


# ------------------------------------------------------------------ presentation of a drawing
PALETTE = {1: [255, 0, 0, 255], 2: [0, 0, 255, 255]}
EMBED = ("2d", "xyc", "cxy")
CONST = {"xyc": 1.0, "cxy": -2.0}
UID = "_x04_uid"


def seq(x):
    """TLC's Json module prints an empty sequence / function as {} or []"""
    return [] if x in ({}, None) else x


def embed(p, emb, jit=0.0):
    x, y = float(p[0]) + jit, float(p[1])
    if emb == "2d":
        return [x, y]
    if emb == "xyc":
        return [x, y, CONST[emb]]
    return [CONST[emb], x, y]


def plane_axes(emb):
    return (0, 1) if emb in ("2d", "xyc") else (1, 2)


def matrix(g, emb):
    a, b, c, d, tx, ty = g
    n = 3 if emb == "2d" else 4
    M = np.eye(n)
    i, j = plane_axes(emb)
    M[i, i], M[i, j], M[j, i], M[j, j] = a, b, c, d
    M[i, n - 1], M[j, n - 1] = tx, ty
    return M


def snap(x):
    r = round(float(x))
    return int(r) if abs(float(x) - r) < 1e-7 else None


class Real:
    """One real path with the bookkeeping the replay needs."""

    def __init__(self, path, emb):
        self.path = path
        self.emb = emb
        self.m2r = {}          # model vertex index (1-based) -> real vertex index (0-based)


def build(trimesh, snapshot, emb, variant):
    from trimesh.path import Path2D, Path3D
    from trimesh.path.entities import Arc, Line
    verts = []
    for i, p in enumerate(seq(snapshot["v"])):
        # near-duplicate vertices: a tiny offset far below the merge tolerance
        verts.append(embed(p, emb, jit=((i * 7 + variant) % 3) * 2e-12))
    ents = []
    for e in seq(snapshot["e"]):
        pts = [q - 1 for q in e["p"]]
        kw = {"layer": e["l"], "metadata": {"tag": e["o"]}}
        if e["c"]:
            kw["color"] = list(PALETTE[e["c"]])
        if e["k"] == "A":
            if e["cl"]:
                kw["closed"] = True
            ent = Arc(pts, **kw)
        else:
            ent = Line(pts, **kw)
        setattr(ent, UID, e["u"])
        ents.append(ent)
    cls = Path2D if emb == "2d" else Path3D
    dim = 2 if emb == "2d" else 3
    path = cls(entities=ents, vertices=np.array(verts, dtype=np.float64).reshape((-1, dim)), process=False)
    R = Real(path, emb)
    R.m2r = {i + 1: i for i in range(len(verts))}
    return R


# ------------------------------------------------------------------ projection real -> abstract
def seg_of(a, b):
    return ("L", a, a, b, False) if a < b else ("L", b, b, a, False)


def project(R):
    """Abstract state of a real path: lattice vertices, entity records, drawing, sanity flags."""
    path, emb = R.path, R.emb
    V = np.asarray(path.vertices, dtype=np.float64)
    i, j = plane_axes(emb)
    verts, lattice_ok = [], True
    if V.ndim == 2:
        for row in V:
            x, y = snap(row[i]), snap(row[j])
            ok = x is not None and y is not None
            if emb != "2d":
                k = ({0, 1, 2} - {i, j}).pop()
                ok = ok and abs(row[k] - CONST[emb]) < 1e-9
            lattice_ok = lattice_ok and ok
            verts.append((x, y) if ok else None)
    n = len(verts)
    ents, range_ok, dr = [], True, set()
    for e in path.entities:
        kind = {"Line": "L", "Arc": "A"}.get(type(e).__name__, "?")
        pts = [int(q) for q in np.asarray(e.points).reshape(-1)]
        inr = all(0 <= q < n for q in pts)
        range_ok = range_ok and inr
        col = getattr(e, "color", None)
        if col is None:
            c = 0
        else:
            cl = [int(q) for q in np.asarray(col).reshape(-1)]
            c = next((k for k, v in PALETTE.items() if v == cl), -1)
        closed_flag = bool(getattr(e, "_closed", False)) if kind == "A" else False
        ents.append({"k": kind, "p": pts, "l": e.layer, "c": c, "cl": closed_flag,
                     "u": getattr(e, UID, None), "tag": e.metadata.get("tag")})
        if inr and all(verts[q] is not None for q in pts):
            if kind == "A" and len(pts) == 3:
                a, m, b = verts[pts[0]], verts[pts[1]], verts[pts[2]]
                dr.add(("A", b, m, a, closed_flag) if b < a else ("A", a, m, b, closed_flag))
            elif kind == "L":
                for s, t in zip(pts[:-1], pts[1:]):
                    if verts[s] != verts[t]:
                        dr.add(seg_of(verts[s], verts[t]))
    # path.layers / path.colors aligned with the entities
    layers_ok = list(path.layers) == [e["l"] for e in ents]
    pc = path.colors
    if pc is None:
        colors_ok = all(e["c"] == 0 for e in ents)
    else:
        colors_ok = len(pc) == len(ents) and any(e["c"] != 0 for e in ents) and all(
            e["c"] == 0 or [int(q) for q in pc[k]] == PALETTE.get(e["c"]) for k, e in enumerate(ents))
    return {"v": verts, "e": ents, "range_ok": range_ok, "lattice_ok": lattice_ok, "dr": dr,
            "layers_ok": layers_ok, "colors_ok": colors_ok}


def fingerprint(R):
    """Everything of a path that must not move when the OTHER path is edited (exact, order included)."""
    p = R.path
    return (np.asarray(p.vertices, dtype=np.float64).tobytes(), np.shape(p.vertices),
            tuple((type(e).__name__, np.asarray(e.points).tobytes(), e.layer,
                   None if getattr(e, "color", None) is None else tuple(np.asarray(e.color).reshape(-1).tolist()),
                   bool(getattr(e, "_closed", False)), getattr(e, UID, None), e.metadata.get("tag"))
                  for e in p.entities))


def model_draw(S):
    out = set()
    for t, a, m, b, cl in seq(S["dr"]):
        out.add((t, tuple(a), tuple(m), tuple(b), bool(cl)))
    return out


STRICT_SURVIVORS = {"init", "remove", "remove_invalid", "unref", "replace", "reindex", "flip", "reverse",
                    "explode", "explode_all", "transform", "copy", "swap", "read"}


def prop_check(P, S, op, classes=None, exploded=()):
    """Property-level comparison of a projected real path with a model snapshot -> (clause, detail) or None."""
    if not P["range_ok"]:
        return "IndexInRange", {"entities": [e["p"] for e in P["e"]], "n_vertices": len(P["v"])}
    if not P["lattice_ok"]:
        return "DrawingIsWanted", {"what": "a vertex left the lattice / its plane", "vertices": P["v"]}
    want = model_draw(S)
    if P["dr"] != want:
        return "DrawingIsWanted", {"missing": sorted(want - P["dr"]), "extra": sorted(P["dr"] - want)}
    if not P["layers_ok"] or not P["colors_ok"]:
        return "DataAttached", {"what": "path.layers / path.colors not aligned with the entities",
                                "layers_ok": P["layers_ok"], "colors_ok": P["colors_ok"]}
    model = {e["u"]: e for e in seq(S["e"])}
    uids = [e["u"] for e in P["e"]]
    for e in P["e"]:
        m = model.get(e["u"])
        if m is not None and (e["l"], e["c"]) != (m["l"], m["c"]):
            return "DataAttached", {"uid": e["u"], "got": [e["l"], e["c"]], "want": [m["l"], m["c"]]}
        if m is not None and e["u"] not in exploded and e["tag"] != m["o"]:
            return "DataAttached", {"uid": e["u"], "what": "entity metadata lost", "got": e["tag"], "want": m["o"]}
    if op in STRICT_SURVIVORS:
        if sorted(map(str, uids)) != sorted(map(str, model)):
            return "Survivors", {"got": uids, "want": sorted(model)}
    if classes:
        for cl in classes:
            n = sum(1 for u in uids if u in cl)
            if n != 1:
                return "OneRepresentativePerDuplicateClass", {"class": sorted(cl), "survivors": n, "got": uids}
    return None


def struct_match(P, S):
    """Full structural comparison up to a vertex bijection -> (ok, why, m2r)."""
    if not P["range_ok"] or not P["lattice_ok"]:
        return False, "index out of range / vertex off the lattice", None
    mv = [tuple(p) for p in seq(S["v"])]
    me = seq(S["e"])
    model = {e["u"]: e for e in me}
    real = {}
    for e in P["e"]:
        if e["u"] is None or e["u"] in real:
            return False, "ghost id missing or repeated", None
        real[e["u"]] = e
    if set(real) != set(model):
        return False, "entities %s vs model %s" % (sorted(real), sorted(model)), None
    if len(P["v"]) != len(mv):
        return False, "vertex count %d vs model %d" % (len(P["v"]), len(mv)), None
    m2r, r2m = {}, {}
    for e in me:                                    # model order
        r = real[e["u"]]
        if (r["k"], r["cl"], r["l"], r["c"]) != (e["k"], bool(e["cl"]), e["l"], e["c"]) or len(r["p"]) != len(e["p"]):
            return False, "entity %s differs" % e["u"], None
        for mi, ri in zip(e["p"], r["p"]):
            if m2r.setdefault(mi, ri) != ri or r2m.setdefault(ri, mi) != mi:
                return False, "no vertex bijection at entity %s" % e["u"], None
    free = [k for k in range(len(P["v"])) if k not in r2m]
    for mi in range(1, len(mv) + 1):
        if mi in m2r:
            continue
        k = next((k for k in free if P["v"][k] == mv[mi - 1]), None)
        if k is None:
            return False, "unreferenced vertex %s not found" % (mv[mi - 1],), None
        free.remove(k)
        m2r[mi] = k
    for mi, ri in m2r.items():
        if P["v"][ri] != mv[mi - 1]:
            return False, "vertex %d at %s, model %s" % (mi, P["v"][ri], mv[mi - 1]), None
    return True, "", m2r


# ------------------------------------------------------------------ readers
def length_value(L):
    return L["a"] + L["b"] * math.pi + sum(math.sqrt(q) for q in seq(L["r"]))


def read_real(R, k):
    """-> (value, exception name)"""
    p = R.path
    try:
        if k == "length":
            return float(p.length), None
        if k == "bounds":
            return np.array(p.bounds, dtype=np.float64), None
        if k == "refd":
            return [int(q) for q in p.referenced_vertices], None
        if k == "vg":
            return bool(p.is_closed), None
    except BaseException as e:  # noqa
        return None, type(e).__name__ + ": " + str(e)[:80]
    raise MachineryError("unknown reader " + k)


def read_ok(R, k, got, exc, exp, arc, stale=False):
    """Does the value returned by the real reader equal the model's value `exp`?"""
    if k == "bounds" and len(seq(exp)) == 0:
        return True                      # bounds of an empty drawing: left unconstrained
    if exc is not None:
        return False
    if k == "length":
        want = length_value(exp)
        return abs(got - want) <= 1e-9 * (1.0 + want)
    if k == "vg":
        return got == bool(exp)
    if k == "refd":
        if stale:
            # attributing a value kept from an earlier state: its indices belong to an earlier vertex array,
            # which the current bijection cannot translate; same number of indices
            return len(got) == len(seq(exp))
        return sorted(got) == sorted(R.m2r[q] for q in seq(exp)) and len(set(got)) == len(got)
    if k == "bounds":
        i, j = plane_axes(R.emb)
        if got.shape != (2, 2 if R.emb == "2d" else 3):
            return False
        lo = (got[0][i], got[0][j])
        hi = (got[1][i], got[1][j])
        if R.emb != "2d":
            kk = ({0, 1, 2} - {i, j}).pop()
            if abs(got[0][kk] - CONST[R.emb]) > 1e-9 or abs(got[1][kk] - CONST[R.emb]) > 1e-9:
                return False
        # a discretised arc may stay inside its true box by the sagitta of one facet; never outside
        slack = 5e-3 if arc else 1e-9
        return (all(-1e-9 <= lo[q] - exp[q] <= slack for q in (0, 1))
                and all(-1e-9 <= exp[2 + q] - hi[q] <= slack for q in (0, 1)))
    raise MachineryError("unknown reader " + k)


def show(v):
    return v.tolist() if isinstance(v, np.ndarray) else v


# ------------------------------------------------------------------ replay of one behaviour
class Stop(Exception):
    pass


def replay_one(trimesh, beh, variant):
    """Replay one TLC behaviour.  Returns dict(viol=[...], drift=.., obsolete=.., steps=.., reads=..)."""
    from trimesh.path.util import concatenate
    out = {"viol": [], "drift": None, "obsolete": None, "steps": 0, "reads": 0}
    h = beh["h"]
    emb = EMBED[variant % 3]
    cur = build(trimesh, h[0]["st"], emb, variant)
    P = project(cur)
    ok, why, _ = struct_match(P, h[0]["st"])
    if not ok or prop_check(P, h[0]["st"], "init") is not None:
        raise MachineryError("harness cannot present the start drawing: %s %s" % (why, prop_check(P, h[0]["st"], "init")))
    stash, stash_proj = None, None
    if not h[0]["sst"].get("none"):
        stash = build(trimesh, h[0]["sst"], emb, variant + 1)
        stash_proj = fingerprint(stash)
        if not struct_match(project(stash), h[0]["sst"])[0]:
            raise MachineryError("harness cannot present the second start drawing")
    prev = h[0]["st"]                 # model state (as built) before the step
    exploded = set()                  # ghost ids of entities created by explode (metadata is not demanded there)

    def viol(clause, detail, step, dev=None):
        out["viol"].append({"clause": clause, "step": step, "op": h[step]["op"] if step < len(h) else "sweep",
                            "detail": detail, "deviation": dev,
                            "history": [{k: v for k, v in s.items() if k not in ("st", "ist", "sst", "classes")} for s in h[1:]],
                            "start": h[0]["start"], "embedding": emb})

    def pos(R, uid):
        for k, e in enumerate(R.path.entities):
            if getattr(e, UID, None) == uid:
                return k
        raise Stop()

    try:
        for si in range(1, len(h)):
            st = h[si]
            op = st["op"]
            A = st["st"]
            I = seq(st["ist"])[0] if seq(st["ist"]) else A
            dev = seq(st["dev"])
            devid = dev[0] if dev else None
            pre_uids = [e["u"] for e in seq(prev["e"])]
            raised = None
            old_cur = None
            try:
                if op == "remove":
                    ids = [pos(cur, pre_uids[q - 1]) for q in seq(st["ids"])]
                    cur.path.remove_entities(ids if (variant + si) % 2 else np.array(ids, dtype=np.int64))
                elif op == "remove_invalid":
                    cur.path.remove_invalid()
                elif op == "dedupe":
                    cur.path.remove_duplicate_entities()
                elif op == "merge":
                    cur.path.merge_vertices()
                elif op == "unref":
                    cur.path.remove_unreferenced_vertices()
                elif op == "process":
                    cur.path.process()
                elif op == "replace":
                    mask = np.full(len(cur.path.vertices), -1, dtype=np.int64)
                    for mi, mv in enumerate(st["mask"], start=1):
                        mask[cur.m2r[mi]] = cur.m2r[mv]
                    cur.path.replace_vertex_references(mask)
                elif op == "reindex":
                    n = len(cur.path.vertices)
                    perm = np.arange(n)[::-1].copy()
                    inv = np.argsort(perm)
                    cur.path.vertices = np.array(cur.path.vertices)[perm]
                    cur.path.replace_vertex_references(inv)
                elif op == "flip":
                    e = cur.path.entities[pos(cur, pre_uids[st["i"] - 1])]
                    e.points = e.points[::-1].copy()
                elif op == "reverse":
                    cur.path.entities[pos(cur, pre_uids[st["i"] - 1])].reverse()
                elif op in ("explode", "explode_all"):
                    # the fresh ghost ids the model gave to the pieces of every exploded entity
                    ids = set(seq(st["ids"]))
                    post = [e["u"] for e in seq(A["e"])]
                    fresh, k = {}, 0
                    for q, e in enumerate(seq(prev["e"]), start=1):
                        npieces = (len(e["p"]) - 1 if e["k"] == "L" else 1) if q in ids else 1
                        if q in ids:
                            fresh[e["u"]] = post[k:k + npieces]
                        k += npieces
                    before = [(getattr(e, UID, None), e) for e in cur.path.entities]
                    if op == "explode_all":
                        cur.path.explode()
                        after = list(cur.path.entities)
                        k = 0
                        for u, _ in before:
                            for fu in fresh.get(u, []):
                                if k < len(after):
                                    setattr(after[k], UID, fu)
                                k += 1
                        for e in after[k:]:
                            setattr(e, UID, None)
                    else:
                        new = []
                        for u, e in before:
                            if u in fresh:
                                pieces = list(e.explode())
                                for q, piece in enumerate(pieces):
                                    setattr(piece, UID, fresh[u][q] if q < len(fresh[u]) else None)
                                new.extend(pieces)
                            else:
                                new.append(e)
                        cur.path.entities = new
                    for us in fresh.values():
                        exploded.update(us)
                elif op == "transform":
                    cur.path.apply_transform(matrix(st["g"], emb))
                elif op == "copy":
                    stash = Real(cur.path.copy(), emb)
                elif op == "swap":
                    cur, stash = stash, cur
                elif op == "concat":
                    fresh = {a: b for a, b in seq(st["fresh"])}
                    exploded.update(b for a, b in fresh.items() if a in exploded)
                    before = (fingerprint(cur), fingerprint(stash))
                    saved = [(e, getattr(e, UID, None)) for e in stash.path.entities]
                    for e, u in saved:
                        setattr(e, UID, fresh.get(u))
                    try:
                        if st["curfirst"]:
                            new = (cur.path + stash.path) if (variant + si) % 2 else concatenate([cur.path, stash.path])
                        else:
                            new = concatenate([stash.path, cur.path])
                    finally:
                        for e, u in saved:
                            setattr(e, UID, u)
                    old_cur = cur
                    cur = Real(new, emb)
                elif op == "read":
                    pass
                else:
                    raise MachineryError("unknown op " + op)
            except (Stop, MachineryError):
                raise
            except BaseException as e:  # noqa  (an exception of the code under test)
                raised = type(e).__name__ + ": " + str(e)[:100]
            out["steps"] += 1
            if raised is not None:
                if not st["exc"] and st.get("noent"):
                    # process() without entities: whether the as-built code raises depends on an unmodelled detail
                    viol("NoRaise", {"exception": raised, "predicted_by_as_built_model": "possible"}, si, "EmptyPathScaleRaises")
                    raise Stop()
                viol("NoRaise", {"exception": raised, "predicted_by_as_built_model": bool(st["exc"])}, si,
                     devid if st["exc"] else None)
                if not st["exc"]:
                    raise Stop()
                # the as-built model predicted the exception: go on from the state it predicts
                if op == "concat":
                    cur = old_cur if old_cur is not None else cur
                P = project(cur)
                okA, why, m2r = struct_match(P, A)
                if not okA:
                    out["drift"] = {"step": si, "op": op, "why": "after the exception: " + why}
                    raise Stop()
                cur.m2r = m2r
                if stash is not None and fingerprint(stash) != stash_proj:
                    viol("CopyIndependent", {"what": "the failed operation changed the other path", "op": op}, si)
                    raise Stop()
                prev = A
                continue
            if st["exc"]:
                # the as-built model predicted an exception that did not happen: follow the intended model
                A = I
                out["obsolete"] = devid
            # ---- the other path must not have been touched (aliasing), operands of + stay intact
            if op == "swap":
                stash_proj = fingerprint(stash)
            elif op == "concat":
                if (fingerprint(old_cur), fingerprint(stash)) != before:
                    viol("OperandsUntouched", {"what": "an operand of the concatenation changed"}, si)
                    raise Stop()
            elif op != "copy" and stash is not None and fingerprint(stash) != stash_proj:
                viol("CopyIndependent", {"what": "editing one path changed the other one", "op": op}, si)
                raise Stop()
            # ---- the step's own return value
            if op == "read":
                out["reads"] += 1
                got, exc = read_real(cur, st["k"])
                if not read_ok(cur, st["k"], got, exc, st["exp"], st["arc"]):
                    asb = dev and read_ok(cur, st["k"], got, exc, st["got"], st["arc"], stale=True)
                    viol("ReadIsCurrent:" + st["k"], {"got": show(got), "exc": exc, "want": st["exp"]}, si,
                         devid if asb else None)
                    if not asb:
                        raise Stop()
            # ---- the state after the step
            P = project(cur)
            cls = [set(c) for c in seq(st.get("classes", []))]
            bad = prop_check(P, I, op, cls, exploded)
            okA, why, m2r = struct_match(P, A)
            if bad is None:
                if not okA:
                    okI, _, m2rI = struct_match(P, I)
                    if dev and okI:
                        out["obsolete"] = devid
                    else:
                        out["drift"] = {"step": si, "op": op, "why": why}
                    raise Stop()
            else:
                if dev and okA:
                    viol(bad[0], bad[1], si, devid)
                else:
                    viol(bad[0], dict(bad[1], structure=why), si)
                    raise Stop()
            cur.m2r = m2r
            if op == "copy":
                Ps = project(stash)
                oks, whys, m2rs = struct_match(Ps, st["sst"])
                bads = prop_check(Ps, st["sst"], "copy", None, exploded)
                if bads is not None or not oks:
                    viol("CopyEqualsOriginal", {"why": whys, "prop": bads}, si)
                    raise Stop()
                stash.m2r = m2rs
                stash_proj = fingerprint(stash)
            prev = A
        # ---------------- closing sweep: every reader and the per-entity values of both paths
        for R, fin in ((cur, beh["fin"]), (stash, beh["sfin"])):
            if R is None or fin.get("none"):
                continue
            for k in ("length", "bounds", "refd", "vg"):
                got, exc = read_real(R, k)
                rec = fin["reads"][k]
                out["reads"] += 1
                if not read_ok(R, k, got, exc, rec["exp"], fin["arc"]):
                    asb = seq(rec["dev"]) and read_ok(R, k, got, exc, rec["got"], fin["arc"], stale=True)
                    viol("ReadIsCurrent:" + k, {"got": show(got), "exc": exc, "want": rec["exp"], "where": "sweep"}, len(h),
                         seq(rec["dev"])[0] if asb else None)
            r2m = {v: k for k, v in R.m2r.items()}
            ents = {getattr(e, UID, None): e for e in R.path.entities}
            for fe in seq(fin["ents"]):
                e = ents.get(fe["u"])
                if e is None:
                    continue
                got = {"closed": bool(e.closed), "valid": bool(e.is_valid),
                       "ends": [r2m.get(int(q), -1) for q in e.end_points],
                       "nodes": [[r2m.get(int(a), -1), r2m.get(int(b), -1)] for a, b in np.asarray(e.nodes).reshape((-1, 2))]}
                want = {"closed": fe["closed"], "valid": fe["valid"], "ends": list(fe["ends"]),
                        "nodes": [list(q) for q in seq(fe["nodes"])]}
                out["reads"] += 4
                if got != want:
                    viol("EntityValues", {"uid": fe["u"], "got": got, "want": want}, len(h))
    except Stop:
        pass
    return out


def _replay_chunk(chunk):
    trimesh = import_trimesh()
    res = {"viol": [], "drift": [], "obsolete": {}, "steps": 0, "reads": 0, "n": 0, "full": 0, "ops": {},
           "sample": None}
    (fn, base), = chunk
    for k, beh in enumerate(json.load(open(fn))):
        idx = base + k
        if res["sample"] is None:
            res["sample"] = [{q: v for q, v in s.items() if q not in ("st", "ist", "sst", "classes")} for s in beh["h"]]
        for s in beh["h"][1:]:
            res["ops"][s["op"]] = res["ops"].get(s["op"], 0) + 1
        o = replay_one(trimesh, beh, idx + seed())
        res["n"] += 1
        res["steps"] += o["steps"]
        res["reads"] += o["reads"]
        if o["steps"] == len(beh["h"]) - 1:
            res["full"] += 1
        res["viol"].extend(o["viol"])
        if o["drift"]:
            res["drift"].append(dict(o["drift"], start=beh["h"][0]["start"],
                                     ops=[s["op"] for s in beh["h"][1:]]))
        if o["obsolete"]:
            res["obsolete"][o["obsolete"]] = res["obsolete"].get(o["obsolete"], 0) + 1
            res["drift"].append({"obsolete": o["obsolete"], "start": beh["h"][0]["start"],
                                 "ops": [s["op"] + (":" + s["k"] if s["op"] == "read" else "") for s in beh["h"][1:]]})
    return res


# ------------------------------------------------------------------ deviations observed on the tree
def probe_deviations(trimesh):
    """Which of the named deviations the tree under test shows (each probe is a three-line experiment)."""
    from trimesh.path import Path2D
    from trimesh.path.entities import Arc, Line
    flags = set()
    try:
        p = Path2D(entities=[Arc([0, 1, 2])], vertices=[[2, 0], [0, 2], [-2, 0]], process=False)
        if p.length > 1.5 * math.pi * 2:
            flags.add("d1")
    except BaseException:  # noqa
        pass
    try:
        if Line([0, 1, 2], color=[255, 0, 0, 255]).explode()[0].color is None:
            flags.add("d2")
    except BaseException:  # noqa
        pass
    try:
        Path2D(entities=[], vertices=[[0, 0], [0, 0], [1, 1]], process=False).merge_vertices()
    except BaseException:  # noqa
        flags.add("d3")
    try:
        p = Path2D(entities=[Line([0, 1, 2, 0]), Line([0, 2, 1, 0])], vertices=[[0, 0], [3, 0], [3, 4]], process=False)
        p.remove_duplicate_entities()
        if len(p.entities) == 2:
            flags.add("d4")
    except BaseException:  # noqa
        pass
    return flags


# ------------------------------------------------------------------ main
SELFTESTS = [
    # (switch, invariant TLC must report, starts, ops, depth)
    ("d1", "ReadIsCurrent", "StartArc", "OpsRead", 3),
    ("d2", "DataAttached", "StartSq", "OpsExplode", 3),
    ("d3", "NoRaise", "StartDup", "OpsClean", 4),
    ("d4", "DedupeComplete", "StartTri", "OpsClean", 3),
    ("m1", "ReadIsCurrent", "StartSq", "OpsClean", 5),
    ("m2", "ReadIsCurrent", "StartSq", "OpsMove", 5),
    ("m3", "IndexInRange", "StartDup", "OpsClean", 3),
    ("m4", "DrawingIsWanted", "StartSq", "OpsClean", 3),
]


def main(argv):
    tier = tier_from_args(argv)
    V = Verdict(PROP, tier)
    trimesh = import_trimesh()
    cov = {"tlc_runs": []}
    states = trans = 0

    def note(name, r):
        nonlocal states, trans
        states += r.distinct
        trans += r.generated
        cov["tlc_runs"].append({"run": name, "distinct": r.distinct, "generated": r.generated,
                                "depth": r.depth, "wall_s": round(r.wall, 1)})

    # the deviations this tree shows decide which model the replay follows
    flags = tuple(sorted(probe_deviations(trimesh)))
    cov["deviations_observed_on_tree"] = [DEV_IDS[f] for f in flags]

    # every TLC job of the run: (kind, name, cfg keywords, workers, simulate)
    #  1. model checking of the intended design (all switches off)   2. the spec self-tests
    #  3. emission of behaviours from the model with the observed deviations switched on
    jobs = []
    emit_kw = dict(view=False, invs=["EmitLeaf"], flags=flags)
    if tier == "quick":
        jobs.append(("mc", "mc all starts, all operations, depth=2", dict(depth=2, invs=ALL_INVS), 4, None))
        jobs.append(("emit", "all histories depth=2", dict(depth=2, **emit_kw), 1, None))
        jobs.append(("emit", "simulate depth=6", dict(depth=6, **emit_kw), 1, ("num=25", 8)))
        jobs.append(("emit", "simulate depth=4", dict(depth=4, **emit_kw), 1, ("num=40", 6)))
    else:
        jobs.append(("mc", "mc all starts, all operations, depth=3", dict(depth=3, invs=ALL_INVS), 6, None))
        jobs.append(("mc", "mc all starts, removals / clean-ups / masks / copy / reads, depth=4",
                     dict(depth=4, ops="OpsCore", invs=ALL_INVS), 6, None))
        jobs.append(("emit", "all histories depth=2", dict(depth=2, **emit_kw), 1, None))
        for grp, what in (("OpsG1", "removals / clean-ups / masks / reads"), ("OpsG2", "clean-ups / explode / flip / reads"),
                          ("OpsG3", "clean-ups / copy / concatenate / transform / reads")):
            for st in ("StartSq", "StartTri", "StartArc", "StartPl", "StartDup"):
                jobs.append(("emit", f"all histories depth=3 of {what} from {st}",
                             dict(depth=3, starts=st, ops=grp, **emit_kw), 1, None))
        jobs.append(("emit", "simulate depth=8", dict(depth=8, **emit_kw), 1, ("num=250", 10)))
        jobs.append(("emit", "simulate depth=5", dict(depth=5, **emit_kw), 1, ("num=250", 7)))
    for flag, inv, starts, ops, depth in SELFTESTS:
        jobs.append(("self", flag, dict(depth=depth, starts=starts, ops=ops, flags=(flag,), invs=[inv]), 1, None))

    def run_job(job):
        k, (kind, name, kw, workers, sim) = job
        dd = tlc.prepare("x04/job%d" % k)
        if sim is None:
            rr = tlc.run(dd, "PathEdit", cfg(**kw), workers=workers, timeout=3000,
                         java_opts=["-Xmx4g"] if workers > 1 else None)
        else:
            rr = tlc.run(dd, "PathEdit", cfg(**kw), workers=1, simulate=sim[0], depth=sim[1], seed=seed() + 11 + k, timeout=3000)
        if kind == "emit":
            # keep the emitted lines out of the main process' memory: one file per job, parsed by the replay workers
            rr.files = []
            for lo in range(0, len(rr.printed), 250):
                fn = os.path.join(outdir, "beh%d_%d.json" % (k, lo))
                with open(fn, "w") as f:
                    json.dump(rr.printed[lo:lo + 250], f)
                rr.files.append((fn, len(rr.printed[lo:lo + 250])))
            rr.n_printed = len(rr.printed)
            rr.printed, rr.stdout = [], rr.stdout[-1500:]
        return kind, name, kw, sim, rr

    outdir = tlc.prepare("x04/out")
    selftests, counts, files = {}, {}, []
    with ThreadPoolExecutor(max_workers=6 if tier == "quick" else 8) as ex:
        done = list(ex.map(run_job, list(enumerate(jobs))))
    for kind, name, kw, sim, rr in done:
        if kind == "self":
            inv = kw["invs"][0]
            selftests[name] = rr.violated
            if rr.violated != inv:
                raise MachineryError(f"spec self-test {name}: expected {inv} to be reported, got {rr.violated} {rr.error}\n" + rr.stdout[-1500:])
            states += rr.distinct
            trans += rr.generated
            continue
        if sim is None:
            tlc.must(rr, name)
        elif rr.violated or (rr.error and rr.error != "timeout"):
            raise MachineryError("simulation failed: %s %s\n%s" % (rr.violated, rr.error, rr.stdout[-1500:]))
        note(("emit " if kind == "emit" else "") + name, rr)
        if kind == "emit":
            counts[name] = rr.n_printed
            files.extend(rr.files)
    cov["spec_selftests"] = selftests
    if min(counts.values()) < 100 or sum(counts.values()) < 3000:
        raise MachineryError(f"emission too small: {counts}")

    # 4. replay
    t0 = time.time()
    items, base = [], 0
    for fn, n in files:
        items.append((fn, base))
        base += n
    results = pmap(_replay_chunk, items, chunk=1)
    tot = {"n": 0, "steps": 0, "reads": 0, "full": 0}
    drift, obsolete, op_hist, found = [], {}, {}, []
    for res in results:
        for k in tot:
            tot[k] += res[k]
        drift.extend(res["drift"])
        for k, v in res["obsolete"].items():
            obsolete[k] = obsolete.get(k, 0) + v
        for k, v in res["ops"].items():
            op_hist[k] = op_hist.get(k, 0) + v
        found.extend(res["viol"])
    # observations no named deviation explains come first (the report prints the first few)
    found.sort(key=lambda f: f["deviation"] is not None)
    for f in found:
        V.violation(f["clause"], f, f["deviation"])
    cov["violations_by_deviation"] = {}
    for f in found:
        k = f["deviation"] or "unattributed"
        cov["violations_by_deviation"][k] = cov["violations_by_deviation"].get(k, 0) + 1
    if tot["steps"] < 2 * tot["n"] * 0.8 or tot["reads"] < tot["n"]:
        raise MachineryError(f"replay exercised too little: {tot}")
    need = {"remove", "remove_invalid", "dedupe", "merge", "unref", "process", "replace", "reindex", "flip",
            "reverse", "explode", "explode_all", "transform", "copy", "swap", "concat", "read"}
    if need - set(op_hist):
        raise MachineryError("operations never emitted: %s" % sorted(need - set(op_hist)))
    cov.update({
        "states": states, "transitions": trans,
        "traces_validated_against_impl": tot["n"],
        "behaviours": counts,
        "steps_compared": tot["steps"], "values_read_and_compared": tot["reads"],
        "behaviours_replayed_to_the_end": tot["full"],
        "steps_per_operation": op_hist,
        "model_drift": {"count": len([q for q in drift if "obsolete" not in q]), "samples": [q for q in drift if "obsolete" not in q][:5]},
        "obsolete_samples": [q for q in drift if "obsolete" in q][:5],
        "obsolete_deviation_predictions": obsolete,
        "exhaustive": True,
        "replay_wall_s": round(time.time() - t0, 1),
        "samples": [results[q]["sample"] for q in sorted({0, len(results) // 2, len(results) - 1})],
    })
    return V.finish("model_checking", cov, assumptions=[
        "drawings on the integer lattice (five start drawings with at most 6 vertices / 5 entities: open and closed polylines, "
        "duplicated and reversed segments, zero-length entities, coincident-but-distinct and unreferenced vertices, half-circle "
        "and full-circle 3-point arcs with an axis-parallel even diameter); near-duplicate vertices differ by < 1e-11",
        "Path2D and Path3D (the drawing embedded in the planes z=1 and x=-2); transforms from {rot90+shift, mirror, translation}",
        "histories up to the stated depths; vertex order and entity order compared up to a bijection (not part of a contract)",
        "floats: lattice snap residual 1e-7, lengths relative 1e-9 (closed form a + b*pi + sum sqrt(r) evaluated by Python from "
        "the integers TLC emits), bounds of drawings with arcs may stay inside the true box by 5e-3 (discretised arcs)",
        "bounds of a drawing without entities is left unconstrained",
    ])


if __name__ == "__main__":
    try:
        sys.exit(main(sys.argv[1:]))
    except MachineryError as e:
        print("MACHINERY-ERROR:", e)
        sys.exit(2)
    except Exception as e:  # noqa  (a bug of the harness is never a verdict about trimesh)
        import traceback
        traceback.print_exc()
        print("MACHINERY-ERROR: harness exception", type(e).__name__, e)
        sys.exit(2)
