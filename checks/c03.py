"""C03 - mass properties equal the exact integrals over the enclosed solid.

Reference semantics: spec/MassProps.tla (the ten integrals of 1, x, y, z, xx, yy, zz, xy, yz, zx
over the solid enclosed by a closed oriented lattice surface, by signed tetrahedra from the
origin in the symmetric-sum formulation, all kept as integers times 120; from them volume,
centre of mass, inertia about the centre / the origin / any frame (R, t); |cross|^2 per face).

The harness enumerates closed oriented lattice surfaces (tetrahedra in every vertex order -
hence both orientations and all flat ones -, pillows, cubes, boxes, octahedra, L-prisms, a
genus-1 ring, hollow / multi-body / overlapping shells, translated copies), densities,
centre-of-mass overrides and frames (24 cube rotations x integer translations), calls the real
  "tri":  trimesh.triangles.mass_properties(triangles, density, center_mass) + triangles.area
  "mesh": Trimesh(vertices, faces, process=False) with .density / .center_mass set, then
          .volume .mass .density .center_mass .moment_inertia .area_faces .area
          .moment_inertia_frame(T)
projects every float to an integer (value x the known denominator, rounded; residual <= 1e-9
relative, otherwise the field is reported off-lattice) and has TLC validate every record in
batch against the reference (code -> spec).  Python computes no expected value.
TLC also checks on the recorded inputs that they are closed and consistently wound
(InputSane) and the laws of the reference itself (RefLaws: reversal, translation covariance,
additivity over bodies, direct tetrahedron formula, parallel-axis + rotation law against the
definition of the frame inertia).

Audit families (block "audit", both tiers; see `audit_items`): the same lattice surfaces handed over
in another unit of length and about another origin ((S + org) * sc with sc from 2^-30 .. 2^30 and
decimal / non-dyadic factors: "all real vertex coordinates"; the results are read back in the lattice
unit, the two laws this uses are RefLaws of the module), frames with rational rotations (integer
quaternions of norm^2 3 and 5) and half / quarter lattice origins, inertia.transform_inertia called
directly (3x3 and 4x4, with and without parallel axis), overrides that ARE the centre of mass (the
tensor is then decided), other containers / dtypes / options reaching the same code (lists, float32,
integer and read-only / strided arrays, `crosses=`, `skip_inertia=`, integer / list vertices and
faces, process=True, list / tuple / integer overrides, integer / numpy densities, density 0 and
large / small ones), histories on one mesh object (values read before density / override are set,
set twice, set again to the same value, copy / deepcopy, frame inertia read first) and random voxel
solids (any genus, cavities, several bodies, non-manifold contacts).

quick is a regression screen (origin slice of the {0,1,2}^12 grid + seeded points of
{0..3}^12 + composite surfaces); thorough covers the unisolvent grid {0..3}^12 up to symmetry
(see `unisolvence_note` in the evidence) block by block.
"""
import copy
import itertools
import math
import sys

import numpy as np

from harness import tlc
from harness.common import (MachineryError, Verdict, import_trimesh, pmap, seed,
                            tier_from_args)

PROP = "C03"
CFG = "INIT Init\nNEXT Next\nINVARIANT Report\nINVARIANT InputSane\nINVARIANT RefLaws\nCHECK_DEADLOCK FALSE\n"
API_TRI = "tri"      # trimesh.triangles.mass_properties / trimesh.triangles.area
API_MESH = "mesh"    # Trimesh.volume / mass / density / center_mass / moment_inertia / area / area_faces / moment_inertia_frame
# clause names are short because TLC wraps printed tuples longer than 80 characters (see MassProps.tla)
MEANING = {
    "volume": "volume equals the integral of 1 over the enclosed solid",
    "density_reported": "the density reported is the density given",
    "mass_density_x_volume": "mass equals density times volume",
    "center_mass_override": "an overridden centre of mass is honoured (reported back unchanged)",
    "center_mass": "centre of mass equals first moments over volume",
    "inertia_at_center_mass": "inertia tensor equals density times the second-moment integrals about the centre of mass",
    "inertia_empty_solid": "all ten integrals vanish, so the inertia tensor must be zero",
    "face_areas": "face area equals half the norm of the edge cross product",
    "area_total": "area equals the exact sum of the triangle areas",
    "frame_inertia_integral": "inertia about frame (R, t) equals the second-moment integrals in frame coordinates "
                              "(parallel-axis and rotation law)",
    "frame_inertia_reported_law": "frame inertia equals R^T (I + m M(t - c)) R of the reported I, m, c",
    "inertia_true_override": "the override given is the true centre of mass, so the inertia tensor must be the "
                                    "one about the centre of mass",
    "rotated_body_inertia": "inertia.transform_inertia(R, I) equals the central tensor of the solid rotated by R",
    "rotated_frame_at_center": "inertia.transform_inertia(R, I, parallel_axis=True, mass) with a 3x3 R equals the "
                               "central tensor expressed in the axes of frame R",
}

# densities dn/dd (dd a power of two: exact as a float); 1/1 on the mesh route = default left untouched
DENS = [(1, 1), (2, 1), (3, 1), (1, 2), (5, 4), (7, 1), (1, 1), (3, 2), (10, 1), (1, 4)]
# twice the overriding centre of mass (integer and half-integer centres)
OVERRIDES2 = [(0, 0, 0), (2, 2, 2), (1, 3, -2), (-3, 0, 5), (4, -4, 1), (1, 1, 1)]
FRAME_T = [(0, 0, 0), (1, 0, 0), (0, -1, 2), (2, 1, -1), (-1, -2, -3), (3, 3, 3), (0, 2, 0), (-2, 0, 1)]


# unit of length handed to the implementation: sc = sn / sd (numbers < 2^31: they travel through JSON)
SCALES = [(1, 2 ** 30), (1, 2 ** 20), (1, 2 ** 14), (1, 2 ** 10), (1, 16), (16, 1), (2 ** 10, 1), (2 ** 20, 1),
          (2 ** 30, 1), (1, 10 ** 6), (1, 10 ** 5), (1, 10 ** 4), (1, 1000), (1, 100), (1, 10), (1, 3), (10, 1),
          (1000, 1), (10 ** 6, 1), (7, 1)]
# origin handed to the implementation (|org| <= 128: the cancellation in the second moments stays below 1e-10)
ORGS = [(100, -100, 64), (-64, 17, 100), (37, 50, -81), (128, 128, 128), (-100, -100, -100), (0, 0, 127)]
# (origin, unit) pairs: far origins with dyadic units (the arithmetic stays exact up to the divisions), nearer
# ones with units that make every coordinate inexact (error of the second moments ~ (distance / size)^3 ulp)
FAR = [(org, sc) for org in ORGS for sc in ((1, 1), (1, 256), (8, 1))] \
    + [(org, sc) for org in [(16, -12, 9), (-10, 7, 15), (-16, -16, -16), (11, 13, -14)]
       for sc in ((1, 10), (3, 1), (1, 1000), (1000, 1))]
SMALL_DENS = [(1, 1), (2, 1), (3, 1), (1, 2), (3, 2), (1, 1), (1, 4)]
EXTREME_DENS = [(0, 1), (1000, 1), (4096, 1), (1, 1024), (3, 1024), (0, 1), (7800, 1)]
TRI_VARIANTS = ["list", "tuple", "f32", "i64", "i32", "i16", "i8", "u8", "f16", "F", "nc", "ro", "tracked", "crosses",
                "crosses_area", "skip", "dint", "dnp32"]
MESH_VARIANTS = ["vi64", "vf32", "vlist", "fi32", "fu8", "flist", "proc", "dint", "dnp32", "vi64_fi32"]
OC_VARIANTS = ["list", "tuple", "int", "arr", "f32"]
HISTORIES = ["read_then_set", "set_twice", "interleaved", "reset_same", "override_first", "copy", "copy_cold",
             "deepcopy", "frame_first", "props_first"]


def rotations():
    """The 24 proper rotations among the 48 signed permutation matrices."""
    out = []
    for perm in itertools.permutations(range(3)):
        for signs in itertools.product((1, -1), repeat=3):
            R = [[0, 0, 0] for _ in range(3)]
            for r in range(3):
                R[r][perm[r]] = signs[r]
            if round(np.linalg.det(np.array(R, dtype=float))) == 1:
                out.append(R)
    assert len(out) == 24
    return out


ROT = rotations()


def quaternion_rotations():
    """(R, rd) with R / rd a rotation with rational, non-lattice entries: from integer quaternions of
    squared norm 3 and 5 (inputs only: TLC checks R R^T = rd^2 E and det R = rd^3 on every record)."""
    out = {}
    for w, x, y, z in itertools.product(range(-2, 3), repeat=4):
        n = w * w + x * x + y * y + z * z
        if n not in (3, 5):
            continue
        R = [[w * w + x * x - y * y - z * z, 2 * (x * y - w * z), 2 * (x * z + w * y)],
             [2 * (x * y + w * z), w * w - x * x + y * y - z * z, 2 * (y * z - w * x)],
             [2 * (x * z - w * y), 2 * (y * z + w * x), w * w - x * x - y * y + z * z]]
        out[(n, tuple(map(tuple, R)))] = (R, n)
    return [out[k] for k in sorted(out)]


QROT = quaternion_rotations()


def frame(R, rd, t, td):
    return {"R": [list(r) for r in R], "rd": int(rd), "t": [int(x) for x in t], "td": int(td)}


# ------------------------------------------------------------------ input surfaces
def tet_faces(a, b, c, d):
    """The four faces of tetrahedron (a, b, c, d), outward when det(b-a, c-a, d-a) > 0."""
    a, b, c, d = list(a), list(b), list(c), list(d)
    return [[a, c, b], [a, b, d], [a, d, c], [b, c, d]]


def pillow(a, b, c):
    a, b, c = list(a), list(b), list(c)
    return [[a, b, c], [a, c, b]]


def shift(tri, t):
    return [[[p[0] + t[0], p[1] + t[1], p[2] + t[2]] for p in f] for f in tri]


def reverse(tri):
    return [[f[0], f[2], f[1]] for f in tri]


def voxel_surface(cells, scale=(1, 1, 1), alt=0):
    """Boundary of a union of unit cells (scaled per axis), 2 triangles per exposed cell side,
    wound outward; `alt` selects which diagonal splits each quad."""
    cells = set(cells)
    tri = []
    n = 0
    for cell in sorted(cells):
        for ax in range(3):
            for s in (1, -1):
                nb = list(cell)
                nb[ax] += s
                if tuple(nb) in cells:
                    continue
                u, v = (ax + 1) % 3, (ax + 2) % 3
                q = []
                for du, dv in ((0, 0), (1, 0), (1, 1), (0, 1)):
                    p = list(cell)
                    p[ax] += 1 if s == 1 else 0
                    p[u] += du
                    p[v] += dv
                    q.append([p[0] * scale[0], p[1] * scale[1], p[2] * scale[2]])
                if s == -1:
                    q = q[::-1]
                if (n + alt) % 2 == 0:
                    tri += [[q[0], q[1], q[2]], [q[0], q[2], q[3]]]
                else:
                    tri += [[q[0], q[1], q[3]], [q[1], q[2], q[3]]]
                n += 1
    return tri


def octahedron(r=(1, 1, 1)):
    px, nx, py, ny, pz, nz = [r[0], 0, 0], [-r[0], 0, 0], [0, r[1], 0], [0, -r[1], 0], [0, 0, r[2]], [0, 0, -r[2]]
    return [[px, py, pz], [py, nx, pz], [nx, ny, pz], [ny, px, pz],
            [py, px, nz], [nx, py, nz], [ny, nx, nz], [px, ny, nz]]


def fan_solid(ring, apex_top, apex_bot):
    """Bipyramid over a (possibly non-convex, star-shaped) ring of lattice points."""
    tri = []
    for k in range(len(ring)):
        a, b = list(ring[k]), list(ring[(k + 1) % len(ring)])
        tri.append([a, b, list(apex_top)])
        tri.append([b, a, list(apex_bot)])
    return tri


def named_shapes(tier):
    """(name, triangles, body sizes) - closed, consistently wound lattice surfaces."""
    ring = [(i, j, 0) for i in range(3) for j in range(3) if (i, j) != (1, 1)]
    full = [(i, j, k) for i in range(3) for j in range(3) for k in range(3)]
    shapes = []

    def add(name, tri, nb=None):
        shapes.append((name, tri, nb or [len(tri)]))

    add("cube", voxel_surface([(0, 0, 0)]))
    add("cube_altdiag", voxel_surface([(0, 0, 0)], alt=1))
    add("box_2x1x3", voxel_surface([(0, 0, 0)], scale=(2, 1, 3)))
    add("box_1x3x2_alt", voxel_surface([(0, 0, 0)], scale=(1, 3, 2), alt=1))
    add("octahedron", octahedron())
    add("octahedron_2_1_3", octahedron((2, 1, 3)))
    add("L_prism", voxel_surface([(0, 0, 0), (1, 0, 0), (0, 1, 0)]))
    add("L_prism_tall", voxel_surface([(0, 0, 0), (1, 0, 0), (0, 1, 0)], scale=(1, 1, 2), alt=1))
    add("torus_ring_3x3x1", voxel_surface(ring))
    add("torus_ring_scaled", voxel_surface(ring, scale=(1, 2, 1), alt=1))
    add("staircase", voxel_surface([(0, 0, 0), (1, 0, 0), (1, 1, 0), (1, 1, 1)]))
    add("edge_touching_cubes", voxel_surface([(0, 0, 0), (1, 1, 0)]))
    add("corner_touching_cubes", voxel_surface([(0, 0, 0), (1, 1, 1)]))
    c1, c2 = voxel_surface([(0, 0, 0)]), shift(voxel_surface([(0, 0, 0)], alt=1), (2, 0, 1))
    add("two_cubes_apart", c1 + c2, [12, 12])
    # overlapping shells: the overlap region is counted twice by the signed decomposition
    b1, b2 = voxel_surface([(0, 0, 0)], scale=(2, 2, 2)), shift(voxel_surface([(0, 0, 0)], scale=(2, 2, 2)), (1, 1, 1))
    add("overlapping_cubes", b1 + b2, [12, 12])
    add("coincident_shells", b1 + b1, [12, 12])
    # hollow solids: an outer shell and a reversed inner shell (cavity)
    outer = voxel_surface([(0, 0, 0)], scale=(3, 3, 3))
    inner = reverse(shift(voxel_surface([(0, 0, 0)]), (1, 1, 1)))
    add("hollow_cube_two_shells", outer + inner, [12, 12])
    add("hollow_3x3x3_voxels", voxel_surface([c for c in full if c != (1, 1, 1)]))
    t1 = tet_faces((0, 0, 0), (2, 0, 0), (0, 2, 0), (0, 0, 2))
    t2 = tet_faces((1, 1, 1), (3, 1, 2), (1, 3, 1), (2, 2, 3))
    t3 = tet_faces((0, 0, 0), (1, 0, 0), (0, 1, 0), (0, 0, 1))
    add("two_tets", t1 + t2, [4, 4])
    add("tet_in_tet_overlap", t1 + t3, [4, 4])
    add("tet_and_inverted_tet", t1 + reverse(t2), [4, 4])
    add("tet_with_cavity", tet_faces((0, 0, 0), (3, 0, 0), (0, 3, 0), (0, 0, 3))
        + reverse(shift(t3, (0, 0, 0))), [4, 4])
    add("tet_cube_pillow", t2 + c1 + pillow((0, 0, 0), (2, 1, 0), (1, 3, 2)), [4, 12, 2])
    add("inside_out_cube", reverse(c1))
    star = [(2, 0, 0), (1, 1, 0), (0, 2, 0), (-1, 1, 0), (-2, 0, 0), (-1, -1, 0), (0, -2, 0), (1, -1, 0)]
    add("star_bipyramid", fan_solid(star, (0, 0, 2), (0, 0, -1)))
    add("skew_bipyramid", fan_solid([(2, 0, 1), (0, 2, 0), (-2, 0, -1), (0, -2, 0)], (1, 1, 3), (0, -1, -2)))
    if tier == "thorough":
        add("box_3x2x1", voxel_surface([(0, 0, 0)], scale=(3, 2, 1)))
        add("plus_sign", voxel_surface([(1, 0, 0), (0, 1, 0), (1, 1, 0), (2, 1, 0), (1, 2, 0)]))
        add("slab_2x2x1", voxel_surface([(0, 0, 0), (1, 0, 0), (0, 1, 0), (1, 1, 0)], alt=1))
        add("torus_ring_tall", voxel_surface(ring, scale=(1, 1, 2)))
        add("tripod", voxel_surface([(0, 0, 0), (1, 0, 0), (0, 1, 0), (0, 0, 1)]))
        add("three_tets", t1 + t2 + shift(t3, (-2, -1, 0)), [4, 4, 4])
    return shapes


# ------------------------------------------------------------------ projection of results
class Snapper:
    """value -> round(value * K) with a residual test; the first field that is not on its
    lattice is remembered in `off` (the record is then rejected by the validator)."""

    def __init__(self):
        self.off = ""

    def try_snap(self, x, K):
        x = float(x)
        v = x * K
        if not np.isfinite(v):
            return None
        n = round(v)
        if abs(v - n) > 1e-9 * max(1.0, abs(x)) * abs(K) or abs(n) >= 2 ** 31:
            return None
        return int(n)

    def __call__(self, name, x, K):
        n = self.try_snap(x, K)
        if n is None:
            if not self.off:
                self.off = name
            return 0
        return n

    def mat(self, name, A, K):
        A = np.asarray(A, dtype=np.float64)
        if A.shape != (3, 3):
            if not self.off:
                self.off = name + "_shape"
            return [[0, 0, 0]] * 3
        return [[self(name, A[r, c], K) for c in range(3)] for r in range(3)]

    def vec(self, name, a, K, n=3):
        a = np.asarray(a, dtype=np.float64).reshape(-1)
        if n is not None and a.shape != (n,):
            if not self.off:
                self.off = name + "_shape"
            return [0] * n
        return [self(name, x, K) for x in a]


def project(sn, it, volume, mass, density, center, inertia, area_faces, area, frames, xfs):
    """Project one API's results to the integers described in MassProps.tla.  The implementation was
    handed (S + org) * sc; every value is first read back in the lattice unit about the lattice origin."""
    dn, dd = it["dn"], it["dd"]
    ovr = it["ovr"]
    sc = it["sc"][0] / it["sc"][1]
    org = np.array(it["org"], dtype=np.float64)
    o = {"tiny": bool(abs(float(volume)) < 1e-13)}
    volume = float(volume) / sc ** 3
    mass = float(mass) / sc ** 3
    center = np.asarray(center, dtype=np.float64)
    if center.shape == (3,):
        center = center / sc - org
    inertia = None if inertia is None else np.asarray(inertia, dtype=np.float64) / sc ** 5
    o["vol6"] = sn("volume", volume, 6)
    o["mass6"] = sn("mass", mass, 6 * dd)
    o["dens"] = sn("density", density, dd)
    v6 = o["vol6"]
    o["ilat"] = True
    if inertia is None:
        if not sn.off:
            sn.off = "inertia_missing"
        inertia = np.zeros((3, 3))
    if ovr:
        o["cm"] = sn.vec("center_mass", center, 2)
        # what the inertia tensor is under an override is not decided by the property (unless the override
        # is the true centre, which TLC decides); otherwise it is only used (when it happens to lie on the
        # lattice) in the frame law on reported values
        tmp = Snapper()
        o["I"] = tmp.mat("inertia", inertia, 240 * dd)
        o["ilat"] = tmp.off == ""
        # this tensor enters TLC's 32-bit arithmetic as 2 D I and I + 10 m6 M(2 t - oc2): a value beyond that
        # range counts as off the lattice of exact values (every exact value is far inside it)
        big = max(abs(x) for row in o["I"] for x in row)
        pax = max([3 * max(abs(2 * a - b) for a, b in zip(fr["t"], it["oc2"])) ** 2
                   for fr, _ in frames if fr["rd"] * fr["td"] == 1] + [0])
        if big * max(2 * abs(v6), 1) >= 2 ** 31 or big + 10 * abs(o["mass6"]) * pax >= 2 ** 30:
            o["ilat"] = False
    elif v6 != 0:
        o["cm"] = sn.vec("center_mass", center, 4 * v6)
        o["I"] = sn.mat("inertia", inertia, 480 * v6 * dd)
    else:
        tmp = Snapper()     # centre of an empty solid: unconstrained
        o["cm"] = tmp.vec("center_mass", center, 1)
        o["I"] = sn.mat("inertia", inertia, 120 * dd)
    o["crs2"] = [sn("area_faces", (2.0 * float(a) / sc ** 2) ** 2, 1) for a in np.asarray(area_faces).reshape(-1)]
    # total area: only Trimesh.area reports one (triangles.area is per face)
    a2 = None if area is None else Snapper().try_snap(2.0 * float(area) / sc ** 2, 1)
    o["hasarea"] = area is not None
    o["area2ok"] = a2 is not None
    o["area2"] = a2 if a2 is not None else 0
    o["frames"] = [dict(fr, I=sn.mat("frame_inertia", np.asarray(F, dtype=np.float64) / sc ** 5,
                                     240 * dd * fr["rd"] ** 2 * fr["td"] ** 2)) for fr, F in frames]
    o["xf"] = []
    if not ovr and v6 != 0:
        for R, A, P in xfs:
            o["xf"].append({"R": R, "A": sn.mat("transform_inertia", np.asarray(A, dtype=np.float64) / sc ** 5, 480 * v6 * dd),
                            "P": sn.mat("transform_inertia_parallel", np.asarray(P, dtype=np.float64) / sc ** 5,
                                        480 * v6 * dd)})
    o["off"] = sn.off
    return o


def exact_as(A, dtype):
    """A cast to dtype when that loses nothing, else None."""
    with np.errstate(all="ignore"):
        B = A.astype(dtype)
    return B if np.array_equal(B.astype(np.float64), A) else None


def tri_input(trimesh, T, tv):
    """The triangles in another container / dtype / memory layout holding exactly the same numbers
    (None when this variant cannot hold them)."""
    if tv in ("", "crosses", "crosses_area", "skip", "dint", "dnp32"):
        return T.copy()
    if tv == "list":
        return T.tolist()
    if tv == "tuple":
        return tuple(tuple(tuple(p) for p in f) for f in T.tolist())
    if tv in ("f32", "f16", "i64", "i32", "i16", "i8", "u8"):
        return exact_as(T, {"f32": np.float32, "f16": np.float16, "i64": np.int64, "i32": np.int32, "i16": np.int16,
                            "i8": np.int8, "u8": np.uint8}[tv])
    if tv == "F":
        return np.asfortranarray(T)
    if tv == "nc":
        big = np.zeros((len(T), 3, 6), dtype=np.float64)
        big[:, :, ::2] = T
        return big[:, :, ::2]
    if tv == "ro":
        A = T.copy()
        A.setflags(write=False)
        return A
    if tv == "tracked":
        return trimesh.caching.tracked_array(T.copy())
    raise MachineryError("unknown triangle variant " + tv)


def oc_input(oc, ov):
    """The centre-of-mass override in another container holding the same numbers."""
    if oc is None:
        return None
    if ov == "list":
        return oc.tolist()
    if ov == "tuple":
        return tuple(oc.tolist())
    if ov == "int":
        return exact_as(oc, np.int64) if exact_as(oc, np.int64) is not None else oc.copy()
    if ov == "f32":
        return exact_as(oc, np.float32) if exact_as(oc, np.float32) is not None else oc.copy()
    return oc.copy()


def density_input(rho, dv):
    if dv == "dint" and float(rho).is_integer():
        return int(rho)
    if dv == "dnp32" and float(np.float32(rho)) == rho:
        return np.float32(rho)
    return rho


def read_all(m, M):
    return (m.volume, m.mass, m.density, m.center_mass.copy(), m.moment_inertia.copy(), m.area_faces.copy(),
            m.area, m.moment_inertia_frame(M))


def record(trimesh, it):
    tri = it["tri"]
    dn, dd = it["dn"], it["dd"]
    rho = dn / dd
    var = it["var"]
    sc = it["sc"][0] / it["sc"][1]
    org = np.array(it["org"], dtype=np.float64)
    T = (np.array(tri, dtype=np.float64) + org) * sc           # what the implementation is handed
    oc = None if not it["ovr"] else (np.array(it["oc2"], dtype=np.float64) / 2.0 + org) * sc
    rec = {"id": it["id"], "exc": "", "kind": it["kind"], "name": it["name"], "tri": tri, "dn": dn, "dd": dd,
           "ovr": bool(it["ovr"]), "oc2": list(it["oc2"]), "nb": it["nb"], "lt": list(it["lt"]),
           "laws": bool(it["laws"]), "sc": list(it["sc"]), "org": list(it["org"]), "var": var, "fam": it["fam"],
           "obs": []}
    raw = []
    where = [""]

    def tri_route():
        tv = var.get("tri", "")
        where[0] = API_TRI + ("/" + tv if tv else "") + ("/oc_" + var["oc"] if var.get("oc") and oc is not None else "")
        Tin = tri_input(trimesh, T, tv)
        if Tin is None:                     # this container cannot hold the numbers: plain array
            tv, Tin = "", T.copy()
            where[0] = API_TRI
        default = (dn, dd) == (1, 1) and it["id"] % 2 == 0      # density=None must mean 1
        kw = {"density": None if default else density_input(rho, tv),
              "center_mass": oc_input(oc, var.get("oc", "")), "skip_inertia": False}
        if tv in ("crosses", "crosses_area"):
            kw["crosses"] = trimesh.triangles.cross(T.copy())
        mp = trimesh.triangles.mass_properties(Tin, **kw)
        inertia = mp.inertia
        if tv == "skip":                    # volume / mass / centre from the call without the tensor
            mp = trimesh.triangles.mass_properties(tri_input(trimesh, T, tv), **dict(kw, skip_inertia=True))
        if tv == "crosses_area":
            af = trimesh.triangles.area(crosses=trimesh.triangles.cross(T.copy()))
        else:
            af = trimesh.triangles.area(tri_input(trimesh, T, tv))
        raw.append((where[0], (mp.volume, mp.mass, mp.density, mp.center_mass, inertia, af, None, [], [])))

    def mesh_route():
        mv, hist = var.get("mesh", ""), var.get("hist", "")
        ocm = var.get("ocm", var.get("oc", ""))
        where[0] = API_MESH + ("/" + mv if mv else "") + ("/" + hist if hist else "") \
            + ("/oc_" + ocm if ocm and oc is not None else "")
        index = {}
        verts, faces = [], []
        for f in tri:
            row = []
            for p in f:
                key = tuple(p)
                if key not in index:
                    index[key] = len(verts)
                    verts.append(p)
                row.append(index[key])
            faces.append(row)
        Vin = (np.array(verts, dtype=np.float64) + org) * sc
        Fin = np.array(faces, dtype=np.int64)
        if mv in ("vi64", "vi64_fi32"):
            Vin = Vin if exact_as(Vin, np.int64) is None else exact_as(Vin, np.int64)
        if mv == "vf32":
            Vin = Vin if exact_as(Vin, np.float32) is None else exact_as(Vin, np.float32)
        if mv == "vlist":
            Vin = Vin.tolist()
        if mv in ("fi32", "vi64_fi32"):
            Fin = Fin.astype(np.int32)
        if mv == "fu8":
            Fin = Fin.astype(np.uint8)
        if mv == "flist":
            Fin = Fin.tolist()
        m = trimesh.Trimesh(vertices=Vin, faces=Fin, process=(mv == "proc"))
        if len(m.faces) != len(tri) or len(m.vertices) != len(verts):
            raise MachineryError("Trimesh(process=%s) changed the input" % (mv == "proc"))
        setdens = (dn, dd) != (1, 1) or it["id"] % 2 == 1 or hist != ""
        rho_in = density_input(rho, mv)
        oc_in = oc_input(oc, ocm)
        frames = []
        mats = []
        for fr in it["frames"]:
            M = np.eye(4)
            M[:3, :3] = np.array(fr["R"], dtype=np.float64) / fr["rd"]
            M[:3, 3] = (np.array(fr["t"], dtype=np.float64) / fr["td"] + org) * sc
            mats.append(M)
        M0 = mats[0] if mats else np.eye(4)

        def set_final():
            if setdens:
                m.density = rho_in
            if oc is not None:
                m.center_mass = copy.deepcopy(oc_in)

        # ---- the history: what is read / set on this object before the values that are judged
        if hist in ("", "frame_first", "props_first"):
            set_final()
        elif hist == "read_then_set":       # everything read at the defaults, then density / override set
            read_all(m, M0)
            set_final()
        elif hist == "set_twice":           # other values set and read first
            m.density = 3.0 * rho + 1.0
            if oc is not None:
                m.center_mass = oc + sc
            read_all(m, M0)
            set_final()
        elif hist == "interleaved":         # density set, read, override set
            if setdens:
                m.density = rho_in
            read_all(m, M0)
            if oc is not None:
                m.center_mass = copy.deepcopy(oc_in)
        elif hist == "reset_same":          # the same values assigned again after a read
            set_final()
            read_all(m, M0)
            set_final()
        elif hist == "override_first":      # override before density, a read in between
            if oc is not None:
                m.center_mass = copy.deepcopy(oc_in)
            read_all(m, M0)
            if setdens:
                m.density = rho_in
        elif hist in ("copy", "deepcopy"):  # a copy made after the values were read
            set_final()
            read_all(m, M0)
            m = m.copy() if hist == "copy" else copy.deepcopy(m)
        elif hist == "copy_cold":           # a copy made before anything was read
            set_final()
            m = m.copy()
        else:
            raise MachineryError("unknown history " + hist)
        if hist == "frame_first":
            frames = [(fr, m.moment_inertia_frame(M)) for fr, M in zip(it["frames"], mats)]
        if hist == "props_first":
            props = m.mass_properties
            got = (props["volume"], props["mass"], props["density"], props["center_mass"], props["inertia"])
        else:
            got = (m.volume, m.mass, m.density, m.center_mass, m.moment_inertia)
        if hist != "frame_first":
            frames = [(fr, m.moment_inertia_frame(M.tolist() if mv == "vlist" else M))
                      for fr, M in zip(it["frames"], mats)]
        xfs = []
        for n, ri in enumerate(it["xf"]):
            R = np.array(ROT[ri], dtype=np.float64)
            M = np.eye(4)
            M[:3, :3] = R
            M[:3, 3] = [5.0, -7.0, 11.0]        # the translation of a 4x4 transform must not matter
            A = trimesh.inertia.transform_inertia(M if (it["id"] + n) % 2 else R, got[4])
            P = trimesh.inertia.transform_inertia(transform=R, inertia_tensor=got[4], parallel_axis=True,
                                                  mass=got[1])
            xfs.append((ROT[ri], A, P))
        raw.append((where[0], got + (m.area_faces, m.area, frames, xfs)))

    # each API on its own: an exception raised by one must not hide what the other reports
    for api, route in ((API_TRI, tri_route), (API_MESH, mesh_route)):
        if api not in it["apis"]:
            continue
        try:
            route()
        except MachineryError:
            raise
        except Exception as e:  # noqa - the implementation raised on a valid closed surface
            if not rec["exc"]:
                rec["exc"] = type(e).__name__
                rec["where"] = where[0]
    for api, vals in raw:
        o = project(Snapper(), it, *vals)
        o["api"] = api
        rec["obs"].append(o)
    return rec


def run_chunk(items):
    trimesh = import_trimesh()
    return [record(trimesh, it) for it in items]


# ------------------------------------------------------------------ enumeration
REF_TET = tet_faces((0, 0, 0), (1, 0, 0), (0, 1, 0), (0, 0, 1))     # companion body, volume 1/6


def variants(k, nframes):
    """Density / override / frames chosen by rotating through the lists with the case index, so
    that every density, override, rotation and translation meets every family."""
    dn, dd = DENS[k % len(DENS)]
    ovr = k % 5 == 3
    oc2 = OVERRIDES2[(k // 5) % len(OVERRIDES2)] if ovr else (0, 0, 0)
    frames = [((k * 7 + 5 * j) % 24, FRAME_T[(k // 3 + 3 * j + 1) % len(FRAME_T)]) for j in range(nframes)]
    lt = FRAME_T[(k + 2) % len(FRAME_T)]
    return dn, dd, ovr, oc2, frames, lt


class Builder:
    """Collects work items; `k` (the running index over the whole run) drives the variants."""

    def __init__(self):
        self.k = 0
        self.fam = {}
        self.items = []

    def take(self):
        items, self.items = self.items, []
        return items

    def add(self, kind, name, tri, nb=None, nframes=1, laws=True, apis=(API_TRI, API_MESH), frames=None,
            force=None, sc=(1, 1), org=(0, 0, 0), var=None, xf=None, fam=None):
        dn, dd, ovr, oc2, fr, lt = variants(self.k, nframes)
        if xf is None:      # inertia.transform_inertia called directly on every third full record
            xf = [(self.k * 11 + 3) % 24] if API_MESH in apis and self.k % 3 == 0 else []
        self.k += 1
        if force:
            dn, dd, ovr, oc2 = force
        fr = [frame(ROT[ri], 1, t, 1) for ri, t in (fr if frames is None else frames)] \
            if frames is None or (frames and not isinstance(frames[0], dict)) else frames
        self.items.append({"id": len(self.items), "kind": kind, "name": name, "tri": tri, "dn": dn, "dd": dd,
                           "ovr": ovr, "oc2": oc2, "frames": fr, "xf": list(xf),
                           "nb": nb or [len(tri)], "lt": lt, "laws": laws, "apis": apis,
                           "sc": list(sc), "org": list(org), "var": dict(var or {}), "fam": fam or ""})
        self.fam[name] = self.fam.get(name, 0) + 1

    def lean(self, kind, name, tri, n, nb=None, every=16):
        """Bulk families: the triangle-level API only, every `every`-th record in full
        (mesh route, a frame, laws of the reference)."""
        if n % every == 0:
            self.add(kind, name, tri, nb=nb, nframes=1, laws=True)
        else:
            self.add(kind, name, tri, nb=nb, nframes=0, laws=False, apis=(API_TRI,),
                     force=(1, 1, False, (0, 0, 0)) if n % 2 else None)


def composite_items(B, tier, rs):
    """(iii) composite closed surfaces, translated copies, every rotation x translation."""
    big = tier == "thorough"
    shapes = named_shapes(tier)
    offsets = [(0, 0, 0), (1, 0, 0), (-1, -2, 0), (0, 1, -3), (-2, -1, -1), (2, 2, 1)]
    if big:
        offsets += [(-3, 0, 0), (0, -3, 2), (1, -1, 1), (-1, -1, -2)]
    for name, tri, nb in shapes:
        for off in offsets:
            for _ in range(6 if big else 2):
                B.add("surface", name, shift(tri, off), nb=nb, nframes=4 if big else 2)
        # every rotation x translation once per shape (unit density, no override)
        base = shift(tri, offsets[1])
        allfr = [(ri, t) for ri in range(24) for t in (FRAME_T if big else FRAME_T[:3])]
        for k in range(0, len(allfr), 12):
            B.add("surface", name, base, nb=nb, frames=allfr[k:k + 12], force=(1, 1, False, (0, 0, 0)),
                  apis=(API_MESH,), laws=(k == 0))
    # two random tetrahedra as one surface (several bodies, possibly overlapping / cancelling)
    npair = 4000 if big else 600
    P = rs.randint(0, 4, size=(npair, 8, 3))
    for n in range(npair):
        q = P[n].tolist()
        B.add("surface", "two_random_tets", tet_faces(*q[:4]) + tet_faces(*q[4:]), nb=[4, 4], nframes=2)


def sampled_items(B, tier, rs, limit=None):
    """Seeded samples; a generator that hands out a block whenever `limit` items are pending."""
    big = tier == "thorough"
    nsamp = 120000 if big else 10000
    P = rs.randint(0, 4, size=(nsamp, 4, 3))
    for n in range(nsamp):
        a, b, c, d = P[n].tolist()
        B.add("tet", "tet_grid4_sampled", tet_faces(a, b, c, d), nframes=1, laws=(not big or n % 8 == 0))
        if limit and len(B.items) >= limit:
            yield B.take()
    nsamp = 30000 if big else 3000
    P = rs.randint(0, 4, size=(nsamp, 4, 3)) + rs.randint(-3, 4, size=(nsamp, 1, 3))
    for n in range(nsamp):
        a, b, c, d = P[n].tolist()
        B.add("tet", "tet_grid4_translated", tet_faces(a, b, c, d), nframes=2, laws=(not big or n % 8 == 0))
        if limit and len(B.items) >= limit:
            yield B.take()
    nsamp = 20000 if big else 2500
    P = rs.randint(0, 4, size=(nsamp, 3, 3)) + rs.randint(-2, 3, size=(nsamp, 1, 3))
    for n in range(nsamp):
        a, b, c = P[n].tolist()
        B.add("pillow", "pillow_grid4_sampled", pillow(a, b, c), nframes=1, laws=(not big or n % 4 == 0))
        if limit and len(B.items) >= limit:
            yield B.take()


# 2 x centre of mass of the named shapes whose centre follows from the symmetry of their construction
# (an input: TLC checks on every record of kind "ovrtrue" that it is the centre of mass)
CENTRE2 = {"cube": (1, 1, 1), "cube_altdiag": (1, 1, 1), "box_2x1x3": (2, 1, 3), "box_1x3x2_alt": (1, 3, 2),
           "octahedron": (0, 0, 0), "octahedron_2_1_3": (0, 0, 0), "torus_ring_3x3x1": (3, 3, 1),
           "torus_ring_scaled": (3, 6, 1), "edge_touching_cubes": (2, 2, 1), "corner_touching_cubes": (2, 2, 2),
           "two_cubes_apart": (3, 1, 2), "overlapping_cubes": (3, 3, 3), "coincident_shells": (2, 2, 2),
           "hollow_cube_two_shells": (3, 3, 3), "hollow_3x3x3_voxels": (3, 3, 3), "inside_out_cube": (1, 1, 1),
           "box_3x2x1": (3, 2, 1), "plus_sign": (3, 3, 1), "slab_2x2x1": (2, 2, 1), "torus_ring_tall": (3, 3, 2)}


def audit_items(B, tier, rs):
    """Regions of the quantifier the lattice families above do not reach (found by the coverage audit):
    other units of length and origins, rational frames, overrides that are the true centre, other
    containers / dtypes / options, histories on one object, random voxel solids, extreme densities."""
    big = tier == "thorough"
    shapes = named_shapes(tier)

    def tets(n, hi=4, lo=0):
        P = rs.randint(lo, hi, size=(n, 4, 3))
        return [tet_faces(*P[k].tolist()) for k in range(n)]

    # (A) another unit of length: (S) * sc, every scale on every named shape, seeded tetrahedra
    offs = [(1, 0, 0), (-1, -2, 0), (2, 2, 1)] if big else [(1, 0, 0)]
    for name, tri, nb in shapes:
        for off in offs:
            for sc in SCALES:
                B.add("surface", name, shift(tri, off), nb=nb, nframes=1, sc=sc, fam="scaled")
    for n, tri in enumerate(tets(8000 if big else 720)):
        B.add("tet", "tet_grid4_scaled", tri, nframes=1, sc=SCALES[n % len(SCALES)], laws=(n % 8 == 0), fam="scaled")
    for n, tri in enumerate(tets(2000 if big else 200)):   # two bodies of very different size in one unit
        B.add("surface", "two_tets_scaled", tri + shift(REF_TET, (3, 3, 3)), nb=[4, 4], nframes=1,
              sc=SCALES[(n * 7) % len(SCALES)], laws=(n % 8 == 0), fam="scaled")
    # (B) another origin (and unit): (S + org) * sc
    for name, tri, nb in shapes:
        for j, (org, sc) in enumerate(FAR):
            if big or j % 4 == len(name) % 4:
                B.add("surface", name, tri, nb=nb, nframes=1, sc=sc, org=org, fam="far")
    for n, tri in enumerate(tets(3600 if big else 360)):
        org, sc = FAR[n % len(FAR)]
        B.add("tet", "tet_grid4_far", tri, nframes=1, sc=sc, org=org, laws=(n % 8 == 0), fam="far")
    # (C) frames off the lattice: rational rotations, half / quarter lattice origins (small solids and small
    #     densities: TLC evaluates the definition on the surface in rd * td times the frame coordinates)
    small = [(nm, tri, nb) for nm, tri, nb in shapes if nm in ("cube", "cube_altdiag", "octahedron", "box_2x1x3")]
    P = rs.randint(0, 3, size=(4000 if big else 600, 4, 3))
    bases = [("tet", "tet_grid3_qframes", tet_faces(*P[k].tolist()), None) for k in range(len(P))]
    bases += [("surface", nm, tri, nb) for nm, tri, nb in small for _ in range(40 if big else 10)]
    for n, (kind, name, tri, nb) in enumerate(bases):
        R3, R5 = QROT[n % 16], QROT[16 + n % 24]
        t = rs.randint(-1, 2, size=(2, 3)).tolist()
        th = (2 * rs.randint(-2, 2, size=3) + 1).tolist()          # odd / 2
        tq = rs.randint(-5, 6, size=3).tolist()                     # any / 4
        dn, dd = SMALL_DENS[n % len(SMALL_DENS)]
        # (the parallel-axis law of the reference is evaluated on the tetrahedra only: 4 D q^5 J overflows beyond)
        B.add(kind, name, tri, nb=nb, force=(dn, dd, False, (0, 0, 0)), laws=(kind == "tet" and n % 4 == 0),
              apis=(API_MESH,),
              frames=[frame(R3[0], R3[1], t[0], 1), frame(R5[0], R5[1], t[1], 1),
                      frame(ROT[(n * 5) % 24], 1, th, 2), frame(ROT[(n * 7 + 1) % 24], 1, tq, 4)], fam="qframes")
    # (E) the override given is the centre of mass itself: then the tensor is decided
    sym = [(nm, tri, nb, CENTRE2[nm]) for nm, tri, nb in shapes if nm in CENTRE2]
    offs = [(0, 0, 0), (1, 0, 0), (-1, -2, 0), (0, 1, -3), (-2, -1, -1), (2, 2, 1)]
    n = 0
    for name, tri, nb, c2 in sym:
        for off in offs:
            for _ in range(6 if big else 2):
                dn, dd = DENS[n % len(DENS)]
                oc2 = tuple(c2[a] + 2 * off[a] for a in range(3))
                B.add("ovrtrue", name, shift(tri, off), nb=nb, nframes=2, force=(dn, dd, True, oc2), xf=[],
                      var={"ocm": OC_VARIANTS[n % len(OC_VARIANTS)] if n % 3 == 0 else "",
                           "hist": HISTORIES[n % len(HISTORIES)] if n % 3 == 1 else ""}, fam="ovrtrue")
                n += 1
    # (F) other containers / dtypes / options holding the same numbers
    bases = [("surface", nm, shift(tri, (1, 0, 0)), nb) for nm, tri, nb in shapes for _ in range(12 if big else 3)]
    bases += [("tet", "tet_grid4_containers", tri, None) for tri in tets(3000 if big else 450)]
    bases += [("tet", "tet_signed_containers", tri, None) for tri in tets(1000 if big else 100, hi=3, lo=-2)]
    for n, (kind, name, tri, nb) in enumerate(bases):
        dn, dd = DENS[n % len(DENS)]
        ovr = n % 3 == 0
        B.add(kind, name, tri, nb=nb, nframes=1, laws=False,
              force=(dn, dd, ovr, OVERRIDES2[(n // 3) % len(OVERRIDES2)] if ovr else (0, 0, 0)),
              var={"tri": TRI_VARIANTS[n % len(TRI_VARIANTS)], "mesh": MESH_VARIANTS[(n // 2) % len(MESH_VARIANTS)],
                   "oc": OC_VARIANTS[(n // 3) % len(OC_VARIANTS)] if ovr else "",
                   "ocm": OC_VARIANTS[(n // 3 + 2) % len(OC_VARIANTS)] if ovr else ""}, fam="containers")
    # (G) histories on one mesh object: values read before / between the assignments, copies
    bases = [("surface", nm, shift(tri, (-1, -2, 0)), nb) for nm, tri, nb in shapes
             for _ in range(len(HISTORIES) * (3 if big else 1))]
    bases += [("tet", "tet_grid4_histories", tri, None) for tri in tets(3000 if big else 400)]
    for n, (kind, name, tri, nb) in enumerate(bases):
        B.add(kind, name, tri, nb=nb, nframes=2, laws=False, apis=(API_MESH,),
              var={"hist": HISTORIES[n % len(HISTORIES)]}, fam="histories")
    # (H) random voxel solids: any genus, cavities, several bodies, edge / corner contacts
    for n in range(1500 if big else 150):
        dims = [(3, 3, 3), (4, 4, 2), (2, 3, 4)][n % 3]
        keep = rs.rand(*dims) < (0.35, 0.5, 0.7)[(n // 3) % 3]
        cells = [c for c in itertools.product(*(range(d) for d in dims)) if keep[c]]
        if not cells:
            cells = [(0, 0, 0)]
        dn, dd = SMALL_DENS[n % len(SMALL_DENS)]
        ovr = n % 5 == 3
        B.add("surface", "voxels_random", shift(voxel_surface(cells, alt=n % 2), [(0, 0, 0), (1, 0, 0), (-1, -2, 0)][n % 3]),
              nframes=2, force=(dn, dd, ovr, OVERRIDES2[n % len(OVERRIDES2)] if ovr else (0, 0, 0)), laws=(n % 4 == 0),
              fam="voxels")
    # (I) densities: zero, large, small
    P = rs.randint(0, 3, size=(2100 if big else 280, 4, 3))
    for n in range(len(P)):
        dn, dd = EXTREME_DENS[n % len(EXTREME_DENS)]
        ovr = n % 4 == 3
        B.add("tet", "tet_grid3_densities", tet_faces(*P[n].tolist()), nframes=1, laws=False,
              force=(dn, dd, ovr, OVERRIDES2[n % len(OVERRIDES2)] if ovr else (0, 0, 0)),
              var={"tri": ("dint", "dnp32", "")[n % 3], "mesh": ("dnp32", "", "dint")[n % 3]}, fam="densities")


def blocks(tier, B):
    """Yields (label, items); each block is recorded and validated on its own (bounded memory)."""
    rs = np.random.RandomState(seed() + 303)
    pts3 = [list(p) for p in itertools.product(range(3), repeat=3)]
    pts4 = [list(p) for p in itertools.product(range(4), repeat=3)]
    if tier != "thorough":
        # first vertex at the origin, the other three every ordered triple from {0,1,2}^3: 27^3
        for b, c, d in itertools.product(pts3, repeat=3):
            B.add("tet", "tet_grid3_origin", tet_faces([0, 0, 0], b, c, d), nframes=1)
        for b, c in itertools.product(pts3, repeat=2):
            B.add("pillow", "pillow_grid3_origin", pillow([0, 0, 0], b, c), nframes=1)
        for _ in sampled_items(B, tier, rs):
            pass
        composite_items(B, tier, rs)
        yield "quick", B.take()
        audit_items(B, tier, np.random.RandomState(seed() + 30303))
        yield "audit", B.take()
        return
    LIMIT = 140000
    # (a) every 4-subset of {0..3}^3 in one fixed vertex order: C(64,4) = 635376
    for n, (a, b, c, d) in enumerate(itertools.combinations(pts4, 4)):
        B.lean("tet", "tet_grid4_subsets", tet_faces(a, b, c, d), n)
        if len(B.items) >= LIMIT:
            yield "tet_grid4_subsets", B.take()
    yield "tet_grid4_subsets", B.take()
    # (b) pillows over every ordered triple of {0..3}^3 (4^9 = 262144), reversed face starting at the
    #     same vertex / written as the transposition of the first two vertices; with a companion
    #     tetrahedron so that the first moments stay observable (centre of mass needs volume # 0)
    for variant in (0, 1):
        for n, (a, b, c) in enumerate(itertools.product(pts4, repeat=3)):
            second = [a, c, b] if variant == 0 else [b, a, c]
            B.lean("pillow", "pillow_grid4_all_v%d" % variant, [[a, b, c], second] + REF_TET, n, nb=[2, 4])
            if len(B.items) >= LIMIT:
                yield "pillow_grid4_all", B.take()
    yield "pillow_grid4_all", B.take()
    # (c) every ordered 4-tuple over {0,1,2}^3: 27^4 = 3^12 = 531441 (no symmetry argument needed)
    for n, (a, b, c, d) in enumerate(itertools.product(pts3, repeat=4)):
        B.lean("tet", "tet_grid3_all", tet_faces(a, b, c, d), n)
        if len(B.items) >= LIMIT:
            yield "tet_grid3_all", B.take()
    yield "tet_grid3_all", B.take()
    for a, b, c in itertools.product(pts3, repeat=3):
        B.add("pillow", "pillow_grid3_all", pillow(a, b, c), nframes=1, laws=True)
    for items in sampled_items(B, tier, rs, limit=100000):
        yield "sampled", items
    yield "sampled", B.take()
    composite_items(B, tier, rs)
    yield "composite", B.take()
    audit_items(B, tier, np.random.RandomState(seed() + 30303))
    yield "audit", B.take()


def companions(B, cases):
    """A flat tetrahedron has volume 0, so its first moments are not observable (no centre of mass);
    record it again together with a companion tetrahedron of volume 1/6."""
    for c in cases:
        if c["name"] == "tet_grid4_subsets" and c["exc"] == "" and c["obs"][0]["vol6"] == 0:
            B.lean("tet", "flat_tet_grid4_plus_unit_tet", c["tri"] + REF_TET, 1, nb=[4, 4])
    return B.take()


def deviation_of(c, clause):
    """Predicates of the two findings of the coverage audit (attributed only if the lead lists them in
    known_findings.jsonl; until then they are plain violations):
    TinyVolumeCentreAtOrigin   |reported volume| < tol.zero = 1e-13, no override, first failing clause is the
                               centre of mass (the implementation reports the origin instead)
    OverrideSequenceRaises     triangles.mass_properties(center_mass=<list or tuple>) raises TypeError"""
    api, _, cl = clause.rpartition(":")
    if cl == "center_mass" and not c["ovr"]:
        o = [o for o in c["obs"] if o["api"] == api]
        if o and o[0]["tiny"] and all(x == 0 for x in o[0]["cm"]):
            return "TinyVolumeCentreAtOrigin"
    if clause == "raised_TypeError" and c.get("where", "").startswith(API_TRI) \
            and c.get("where", "").endswith(("/oc_list", "/oc_tuple")):
        return "OverrideSequenceRaises"
    return None


class Tally:
    def __init__(self):
        self.n = {}
        self.sets = {}

    def add(self, key, v=1):
        self.n[key] = self.n.get(key, 0) + v

    def note(self, key, v):
        self.sets.setdefault(key, set()).add(v)


def main(argv):
    tier = tier_from_args(argv)
    V = Verdict(PROP, tier)
    import_trimesh()
    B = Builder()
    T = Tally()
    samples = []
    block_log = []
    for label, items in blocks(tier, B):
        if not items:
            continue
        cases = [c for r in pmap(run_chunk, items, chunk=500) for c in r]
        extra = companions(B, cases)
        if extra:
            more = [c for r in pmap(run_chunk, extra, chunk=500) for c in r]
            for c in more:
                c["id"] += len(cases)
            cases += more
        if len(cases) != len(items) + len(extra) or any(c["id"] != k for k, c in enumerate(cases)):
            raise MachineryError("records lost in block " + label)
        rejects, states, wall = tlc.validate_batches("c03", "MassProps", cases, CFG, timeout=1500)
        block_log.append({"block": label, "records": len(cases), "tlc_wall_s": round(wall, 1)})
        for cid, clause in sorted(rejects.items()):
            c = cases[cid]
            detail = {"name": c["name"], "family": c["fam"], "tri": c["tri"], "density": [c["dn"], c["dd"]],
                      "center_mass_override_x2": c["oc2"] if c["ovr"] else None,
                      "handed_over_as": "(tri + %s) * %d/%d" % (c["org"], c["sc"][0], c["sc"][1]),
                      "variant": c["var"], "raised_in": c.get("where", ""),
                      "obs": [{k: v for k, v in o.items() if k != "crs2" or len(v) <= 12} for o in c["obs"]]}
            detail["meaning"] = MEANING.get(clause.split(":")[-1],
                                            "reported value is not on the lattice of exact values"
                                            if "offlattice" in clause else clause)
            dev = deviation_of(c, clause)
            T.add("rejected_as_" + (dev or "unexplained"))
            T.add("rejected_in_" + (c["fam"] or "lattice_families"))
            V.violation(clause, detail, dev)
        # ---- coverage, measured on what was really recorded
        T.add("states", states)
        T.add("records", len(cases))
        T.add("rejected", len(rejects))
        T.add("tlc_wall", wall)
        for c in cases:
            T.add("laws", 1 if c["laws"] else 0)
            T.add("override", 1 if c["ovr"] else 0)
            T.note("densities", "%d/%d" % (c["dn"], c["dd"]))
            if c["fam"]:
                T.add("fam_" + c["fam"])
                T.note("scales", tuple(c["sc"]))
                T.note("origins", tuple(c["org"]))
            if c["exc"]:
                T.add("raised")
            if c["obs"]:
                v6 = c["obs"][0]["vol6"]
                T.add("nonzero" if v6 else "zero")
                T.add("negative", 1 if v6 < 0 else 0)
                if c["fam"] == "voxels":
                    T.note("voxel_faces", len(c["tri"]))
            for o in ([] if c["exc"] else c["obs"]):      # TLC judges a record that raised by that alone
                T.add("obs")
                T.add("obs_" + o["api"].split("/")[0])
                for part in o["api"].split("/")[1:]:
                    T.add("variant_" + o["api"].split("/")[0] + "/" + part)
                T.add("faces", len(o["crs2"]))
                T.add("tiny", 1 if o["tiny"] and o["vol6"] != 0 else 0)
                # (by input, for the guard: what a broken implementation reports must not empty the family)
                T.add("small_unit", 1 if c["sc"][0] * 20000 < c["sc"][1] else 0)
                T.add("xf", len(o["xf"]))
                # coverage only (not a verdict): reported doubled face areas all integers, i.e. the
                # records on which TLC's total-area clause applies
                if o["hasarea"] and all(x >= 0 and math.isqrt(x) ** 2 == x for x in o["crs2"]):
                    T.add("area_total")
                for f in o["frames"]:
                    T.add("frames")
                    # (a frame inertia is judged when the volume is not zero, or under an override by the law)
                    T.add("frames_rational_rotation", 1 if f["rd"] > 1 and o["vol6"] != 0 else 0)
                    T.add("frames_fractional_origin", 1 if f["td"] > 1 and o["vol6"] != 0 else 0)
                    if f["rd"] == 1:
                        T.note("rot", tuple(map(tuple, f["R"])))
                    else:
                        T.note("qrot", tuple(map(tuple, f["R"])))
                    T.note("frame", (tuple(map(tuple, f["R"])), f["rd"], tuple(f["t"]), f["td"]))
        small = [c for c in cases if len(c["tri"]) <= 8 and c["obs"]]
        if small and len(samples) < 4:
            samples += [small[len(small) // 3], small[-1]]
    n = T.n
    if n.get("records", 0) < 5000 or n.get("nonzero", 0) < n["records"] // 4 or n.get("negative", 0) < 100 \
            or len(T.sets.get("rot", ())) != 24 or n.get("area_total", 0) < 100 or n.get("override", 0) < 100:
        raise MachineryError("enumeration degenerate: %s" % json_counts(n))
    # the audit families must really have been exercised (an exception raised by the implementation is a
    # recorded rejection, not an observation: those records are counted in `raised`)
    need = {"fam_scaled": 500, "fam_far": 300, "fam_qframes": 300, "fam_ovrtrue": 100, "fam_containers": 300,
            "fam_histories": 300, "fam_voxels": 100, "fam_densities": 100, "small_unit": 100, "xf": 300,
            "frames_rational_rotation": 300, "frames_fractional_origin": 300}
    need.update({"variant_tri/" + v: 5 for v in TRI_VARIANTS})
    need.update({"variant_mesh/" + v: 5 for v in MESH_VARIANTS + HISTORIES})
    need.update({"variant_mesh/oc_" + v: 3 for v in OC_VARIANTS})
    need.update({"variant_tri/oc_" + v: 3 for v in OC_VARIANTS if v not in ("list", "tuple")})
    thin = {k: n.get(k, 0) for k, v in need.items() if n.get(k, 0) < v}
    # (a guard protects a clean verdict from vacuity; counts that depend on what the implementation reported
    # may be emptied by the very defect that the rejections already report)
    if V.violations:
        thin = {k: v for k, v in thin.items() if k.startswith("fam_") or k == "small_unit"}
    if thin or len(T.sets["scales"]) < len(SCALES) + 1 or len(T.sets["origins"]) < len(ORGS) + 5 \
            or len(T.sets.get("qrot", ())) != len(QROT) or max(T.sets["voxel_faces"]) < 60:
        raise MachineryError("audit families nearly empty: %s (scales %d, origins %d, rational rotations %d)"
                             % (thin, len(T.sets["scales"]), len(T.sets["origins"]), len(T.sets.get("qrot", ()))))
    grid4 = ("every 4-subset of the 64 lattice points {0..3}^3 in one vertex order (C(64,4) = 635376; each flat one "
             "again with a companion tetrahedron), both transposition pillows over every ordered triple of {0..3}^3 "
             "(2 x 4^9 = 524288, with a companion tetrahedron), every ordered 4-tuple over {0,1,2}^3 (3^12 = 531441), "
             "all 3^9 pillows over {0,1,2}^3, 120000 + 30000 seeded tetrahedra of the {0..3}^12 grid / its "
             "translates, 20000 seeded pillows, composite surfaces at 10 offsets, 4000 random pairs of tetrahedra")
    cov = {
        "states": n["states"], "transitions": n["states"],
        "traces_validated_against_impl": n["obs"],
        "records": n["records"],
        "records_per_family": B.fam,
        "audit_families": {k[4:]: v for k, v in sorted(n.items()) if k.startswith("fam_")},
        "audit_variants_observed": {k[8:]: v for k, v in sorted(n.items()) if k.startswith("variant_")},
        "audit_units_of_length": sorted("%d/%d" % x for x in T.sets["scales"]),
        "audit_origins": sorted(T.sets["origins"]),
        "audit_bodies_with_abs_volume_below_1e-13": n.get("tiny", 0),
        "audit_observations_with_unit_of_length_below_5e-5": n.get("small_unit", 0),
        "audit_transform_inertia_direct_calls": 2 * n.get("xf", 0),
        "audit_frames_rational_rotation": n.get("frames_rational_rotation", 0),
        "audit_frames_fractional_origin": n.get("frames_fractional_origin", 0),
        "audit_distinct_rational_rotations": len(T.sets.get("qrot", ())),
        "audit_voxel_solid_faces_max": max(T.sets["voxel_faces"]),
        "records_where_the_implementation_raised": n.get("raised", 0),
        "rejections_by_predicate": {k[12:]: v for k, v in sorted(n.items()) if k.startswith("rejected_as_")},
        "rejections_by_family": {k[12:]: v for k, v in sorted(n.items()) if k.startswith("rejected_in_")},
        "api_observations": {"triangles.mass_properties+triangles.area": n.get("obs_" + API_TRI, 0),
                             "Trimesh properties+moment_inertia_frame": n.get("obs_" + API_MESH, 0)},
        "face_areas_compared": n["faces"],
        "total_areas_compared": n["area_total"],
        "frame_inertias_compared": n["frames"],
        "distinct_frames": len(T.sets["frame"]),
        "distinct_rotations": len(T.sets["rot"]),
        "records_nonzero_volume": n["nonzero"], "records_negative_volume": n["negative"],
        "records_zero_volume": n.get("zero", 0),
        "records_with_center_override": n["override"],
        "densities": sorted(T.sets["densities"]),
        "records_checked_for_reference_laws": n["laws"],
        "rejected": n["rejected"],
        "blocks": block_log,
        "exhaustive": True,
        "exhaustive_scopes": (
            ["4-subsets of {0..3}^3", "transposition pillows over ({0..3}^3)^3", "ordered 4-tuples over {0,1,2}^3",
             "pillows over ({0,1,2}^3)^3", "24 rotations x 8 translations per composite surface"]
            if tier == "thorough" else
            ["tetrahedra (origin, b, c, d) with b, c, d over {0,1,2}^3", "pillows (origin, b, c) over {0,1,2}^3",
             "24 rotations x 3 translations per composite surface"]),
        "enumerated": (
            "thorough: " + grid4 if tier == "thorough" else
            "quick: all 27^3 = 19683 tetrahedra with first vertex at the origin and the other three every "
            "ordered triple over {0,1,2}^3 (both orientations, flat ones included), 729 pillows at the origin, "
            "10000 + 3000 seeded tetrahedra of the {0..3}^12 grid / its translates, 2500 seeded pillows, "
            "composite surfaces (cubes, boxes, octahedra, L-prisms, genus-1 ring, hollow / overlapping / "
            "multi-body shells, bipyramids) at 6 offsets, 600 random pairs of tetrahedra"),
        "audit_enumerated": (
            "block 'audit' (both tiers; thorough: more seeded tetrahedra, every named shape at 3 offsets / with every "
            "(origin, unit) pair): the named shapes and seeded tetrahedra handed over in %d units of length (2^-30 .. "
            "2^30, 10^-6 .. 10^6, 1/3, 7) and about %d other origins (|org| <= 128 with dyadic units, <= 16 with decimal "
            "ones); frames with the 40 rational rotations from integer quaternions of norm^2 3 / 5 and origins on the "
            "half / quarter lattice; inertia.transform_inertia called directly (3x3 / 4x4, with / without parallel "
            "axis) on every third full record of every family; symmetric shapes with the override at their true "
            "centre; %d triangle-array variants, %d mesh-construction variants, %d override containers, %d "
            "histories on one mesh object; random voxel solids in 3x3x3 / 4x4x2 / 2x3x4 grids; densities 0, 1000, "
            "4096, 7800, 1/1024, 3/1024"
            % (len(SCALES), len({o for o, _ in FAR}), len(TRI_VARIANTS), len(MESH_VARIANTS), len(OC_VARIANTS), len(HISTORIES))),
        "unisolvence_note": (
            "Summed over the four faces of a tetrahedron each of the ten integrals, as computed and as defined, "
            "is a polynomial of degree <= 3 in each of the 12 coordinates, so agreement on the tensor grid "
            "{0,1,2,3}^12 implies identity, and additivity over faces extends it to every closed surface. "
            + ("thorough covers that grid up to symmetry: the two pillow families establish on the unisolvent "
               "grid {0..3}^9 that the per-face term is alternating under the transpositions (b c) and (a b) of "
               "its vertices, hence under all of S3; the sum over the faces of a tetrahedron is then alternating "
               "in its four vertices (so is the reference), so agreement on every 4-subset of {0..3}^3 in one "
               "order implies agreement on all 4^12 ordered tuples (tuples with a repeated vertex give 0 = 0). "
               "Flat tetrahedra and pillows carry a companion tetrahedron because the implementation reports no "
               "first moments when the volume is zero."
               if tier == "thorough" else
               "quick does NOT cover that grid: it enumerates the origin slice of {0,1,2}^12 exhaustively and "
               "13000 seeded points of {0..3}^12 (and translates); it is a regression screen, the grid argument "
               "is carried by the thorough tier.")),
        "tlc_wall_s": round(n["tlc_wall"], 1),
        "samples": samples[:4],
    }
    return V.finish("model_checking", cov, assumptions=[
        "lattice coordinates in {-3..9}: the implementation's doubles are exact up to the final divisions; in the "
        "audit families the same surfaces are handed over as (S + org) * sc, |org| <= 128, sc in 2^-30 .. 2^30 and "
        "decimal factors, and read back in the lattice unit (translation covariance and homogeneity are RefLaws of "
        "the module); coordinates far from the origin relative to the size of the body (>= 1e3 x) are not "
        "enumerated: the cancellation error of the second moments grows like distance^3 and the property only "
        "says 'up to floating-point rounding'",
        "a value is accepted when within 1e-9 (relative) of the exact rational computed by TLC",
        "inertia tensor reported under a centre-of-mass override, and centre / inertia of surfaces with zero "
        "volume but non-zero moments, are not constrained (the property does not define them)",
        "total area compared only on surfaces whose faces all have integer doubled area",
    ])


def json_counts(n):
    return ", ".join("%s=%s" % kv for kv in sorted(n.items()))


if __name__ == "__main__":
    try:
        sys.exit(main(sys.argv[1:]))
    except MachineryError as e:
        print("MACHINERY-ERROR:", e)
        sys.exit(2)
