"""C03 - mass properties equal the exact integrals over the enclosed solid.

Reference semantics: spec/MassProps.tla (the ten integrals of 1, x, y, z, xx, yy, zz, xy, yz, zx
over the solid enclosed by a closed oriented lattice surface, by signed tetrahedra from the
origin in the symmetric-sum formulation, all kept as integers times 120; from them volume,
centre of mass, inertia about the centre / the origin / any frame (R, t); |cross|^2 per face).

The harness enumerates closed oriented lattice surfaces (tetrahedra in every vertex order -
hence both orientations and all flat ones -, pillows, cubes, boxes, octahedra, L-prisms, a
genus-1 ring, hollow / multi-body / overlapping shells, translated copies), densities,
centre-of-mass overrides and frames (24 cube rotations x integer translations), calls the real
  "tri":  trimesh.triangles.mass_properties(triangles, density, center_mass) + triangles.area
  "mesh": Trimesh(vertices, faces, process=False) with .density / .center_mass set, then
          .volume .mass .density .center_mass .moment_inertia .area_faces .area
          .moment_inertia_frame(T)
projects every float to an integer (value x the known denominator, rounded; residual <= 1e-9
relative, otherwise the field is reported off-lattice) and has TLC validate every record in
batch against the reference (code -> spec).  Python computes no expected value.
TLC also checks on the recorded inputs that they are closed and consistently wound
(InputSane) and the laws of the reference itself (RefLaws: reversal, translation covariance,
additivity over bodies, direct tetrahedron formula, parallel-axis + rotation law against the
definition of the frame inertia).

quick is a regression screen (origin slice of the {0,1,2}^12 grid + seeded points of
{0..3}^12 + composite surfaces); thorough covers the unisolvent grid {0..3}^12 up to symmetry
(see `unisolvence_note` in the evidence) block by block.
"""
import itertools
import math
import sys

import numpy as np

from harness import tlc
from harness.common import (MachineryError, Verdict, import_trimesh, pmap, seed,
                            tier_from_args)

PROP = "C03"
CFG = "INIT Init\nNEXT Next\nINVARIANT Report\nINVARIANT InputSane\nINVARIANT RefLaws\nCHECK_DEADLOCK FALSE\n"
API_TRI = "tri"      # trimesh.triangles.mass_properties / trimesh.triangles.area
API_MESH = "mesh"    # Trimesh.volume / mass / density / center_mass / moment_inertia / area / area_faces / moment_inertia_frame
# clause names are short because TLC wraps printed tuples longer than 80 characters (see MassProps.tla)
MEANING = {
    "volume": "volume equals the integral of 1 over the enclosed solid",
    "density_reported": "the density reported is the density given",
    "mass_density_x_volume": "mass equals density times volume",
    "center_mass_override": "an overridden centre of mass is honoured (reported back unchanged)",
    "center_mass": "centre of mass equals first moments over volume",
    "inertia_at_center_mass": "inertia tensor equals density times the second-moment integrals about the centre of mass",
    "inertia_empty_solid": "all ten integrals vanish, so the inertia tensor must be zero",
    "face_areas": "face area equals half the norm of the edge cross product",
    "area_total": "area equals the exact sum of the triangle areas",
    "frame_inertia_integral": "inertia about frame (R, t) equals the second-moment integrals in frame coordinates "
                              "(parallel-axis and rotation law)",
    "frame_inertia_reported_law": "frame inertia equals R^T (I + m M(t - c)) R of the reported I, m, c",
}

# densities dn/dd (dd a power of two: exact as a float); 1/1 on the mesh route = default left untouched
DENS = [(1, 1), (2, 1), (3, 1), (1, 2), (5, 4), (7, 1), (1, 1), (3, 2), (10, 1), (1, 4)]
# twice the overriding centre of mass (integer and half-integer centres)
OVERRIDES2 = [(0, 0, 0), (2, 2, 2), (1, 3, -2), (-3, 0, 5), (4, -4, 1), (1, 1, 1)]
FRAME_T = [(0, 0, 0), (1, 0, 0), (0, -1, 2), (2, 1, -1), (-1, -2, -3), (3, 3, 3), (0, 2, 0), (-2, 0, 1)]


def rotations():
    """The 24 proper rotations among the 48 signed permutation matrices."""
    out = []
    for perm in itertools.permutations(range(3)):
        for signs in itertools.product((1, -1), repeat=3):
            R = [[0, 0, 0] for _ in range(3)]
            for r in range(3):
                R[r][perm[r]] = signs[r]
            if round(np.linalg.det(np.array(R, dtype=float))) == 1:
                out.append(R)
    assert len(out) == 24
    return out


ROT = rotations()


# ------------------------------------------------------------------ input surfaces
def tet_faces(a, b, c, d):
    """The four faces of tetrahedron (a, b, c, d), outward when det(b-a, c-a, d-a) > 0."""
    a, b, c, d = list(a), list(b), list(c), list(d)
    return [[a, c, b], [a, b, d], [a, d, c], [b, c, d]]


def pillow(a, b, c):
    a, b, c = list(a), list(b), list(c)
    return [[a, b, c], [a, c, b]]


def shift(tri, t):
    return [[[p[0] + t[0], p[1] + t[1], p[2] + t[2]] for p in f] for f in tri]


def reverse(tri):
    return [[f[0], f[2], f[1]] for f in tri]


def voxel_surface(cells, scale=(1, 1, 1), alt=0):
    """Boundary of a union of unit cells (scaled per axis), 2 triangles per exposed cell side,
    wound outward; `alt` selects which diagonal splits each quad."""
    cells = set(cells)
    tri = []
    n = 0
    for cell in sorted(cells):
        for ax in range(3):
            for s in (1, -1):
                nb = list(cell)
                nb[ax] += s
                if tuple(nb) in cells:
                    continue
                u, v = (ax + 1) % 3, (ax + 2) % 3
                q = []
                for du, dv in ((0, 0), (1, 0), (1, 1), (0, 1)):
                    p = list(cell)
                    p[ax] += 1 if s == 1 else 0
                    p[u] += du
                    p[v] += dv
                    q.append([p[0] * scale[0], p[1] * scale[1], p[2] * scale[2]])
                if s == -1:
                    q = q[::-1]
                if (n + alt) % 2 == 0:
                    tri += [[q[0], q[1], q[2]], [q[0], q[2], q[3]]]
                else:
                    tri += [[q[0], q[1], q[3]], [q[1], q[2], q[3]]]
                n += 1
    return tri


def octahedron(r=(1, 1, 1)):
    px, nx, py, ny, pz, nz = [r[0], 0, 0], [-r[0], 0, 0], [0, r[1], 0], [0, -r[1], 0], [0, 0, r[2]], [0, 0, -r[2]]
    return [[px, py, pz], [py, nx, pz], [nx, ny, pz], [ny, px, pz],
            [py, px, nz], [nx, py, nz], [ny, nx, nz], [px, ny, nz]]


def fan_solid(ring, apex_top, apex_bot):
    """Bipyramid over a (possibly non-convex, star-shaped) ring of lattice points."""
    tri = []
    for k in range(len(ring)):
        a, b = list(ring[k]), list(ring[(k + 1) % len(ring)])
        tri.append([a, b, list(apex_top)])
        tri.append([b, a, list(apex_bot)])
    return tri


def named_shapes(tier):
    """(name, triangles, body sizes) - closed, consistently wound lattice surfaces."""
    ring = [(i, j, 0) for i in range(3) for j in range(3) if (i, j) != (1, 1)]
    full = [(i, j, k) for i in range(3) for j in range(3) for k in range(3)]
    shapes = []

    def add(name, tri, nb=None):
        shapes.append((name, tri, nb or [len(tri)]))

    add("cube", voxel_surface([(0, 0, 0)]))
    add("cube_altdiag", voxel_surface([(0, 0, 0)], alt=1))
    add("box_2x1x3", voxel_surface([(0, 0, 0)], scale=(2, 1, 3)))
    add("box_1x3x2_alt", voxel_surface([(0, 0, 0)], scale=(1, 3, 2), alt=1))
    add("octahedron", octahedron())
    add("octahedron_2_1_3", octahedron((2, 1, 3)))
    add("L_prism", voxel_surface([(0, 0, 0), (1, 0, 0), (0, 1, 0)]))
    add("L_prism_tall", voxel_surface([(0, 0, 0), (1, 0, 0), (0, 1, 0)], scale=(1, 1, 2), alt=1))
    add("torus_ring_3x3x1", voxel_surface(ring))
    add("torus_ring_scaled", voxel_surface(ring, scale=(1, 2, 1), alt=1))
    add("staircase", voxel_surface([(0, 0, 0), (1, 0, 0), (1, 1, 0), (1, 1, 1)]))
    add("edge_touching_cubes", voxel_surface([(0, 0, 0), (1, 1, 0)]))
    add("corner_touching_cubes", voxel_surface([(0, 0, 0), (1, 1, 1)]))
    c1, c2 = voxel_surface([(0, 0, 0)]), shift(voxel_surface([(0, 0, 0)], alt=1), (2, 0, 1))
    add("two_cubes_apart", c1 + c2, [12, 12])
    # overlapping shells: the overlap region is counted twice by the signed decomposition
    b1, b2 = voxel_surface([(0, 0, 0)], scale=(2, 2, 2)), shift(voxel_surface([(0, 0, 0)], scale=(2, 2, 2)), (1, 1, 1))
    add("overlapping_cubes", b1 + b2, [12, 12])
    add("coincident_shells", b1 + b1, [12, 12])
    # hollow solids: an outer shell and a reversed inner shell (cavity)
    outer = voxel_surface([(0, 0, 0)], scale=(3, 3, 3))
    inner = reverse(shift(voxel_surface([(0, 0, 0)]), (1, 1, 1)))
    add("hollow_cube_two_shells", outer + inner, [12, 12])
    add("hollow_3x3x3_voxels", voxel_surface([c for c in full if c != (1, 1, 1)]))
    t1 = tet_faces((0, 0, 0), (2, 0, 0), (0, 2, 0), (0, 0, 2))
    t2 = tet_faces((1, 1, 1), (3, 1, 2), (1, 3, 1), (2, 2, 3))
    t3 = tet_faces((0, 0, 0), (1, 0, 0), (0, 1, 0), (0, 0, 1))
    add("two_tets", t1 + t2, [4, 4])
    add("tet_in_tet_overlap", t1 + t3, [4, 4])
    add("tet_and_inverted_tet", t1 + reverse(t2), [4, 4])
    add("tet_with_cavity", tet_faces((0, 0, 0), (3, 0, 0), (0, 3, 0), (0, 0, 3))
        + reverse(shift(t3, (0, 0, 0))), [4, 4])
    add("tet_cube_pillow", t2 + c1 + pillow((0, 0, 0), (2, 1, 0), (1, 3, 2)), [4, 12, 2])
    add("inside_out_cube", reverse(c1))
    star = [(2, 0, 0), (1, 1, 0), (0, 2, 0), (-1, 1, 0), (-2, 0, 0), (-1, -1, 0), (0, -2, 0), (1, -1, 0)]
    add("star_bipyramid", fan_solid(star, (0, 0, 2), (0, 0, -1)))
    add("skew_bipyramid", fan_solid([(2, 0, 1), (0, 2, 0), (-2, 0, -1), (0, -2, 0)], (1, 1, 3), (0, -1, -2)))
    if tier == "thorough":
        add("box_3x2x1", voxel_surface([(0, 0, 0)], scale=(3, 2, 1)))
        add("plus_sign", voxel_surface([(1, 0, 0), (0, 1, 0), (1, 1, 0), (2, 1, 0), (1, 2, 0)]))
        add("slab_2x2x1", voxel_surface([(0, 0, 0), (1, 0, 0), (0, 1, 0), (1, 1, 0)], alt=1))
        add("torus_ring_tall", voxel_surface(ring, scale=(1, 1, 2)))
        add("tripod", voxel_surface([(0, 0, 0), (1, 0, 0), (0, 1, 0), (0, 0, 1)]))
        add("three_tets", t1 + t2 + shift(t3, (-2, -1, 0)), [4, 4, 4])
    return shapes


# ------------------------------------------------------------------ projection of results
class Snapper:
    """value -> round(value * K) with a residual test; the first field that is not on its
    lattice is remembered in `off` (the record is then rejected by the validator)."""

    def __init__(self):
        self.off = ""

    def try_snap(self, x, K):
        x = float(x)
        v = x * K
        if not np.isfinite(v):
            return None
        n = round(v)
        if abs(v - n) > 1e-9 * max(1.0, abs(x)) * abs(K) or abs(n) >= 2 ** 31:
            return None
        return int(n)

    def __call__(self, name, x, K):
        n = self.try_snap(x, K)
        if n is None:
            if not self.off:
                self.off = name
            return 0
        return n

    def mat(self, name, A, K):
        A = np.asarray(A, dtype=np.float64)
        if A.shape != (3, 3):
            if not self.off:
                self.off = name + "_shape"
            return [[0, 0, 0]] * 3
        return [[self(name, A[r, c], K) for c in range(3)] for r in range(3)]

    def vec(self, name, a, K, n=3):
        a = np.asarray(a, dtype=np.float64).reshape(-1)
        if n is not None and a.shape != (n,):
            if not self.off:
                self.off = name + "_shape"
            return [0] * n
        return [self(name, x, K) for x in a]


def project(sn, it, volume, mass, density, center, inertia, area_faces, area, frames):
    """Project one API's results to the integers described in MassProps.tla."""
    dn, dd = it["dn"], it["dd"]
    ovr = it["ovr"]
    o = {}
    o["vol6"] = sn("volume", volume, 6)
    o["mass6"] = sn("mass", mass, 6 * dd)
    o["dens"] = sn("density", density, dd)
    v6 = o["vol6"]
    o["ilat"] = True
    if ovr:
        o["cm"] = sn.vec("center_mass", center, 2)
        # what the inertia tensor is under an override is not decided by the property; it is
        # only used (when it happens to lie on the lattice) in the frame law on reported values
        tmp = Snapper()
        o["I"] = tmp.mat("inertia", inertia, 240 * dd)
        o["ilat"] = tmp.off == ""
    elif v6 != 0:
        o["cm"] = sn.vec("center_mass", center, 4 * v6)
        o["I"] = sn.mat("inertia", inertia, 480 * v6 * dd)
    else:
        tmp = Snapper()     # centre of an empty solid: unconstrained
        o["cm"] = tmp.vec("center_mass", center, 1)
        o["I"] = sn.mat("inertia", inertia, 120 * dd)
    o["crs2"] = [sn("area_faces", (2.0 * float(a)) ** 2, 1) for a in np.asarray(area_faces).reshape(-1)]
    # total area: only Trimesh.area reports one (triangles.area is per face)
    a2 = None if area is None else Snapper().try_snap(2.0 * float(area), 1)
    o["hasarea"] = area is not None
    o["area2ok"] = a2 is not None
    o["area2"] = a2 if a2 is not None else 0
    o["frames"] = [{"R": R, "t": list(t), "I": sn.mat("frame_inertia", F, 240 * dd)} for R, t, F in frames]
    o["off"] = sn.off
    return o


def record(trimesh, it):
    tri = it["tri"]
    dn, dd = it["dn"], it["dd"]
    rho = dn / dd
    T = np.array(tri, dtype=np.float64)
    oc = None if not it["ovr"] else np.array(it["oc2"], dtype=np.float64) / 2.0
    rec = {"id": it["id"], "exc": "", "kind": it["kind"], "name": it["name"], "tri": tri, "dn": dn, "dd": dd,
           "ovr": bool(it["ovr"]), "oc2": list(it["oc2"]), "nb": it["nb"], "lt": list(it["lt"]),
           "laws": bool(it["laws"]), "obs": []}
    raw = []
    try:
        if API_TRI in it["apis"]:
            default = (dn, dd) == (1, 1) and it["id"] % 2 == 0      # density=None must mean 1
            mp = trimesh.triangles.mass_properties(T.copy(), density=None if default else rho,
                                                   center_mass=None if oc is None else oc.copy(),
                                                   skip_inertia=False)
            af = trimesh.triangles.area(T.copy())
            raw.append((API_TRI, (mp.volume, mp.mass, mp.density, mp.center_mass, mp.inertia, af, None, [])))
        if API_MESH in it["apis"]:
            index = {}
            verts, faces = [], []
            for f in tri:
                row = []
                for p in f:
                    key = tuple(p)
                    if key not in index:
                        index[key] = len(verts)
                        verts.append(p)
                    row.append(index[key])
                faces.append(row)
            m = trimesh.Trimesh(vertices=np.array(verts, dtype=np.float64), faces=np.array(faces, dtype=np.int64),
                                process=False)
            if len(m.faces) != len(tri) or len(m.vertices) != len(verts):
                raise MachineryError("Trimesh(process=False) changed the input")
            if (dn, dd) != (1, 1) or it["id"] % 2 == 1:
                m.density = rho
            if oc is not None:
                m.center_mass = oc.copy()
            frames = []
            for ri, t in it["frames"]:
                M = np.eye(4)
                M[:3, :3] = np.array(ROT[ri], dtype=np.float64)
                M[:3, 3] = t
                frames.append((ROT[ri], t, m.moment_inertia_frame(M)))
            raw.append((API_MESH, (m.volume, m.mass, m.density, m.center_mass, m.moment_inertia,
                                   m.area_faces, m.area, frames)))
    except MachineryError:
        raise
    except Exception as e:  # noqa - the implementation raised on a valid closed surface
        rec["exc"] = type(e).__name__
        return rec
    for api, vals in raw:
        o = project(Snapper(), it, *vals)
        o["api"] = api
        rec["obs"].append(o)
    return rec


def run_chunk(items):
    trimesh = import_trimesh()
    return [record(trimesh, it) for it in items]


# ------------------------------------------------------------------ enumeration
REF_TET = tet_faces((0, 0, 0), (1, 0, 0), (0, 1, 0), (0, 0, 1))     # companion body, volume 1/6


def variants(k, nframes):
    """Density / override / frames chosen by rotating through the lists with the case index, so
    that every density, override, rotation and translation meets every family."""
    dn, dd = DENS[k % len(DENS)]
    ovr = k % 5 == 3
    oc2 = OVERRIDES2[(k // 5) % len(OVERRIDES2)] if ovr else (0, 0, 0)
    frames = [((k * 7 + 5 * j) % 24, FRAME_T[(k // 3 + 3 * j + 1) % len(FRAME_T)]) for j in range(nframes)]
    lt = FRAME_T[(k + 2) % len(FRAME_T)]
    return dn, dd, ovr, oc2, frames, lt


class Builder:
    """Collects work items; `k` (the running index over the whole run) drives the variants."""

    def __init__(self):
        self.k = 0
        self.fam = {}
        self.items = []

    def take(self):
        items, self.items = self.items, []
        return items

    def add(self, kind, name, tri, nb=None, nframes=1, laws=True, apis=(API_TRI, API_MESH), frames=None,
            force=None):
        dn, dd, ovr, oc2, fr, lt = variants(self.k, nframes)
        self.k += 1
        if force:
            dn, dd, ovr, oc2 = force
        self.items.append({"id": len(self.items), "kind": kind, "name": name, "tri": tri, "dn": dn, "dd": dd,
                           "ovr": ovr, "oc2": oc2, "frames": fr if frames is None else frames,
                           "nb": nb or [len(tri)], "lt": lt, "laws": laws, "apis": apis})
        self.fam[name] = self.fam.get(name, 0) + 1

    def lean(self, kind, name, tri, n, nb=None, every=16):
        """Bulk families: the triangle-level API only, every `every`-th record in full
        (mesh route, a frame, laws of the reference)."""
        if n % every == 0:
            self.add(kind, name, tri, nb=nb, nframes=1, laws=True)
        else:
            self.add(kind, name, tri, nb=nb, nframes=0, laws=False, apis=(API_TRI,),
                     force=(1, 1, False, (0, 0, 0)) if n % 2 else None)


def composite_items(B, tier, rs):
    """(iii) composite closed surfaces, translated copies, every rotation x translation."""
    big = tier == "thorough"
    shapes = named_shapes(tier)
    offsets = [(0, 0, 0), (1, 0, 0), (-1, -2, 0), (0, 1, -3), (-2, -1, -1), (2, 2, 1)]
    if big:
        offsets += [(-3, 0, 0), (0, -3, 2), (1, -1, 1), (-1, -1, -2)]
    for name, tri, nb in shapes:
        for off in offsets:
            for _ in range(6 if big else 2):
                B.add("surface", name, shift(tri, off), nb=nb, nframes=4 if big else 2)
        # every rotation x translation once per shape (unit density, no override)
        base = shift(tri, offsets[1])
        allfr = [(ri, t) for ri in range(24) for t in (FRAME_T if big else FRAME_T[:3])]
        for k in range(0, len(allfr), 12):
            B.add("surface", name, base, nb=nb, frames=allfr[k:k + 12], force=(1, 1, False, (0, 0, 0)),
                  apis=(API_MESH,), laws=(k == 0))
    # two random tetrahedra as one surface (several bodies, possibly overlapping / cancelling)
    npair = 4000 if big else 600
    P = rs.randint(0, 4, size=(npair, 8, 3))
    for n in range(npair):
        q = P[n].tolist()
        B.add("surface", "two_random_tets", tet_faces(*q[:4]) + tet_faces(*q[4:]), nb=[4, 4], nframes=2)


def sampled_items(B, tier, rs, limit=None):
    """Seeded samples; a generator that hands out a block whenever `limit` items are pending."""
    big = tier == "thorough"
    nsamp = 120000 if big else 10000
    P = rs.randint(0, 4, size=(nsamp, 4, 3))
    for n in range(nsamp):
        a, b, c, d = P[n].tolist()
        B.add("tet", "tet_grid4_sampled", tet_faces(a, b, c, d), nframes=1, laws=(not big or n % 8 == 0))
        if limit and len(B.items) >= limit:
            yield B.take()
    nsamp = 30000 if big else 3000
    P = rs.randint(0, 4, size=(nsamp, 4, 3)) + rs.randint(-3, 4, size=(nsamp, 1, 3))
    for n in range(nsamp):
        a, b, c, d = P[n].tolist()
        B.add("tet", "tet_grid4_translated", tet_faces(a, b, c, d), nframes=2, laws=(not big or n % 8 == 0))
        if limit and len(B.items) >= limit:
            yield B.take()
    nsamp = 20000 if big else 2500
    P = rs.randint(0, 4, size=(nsamp, 3, 3)) + rs.randint(-2, 3, size=(nsamp, 1, 3))
    for n in range(nsamp):
        a, b, c = P[n].tolist()
        B.add("pillow", "pillow_grid4_sampled", pillow(a, b, c), nframes=1, laws=(not big or n % 4 == 0))
        if limit and len(B.items) >= limit:
            yield B.take()


def blocks(tier, B):
    """Yields (label, items); each block is recorded and validated on its own (bounded memory)."""
    rs = np.random.RandomState(seed() + 303)
    pts3 = [list(p) for p in itertools.product(range(3), repeat=3)]
    pts4 = [list(p) for p in itertools.product(range(4), repeat=3)]
    if tier != "thorough":
        # first vertex at the origin, the other three every ordered triple from {0,1,2}^3: 27^3
        for b, c, d in itertools.product(pts3, repeat=3):
            B.add("tet", "tet_grid3_origin", tet_faces([0, 0, 0], b, c, d), nframes=1)
        for b, c in itertools.product(pts3, repeat=2):
            B.add("pillow", "pillow_grid3_origin", pillow([0, 0, 0], b, c), nframes=1)
        for _ in sampled_items(B, tier, rs):
            pass
        composite_items(B, tier, rs)
        yield "quick", B.take()
        return
    LIMIT = 140000
    # (a) every 4-subset of {0..3}^3 in one fixed vertex order: C(64,4) = 635376
    for n, (a, b, c, d) in enumerate(itertools.combinations(pts4, 4)):
        B.lean("tet", "tet_grid4_subsets", tet_faces(a, b, c, d), n)
        if len(B.items) >= LIMIT:
            yield "tet_grid4_subsets", B.take()
    yield "tet_grid4_subsets", B.take()
    # (b) pillows over every ordered triple of {0..3}^3 (4^9 = 262144), reversed face starting at the
    #     same vertex / written as the transposition of the first two vertices; with a companion
    #     tetrahedron so that the first moments stay observable (centre of mass needs volume # 0)
    for variant in (0, 1):
        for n, (a, b, c) in enumerate(itertools.product(pts4, repeat=3)):
            second = [a, c, b] if variant == 0 else [b, a, c]
            B.lean("pillow", "pillow_grid4_all_v%d" % variant, [[a, b, c], second] + REF_TET, n, nb=[2, 4])
            if len(B.items) >= LIMIT:
                yield "pillow_grid4_all", B.take()
    yield "pillow_grid4_all", B.take()
    # (c) every ordered 4-tuple over {0,1,2}^3: 27^4 = 3^12 = 531441 (no symmetry argument needed)
    for n, (a, b, c, d) in enumerate(itertools.product(pts3, repeat=4)):
        B.lean("tet", "tet_grid3_all", tet_faces(a, b, c, d), n)
        if len(B.items) >= LIMIT:
            yield "tet_grid3_all", B.take()
    yield "tet_grid3_all", B.take()
    for a, b, c in itertools.product(pts3, repeat=3):
        B.add("pillow", "pillow_grid3_all", pillow(a, b, c), nframes=1, laws=True)
    for items in sampled_items(B, tier, rs, limit=100000):
        yield "sampled", items
    yield "sampled", B.take()
    composite_items(B, tier, rs)
    yield "composite", B.take()


def companions(B, cases):
    """A flat tetrahedron has volume 0, so its first moments are not observable (no centre of mass);
    record it again together with a companion tetrahedron of volume 1/6."""
    for c in cases:
        if c["name"] == "tet_grid4_subsets" and c["exc"] == "" and c["obs"][0]["vol6"] == 0:
            B.lean("tet", "flat_tet_grid4_plus_unit_tet", c["tri"] + REF_TET, 1, nb=[4, 4])
    return B.take()


class Tally:
    def __init__(self):
        self.n = {}
        self.sets = {}

    def add(self, key, v=1):
        self.n[key] = self.n.get(key, 0) + v

    def note(self, key, v):
        self.sets.setdefault(key, set()).add(v)


def main(argv):
    tier = tier_from_args(argv)
    V = Verdict(PROP, tier)
    import_trimesh()
    B = Builder()
    T = Tally()
    samples = []
    block_log = []
    for label, items in blocks(tier, B):
        if not items:
            continue
        cases = [c for r in pmap(run_chunk, items, chunk=500) for c in r]
        extra = companions(B, cases)
        if extra:
            more = [c for r in pmap(run_chunk, extra, chunk=500) for c in r]
            for c in more:
                c["id"] += len(cases)
            cases += more
        if len(cases) != len(items) + len(extra) or any(c["id"] != k for k, c in enumerate(cases)):
            raise MachineryError("records lost in block " + label)
        rejects, states, wall = tlc.validate_batches("c03", "MassProps", cases, CFG, timeout=1500)
        block_log.append({"block": label, "records": len(cases), "tlc_wall_s": round(wall, 1)})
        for cid, clause in sorted(rejects.items()):
            c = cases[cid]
            detail = {"name": c["name"], "tri": c["tri"], "density": [c["dn"], c["dd"]],
                      "center_mass_override_x2": c["oc2"] if c["ovr"] else None,
                      "obs": [{k: v for k, v in o.items() if k != "crs2" or len(v) <= 12} for o in c["obs"]]}
            detail["meaning"] = MEANING.get(clause.split(":")[-1],
                                            "reported value is not on the lattice of exact values"
                                            if "offlattice" in clause else clause)
            V.violation(clause, detail)
        # ---- coverage, measured on what was really recorded
        T.add("states", states)
        T.add("records", len(cases))
        T.add("rejected", len(rejects))
        T.add("tlc_wall", wall)
        for c in cases:
            T.add("laws", 1 if c["laws"] else 0)
            T.add("override", 1 if c["ovr"] else 0)
            T.note("densities", "%d/%d" % (c["dn"], c["dd"]))
            if c["obs"]:
                v6 = c["obs"][0]["vol6"]
                T.add("nonzero" if v6 else "zero")
                T.add("negative", 1 if v6 < 0 else 0)
            for o in c["obs"]:
                T.add("obs")
                T.add("obs_" + o["api"])
                T.add("faces", len(o["crs2"]))
                # coverage only (not a verdict): reported doubled face areas all integers, i.e. the
                # records on which TLC's total-area clause applies
                if o["hasarea"] and all(x >= 0 and math.isqrt(x) ** 2 == x for x in o["crs2"]):
                    T.add("area_total")
                for f in o["frames"]:
                    T.add("frames")
                    T.note("rot", tuple(map(tuple, f["R"])))
                    T.note("frame", (tuple(map(tuple, f["R"])), tuple(f["t"])))
        small = [c for c in cases if len(c["tri"]) <= 8 and c["obs"]]
        if small and len(samples) < 4:
            samples += [small[len(small) // 3], small[-1]]
    n = T.n
    if n.get("records", 0) < 5000 or n.get("nonzero", 0) < n["records"] // 4 or n.get("negative", 0) < 100 \
            or len(T.sets.get("rot", ())) != 24 or n.get("area_total", 0) < 100 or n.get("override", 0) < 100:
        raise MachineryError("enumeration degenerate: %s" % json_counts(n))
    grid4 = ("every 4-subset of the 64 lattice points {0..3}^3 in one vertex order (C(64,4) = 635376; each flat one "
             "again with a companion tetrahedron), both transposition pillows over every ordered triple of {0..3}^3 "
             "(2 x 4^9 = 524288, with a companion tetrahedron), every ordered 4-tuple over {0,1,2}^3 (3^12 = 531441), "
             "all 3^9 pillows over {0,1,2}^3, 120000 + 30000 seeded tetrahedra of the {0..3}^12 grid / its "
             "translates, 20000 seeded pillows, composite surfaces at 10 offsets, 4000 random pairs of tetrahedra")
    cov = {
        "states": n["states"], "transitions": n["states"],
        "traces_validated_against_impl": n["obs"],
        "records": n["records"],
        "records_per_family": B.fam,
        "api_observations": {"triangles.mass_properties+triangles.area": n.get("obs_" + API_TRI, 0),
                             "Trimesh properties+moment_inertia_frame": n.get("obs_" + API_MESH, 0)},
        "face_areas_compared": n["faces"],
        "total_areas_compared": n["area_total"],
        "frame_inertias_compared": n["frames"],
        "distinct_frames": len(T.sets["frame"]),
        "distinct_rotations": len(T.sets["rot"]),
        "records_nonzero_volume": n["nonzero"], "records_negative_volume": n["negative"],
        "records_zero_volume": n.get("zero", 0),
        "records_with_center_override": n["override"],
        "densities": sorted(T.sets["densities"]),
        "records_checked_for_reference_laws": n["laws"],
        "rejected": n["rejected"],
        "blocks": block_log,
        "exhaustive": True,
        "exhaustive_scopes": (
            ["4-subsets of {0..3}^3", "transposition pillows over ({0..3}^3)^3", "ordered 4-tuples over {0,1,2}^3",
             "pillows over ({0,1,2}^3)^3", "24 rotations x 8 translations per composite surface"]
            if tier == "thorough" else
            ["tetrahedra (origin, b, c, d) with b, c, d over {0,1,2}^3", "pillows (origin, b, c) over {0,1,2}^3",
             "24 rotations x 3 translations per composite surface"]),
        "enumerated": (
            "thorough: " + grid4 if tier == "thorough" else
            "quick: all 27^3 = 19683 tetrahedra with first vertex at the origin and the other three every "
            "ordered triple over {0,1,2}^3 (both orientations, flat ones included), 729 pillows at the origin, "
            "10000 + 3000 seeded tetrahedra of the {0..3}^12 grid / its translates, 2500 seeded pillows, "
            "composite surfaces (cubes, boxes, octahedra, L-prisms, genus-1 ring, hollow / overlapping / "
            "multi-body shells, bipyramids) at 6 offsets, 600 random pairs of tetrahedra"),
        "unisolvence_note": (
            "Summed over the four faces of a tetrahedron each of the ten integrals, as computed and as defined, "
            "is a polynomial of degree <= 3 in each of the 12 coordinates, so agreement on the tensor grid "
            "{0,1,2,3}^12 implies identity, and additivity over faces extends it to every closed surface. "
            + ("thorough covers that grid up to symmetry: the two pillow families establish on the unisolvent "
               "grid {0..3}^9 that the per-face term is alternating under the transpositions (b c) and (a b) of "
               "its vertices, hence under all of S3; the sum over the faces of a tetrahedron is then alternating "
               "in its four vertices (so is the reference), so agreement on every 4-subset of {0..3}^3 in one "
               "order implies agreement on all 4^12 ordered tuples (tuples with a repeated vertex give 0 = 0). "
               "Flat tetrahedra and pillows carry a companion tetrahedron because the implementation reports no "
               "first moments when the volume is zero."
               if tier == "thorough" else
               "quick does NOT cover that grid: it enumerates the origin slice of {0,1,2}^12 exhaustively and "
               "13000 seeded points of {0..3}^12 (and translates); it is a regression screen, the grid argument "
               "is carried by the thorough tier.")),
        "tlc_wall_s": round(n["tlc_wall"], 1),
        "samples": samples[:4],
    }
    return V.finish("model_checking", cov, assumptions=[
        "lattice coordinates in {-3..9}: the implementation's doubles are exact up to the final divisions",
        "a value is accepted when within 1e-9 (relative) of the exact rational computed by TLC",
        "inertia tensor reported under a centre-of-mass override, and centre / inertia of surfaces with zero "
        "volume but non-zero moments, are not constrained (the property does not define them)",
        "total area compared only on surfaces whose faces all have integer doubled area",
    ])


def json_counts(n):
    return ", ".join("%s=%s" % kv for kv in sorted(n.items()))


if __name__ == "__main__":
    try:
        sys.exit(main(sys.argv[1:]))
    except MachineryError as e:
        print("MACHINERY-ERROR:", e)
        sys.exit(2)
