"""C11 - plane sections lie on plane and surface; slices partition the solid.

Reference semantics: spec/Section.tla (exact signs of the vertices against an integer plane,
exact Sutherland-Hodgman clip polygon of every triangle with rational crossing points, point in
triangle by exact barycentric signs, vector areas, signed cone volumes with the closing cap taken
from the divergence theorem, watertightness by edge counting).

code -> spec: Python enumerates (mesh, plane) pairs - lattice tetrahedron, cube, octahedron,
L-shaped prism (non-convex), slab with a square through-hole (genus 1), two disjoint bodies x
all normals in {-1,0,1}^3 \\ 0 and a few skew ones x every lattice / half-lattice offset that
touches, cuts or just misses the mesh (all 27 sign patterns of a triangle incl. vertex-on-plane,
edge-in-plane, face-in-plane) - calls the real trimesh.intersections.mesh_plane /
mesh_multiplane, Trimesh.section / section_multiplane, slice_mesh_plane / Trimesh.slice_plane
with cap=False and cap=True for every importable triangulation engine, face subsets and plane
pairs, snaps every returned float to a rational (Fraction.limit_denominator, residual <= 1e-9;
unsnappable -> the record is marked off-lattice and rejected), rescales the record to integers
over its common denominator and has TLC validate every record against the reference.
Python computes no expected value; the face index it attaches to an output triangle is only a
hint that TLC verifies (and replaces by a search over all faces when it does not hold).

Audit extension (same reference, more of the quantified domain):
  * further mesh classes (EXTRA_ORDER): open surfaces (box without lid, tent), an unmerged triangle soup, a mesh
    with unreferenced vertices, a solid with an internal cavity, a body nested in the cavity of another (section
    polygons nested two deep), four disjoint bodies, a convex solid with collinear boundary vertices (subdivided
    cube, 48 faces), and textured meshes (uv carried through the slicer);
  * capped slicing by TWO planes (kind "capm": the halves of the capped half of p1 by p2 add up to the exact
    volume of that half; pieces of convex solids are watertight), plane pairs with a face subset;
  * magnitudes: the same records for meshes scaled by 2^10 / 2^-10 / 2^-14 and translated by up to 1e4 (the harness maps
    the results back with the exact inverse, the reference sees the lattice mesh);
  * call styles: lists / tuples / integer / float32 arrays for normals and origins, list / int32 face subsets,
    engine=None (default engine), return_faces=False, process=True, unsorted heights with a duplicate;
  * the Path returned by section / section_multiplane must consist of closed entities in general position.
"""
import importlib
import itertools
import math
import os
import sys
from fractions import Fraction

import numpy as np

from harness import tlc
from harness.common import (MachineryError, Verdict, import_trimesh, pmap, seed,
                            tier_from_args)

PROP = "C11"
CFG = "INIT Init\nNEXT Next\nINVARIANT Report\nINVARIANT RefSane\nCHECK_DEADLOCK FALSE\n"
DMAX = 256          # largest denominator a returned coordinate may snap to (single plane: true bound is 24)
DMAX_PAIR = 4096    # two successive planes multiply the denominators
KMAX = 1000         # largest common denominator of one record (quadratic terms in TLC's 32-bit integers)
ROUND = 24000       # records per round of batch validation (1500 per TLC shard)
KCAP = 128          # capped slices (cubic terms in TLC) only where the crossings' denominators stay below this
TOL = 1e-9
ENGINE_MODULES = (("earcut", "mapbox_earcut"), ("triangle", "triangle"), ("manifold", "manifold3d"))
EXTRA_NORMALS = [(1, 2, 0), (1, 1, 2), (2, -1, 1), (0, 1, -2)]
# exact in binary floating point: power-of-two scales, integer translations (the results are mapped back exactly)
# small absolute scales: a 2 mm and a 0.1 mm part modelled in metres (cut faces of 4e-6 and 1e-8 square units: every
# absolute area / length threshold on the way to the cap is far above them)
MOVES = [(2.0 ** -10, (0, 0, 0)), (2.0 ** -14, (0, 0, 0)), (1.0, (1000, -2000, 500)), (1.0, (10000, 10000, -10000)),
         (1024.0, (3, 5, -7))]


class OffLattice(Exception):
    pass


# ------------------------------------------------------------------------ seeds
def _prism(poly, tris, h):
    """Extrude a CCW polygon triangulation from z=0 to z=h: bottom (facing -z) and top faces."""
    n = len(poly)
    V = [(x, y, 0) for x, y in poly] + [(x, y, h) for x, y in poly]
    F = []
    for a, b, c in tris:
        F.append((a, c, b))
        F.append((a + n, b + n, c + n))
    return V, F, n


def _wall(F, n, i, j, flip=False):
    a, b = (j, i) if flip else (i, j)
    F.append((a, b, b + n))
    F.append((a, b + n, a + n))


def seeds():
    """name -> (lattice vertices, faces); all closed, consistently wound, outward (checked by TLC)."""
    out = {}
    tet_f = [(0, 2, 1), (0, 1, 3), (1, 2, 3), (2, 0, 3)]
    out["tet"] = ([(0, 0, 0), (2, 0, 0), (0, 2, 0), (0, 0, 2)], tet_f)
    sq = [(0, 0), (2, 0), (2, 2), (0, 2)]
    V, F, n = _prism(sq, [(0, 1, 2), (0, 2, 3)], 2)
    for i in range(4):
        _wall(F, n, i, (i + 1) % 4)
    out["cube"] = (V, F)
    out["octa"] = ([(0, 1, 1), (2, 1, 1), (1, 0, 1), (1, 2, 1), (1, 1, 0), (1, 1, 2)],
                   [(1, 3, 5), (3, 0, 5), (0, 2, 5), (2, 1, 5), (3, 1, 4), (0, 3, 4), (2, 0, 4), (1, 2, 4)])
    poly = [(0, 0), (2, 0), (2, 1), (1, 1), (1, 2), (0, 2)]
    V, F, n = _prism(poly, [(0, 1, 2), (0, 2, 3), (0, 3, 4), (0, 4, 5)], 1)
    for i in range(6):
        _wall(F, n, i, (i + 1) % 6)
    out["lprism"] = (V, F)
    outer = [(0, 0), (3, 0), (3, 3), (0, 3)]
    inner = [(1, 1), (2, 1), (2, 2), (1, 2)]
    tris = []
    for i in range(4):
        j = (i + 1) % 4
        tris += [(i, j, 4 + j), (i, 4 + j, 4 + i)]
    V, F, n = _prism(outer + inner, tris, 1)
    for i in range(4):
        _wall(F, n, i, (i + 1) % 4)
    for i in range(4):
        _wall(F, n, 4 + i, 4 + (i + 1) % 4, flip=True)
    out["hole"] = (V, F)
    usq = [(0, 0), (1, 0), (1, 1), (0, 1)]
    V, F, n = _prism(usq, [(0, 1, 2), (0, 2, 3)], 1)
    for i in range(4):
        _wall(F, n, i, (i + 1) % 4)
    V = V + [(2, 1, 1), (3, 1, 1), (2, 2, 1), (2, 1, 2)]
    F = F + [(8 + a, 8 + b, 8 + c) for a, b, c in tet_f]
    out["two"] = (V, F)
    # 5x4x1 slab with a U-shaped (concave) through-hole: the vertex mean of the hole ring, (2.5, 2.25), lies in
    # the material tongue [2,3]x[2,3], so an engine that seeds the hole at that mean carves the wrong region
    outer = [(0, 0), (5, 0), (5, 4), (0, 4)]
    inner = [(1, 1), (4, 1), (4, 3), (3, 3), (3, 2), (2, 2), (2, 3), (1, 3)]
    tris = [(0, 4, 11), (10, 9, 8), (10, 8, 7), (5, 4, 0), (5, 0, 1), (5, 1, 2), (3, 0, 11), (3, 11, 10),
            (3, 10, 7), (3, 7, 6), (6, 5, 2), (6, 2, 3)]
    V, F, n = _prism(outer + inner, tris, 1)
    for i in range(4):
        _wall(F, n, i, (i + 1) % 4)
    for i in range(8):
        _wall(F, n, 4 + i, 4 + (i + 1) % 8, flip=True)
    out["uhole"] = (V, F)
    out.update(extra_seeds(out["cube"]))
    return {k: ([list(v) for v in V], [list(f) for f in F]) for k, (V, F) in out.items()}


def _box(cube, lo, hi, flip=False):
    V, F = cube
    Vb = [tuple(lo[k] + (v[k] // 2) * (hi[k] - lo[k]) for k in range(3)) for v in V]
    return Vb, [tuple(reversed(f)) if flip else tuple(f) for f in F]


def _cat(parts):
    V, F = [], []
    for Vp, Fp in parts:
        F += [tuple(i + len(V) for i in f) for f in Fp]
        V += list(Vp)
    return V, F


def extra_seeds(cube):
    """Mesh classes beyond closed lattice solids with merged vertices (audit extension)."""
    out = {}
    V, F = cube
    lid = [k for k, f in enumerate(F) if all(V[i][2] == 2 for i in f)]
    out["openbox"] = (list(V), [f for k, f in enumerate(F) if k not in lid])
    out["tent"] = ([(0, 0, 0), (2, 0, 0), (2, 2, 0), (0, 2, 0), (1, 1, 2)], [(0, 1, 4), (1, 2, 4), (2, 3, 4), (3, 0, 4)])
    out["soup"] = ([V[i] for f in F for i in f], [(3 * k, 3 * k + 1, 3 * k + 2) for k in range(len(F))])
    out["unref"] = ([(1, 1, 1)] + list(V) + [(1, 0, 2)], [tuple(i + 1 for i in f) for f in F])
    out["cavity"] = _cat([_box(cube, (0, 0, 0), (3, 3, 3)), _box(cube, (1, 1, 1), (2, 2, 2), True)])
    out["nested"] = _cat([_box(cube, (0, 0, 0), (5, 5, 5)), _box(cube, (1, 1, 1), (4, 4, 4), True),
                          _box(cube, (2, 2, 2), (3, 3, 3))])
    out["grid4"] = _cat([_box(cube, (x, y, 0), (x + 1, y + 1, 1)) for x in (0, 2) for y in (0, 2)])
    # every face of the 2-cube split in four at its edge midpoints: convex, with collinear boundary vertices
    SV, SF, idx = [], [], {}

    def vid(p):
        if p not in idx:
            idx[p] = len(SV)
            SV.append(p)
        return idx[p]
    for f in F:
        a, b, c = (tuple(V[i]) for i in f)
        ab, bc, ca = (tuple((p[k] + q[k]) // 2 for k in range(3)) for p, q in ((a, b), (b, c), (c, a)))
        for t in ((a, ab, ca), (ab, b, bc), (ca, bc, c), (ab, bc, ca)):
            SF.append(tuple(vid(p) for p in t))
    out["subcube"] = (SV, SF)
    return out


def with_rotations(base):
    """Every seed in three presentations: face k listed from its corner (k + r) mod 3, r = 0, 1, 2 (the same
    oriented surface; the code's index juggling sees the cut corner in every position of the face row)."""
    out = {}
    for name, (V, F) in base.items():
        for r in range(3):
            out["%s/r%d" % (name, r)] = (V, [[f[(j + k + r) % 3] for j in range(3)] for k, f in enumerate(F)])
    return out


BASE_ORDER = ["tet", "cube", "octa", "lprism", "hole", "two", "uhole"]
SEEDS = with_rotations(seeds())
SEED_ORDER = ["%s/r%d" % (n, r) for n in BASE_ORDER for r in range(3)]
EXTRA_ORDER = ["openbox", "tent", "soup", "unref", "cavity", "nested", "grid4", "subcube"]
SEED_ORDER += ["%s/r%d" % (n, r) for n in EXTRA_ORDER for r in range(3)]
NOT_SOLID = ("openbox", "tent", "soup")             # not closed by edge counting (TLC checks the claim "solid")
# only used to name a deviation; TLC decides convexity itself
NONCONVEX = ("lprism", "hole", "two", "uhole", "cavity", "nested", "grid4")
KCAP_SEED = {"nested": 32}                          # coordinates up to 5: cubic terms need a coarser grid
UV_MAP = np.array([[0.25, 0.125, 0.0625], [0.0625, -0.125, 0.25]])      # texture coordinates of the textured variants


def normals_all():
    base = [n for n in itertools.product((-1, 0, 1), repeat=3) if any(n)]
    return base + EXTRA_NORMALS + [tuple(-x for x in n) for n in EXTRA_NORMALS[:2]]


# gently tilted planes that stay inside the U-hole slab over the whole hole: the section is a ring whose
# interior loop is the concave hole, cut in general position (half-lattice offsets)
TILTED = [(0, 1, 4), (1, 0, 4), (0, -1, -4), (-1, 0, -4)]
UHOLE_QUICK = [n for n in itertools.product((-1, 0, 1), repeat=3) if sum(map(abs, n)) == 1] + TILTED + \
    [(1, 1, 1), (1, -1, 0), (0, 1, 1), (-1, 0, 1), (1, 2, 0), (1, 1, 2), (0, 1, -2), (-1, -1, -2)]


def normals_for(base, tier):
    if base != "uhole":
        return normals_all()
    return UHOLE_QUICK if tier != "thorough" else normals_all() + TILTED


def positive_rep(n):
    """one normal of each +/- pair (opposite slices are recorded together)"""
    return next(x for x in n if x) > 0


def offsets(V, n):
    d = [2 * (n[0] * v[0] + n[1] * v[1] + n[2] * v[2]) for v in V]
    return list(range(min(d) - 1, max(d) + 2))


_BOX = list(itertools.product(range(-3, 10), repeat=3))


def origin_for(n, c2, rs):
    """a doubled origin O2 (integer triple, o = O2/2 lattice or half-lattice) with n.O2 = c2"""
    cand = [p for p in _BOX if n[0] * p[0] + n[1] * p[1] + n[2] * p[2] == c2]
    if not cand:
        cand = [p for p in itertools.product(range(-30, 31), repeat=3)
                if n[0] * p[0] + n[1] * p[1] + n[2] * p[2] == c2][:50]
    return cand[rs.randint(len(cand))]


def normal_variant(n, k):
    n = np.array(n, dtype=np.float64)
    if k == 0:
        return n
    if k == 1:
        return n / np.linalg.norm(n)
    return n * 3.0


# ------------------------------------------------------------------- projection
_fc = {}


def frac(x, dmax=DMAX):
    r = _fc.get((x, dmax))
    if r is None:
        try:
            fr = Fraction(x).limit_denominator(dmax)
        except (ValueError, OverflowError):
            raise OffLattice("not_finite")
        if abs(float(fr) - x) > TOL * max(1.0, abs(x)):
            raise OffLattice("residual")
        if abs(x) > 1000.0:
            raise OffLattice("out_of_range")
        r = _fc[(x, dmax)] = (fr.numerator, fr.denominator)
    return r


def to_grid(arrays, dmax=DMAX):
    """Snap float arrays to rationals and rescale all of them to integers over one common
    denominator K.  Returns (K, list of nested int lists)."""
    fr = [[frac(float(x), dmax) for x in np.asarray(a, dtype=np.float64).ravel()] for a in arrays]
    K = 1
    for row in fr:
        for _, d in row:
            if K % d:
                K = K * d // math.gcd(K, d)
    if K > KMAX:
        raise OffLattice("denominator")
    out = []
    for a, row in zip(arrays, fr):
        vals = np.array([nu * (K // d) for nu, d in row], dtype=np.int64).reshape(np.shape(a))
        out.append(vals.tolist())
    return K, out


def face_hints(Vf, F, ov, of):
    """For every output triangle the first input face containing its centroid (same plane, inside,
    not reversed); -1 when there is none.  Only a witness: TLC verifies it and searches otherwise."""
    if len(of) == 0:
        return []
    T = np.asarray(ov, dtype=np.float64)[np.asarray(of)]
    C = T.mean(axis=1)
    TN = np.cross(T[:, 1] - T[:, 0], T[:, 2] - T[:, 0])
    A, B, D = Vf[F[:, 0]], Vf[F[:, 1]], Vf[F[:, 2]]
    N = np.cross(B - A, D - A)
    ok = np.abs(np.einsum("tfk,fk->tf", C[:, None, :] - A[None], N)) < 1e-7
    for P, Q in ((A, B), (B, D), (D, A)):
        cr = np.cross((Q - P)[None], C[:, None, :] - P[None])
        ok &= np.einsum("tfk,fk->tf", cr, N) >= -1e-7
    ok &= np.einsum("tk,fk->tf", TN, N) >= -1e-9
    return [int(np.argmax(r)) if r.any() else -1 for r in ok]


def explode(path, lift=None):
    """Path -> (m, 2, 3) segments (consecutive points of every entity's polyline)."""
    segs = []
    if path is None:
        return np.zeros((0, 2, 3))
    for e in path.entities:
        pts = np.asarray(e.discrete(path.vertices), dtype=np.float64)
        if lift is not None:
            pts = lift(pts)
        for a, b in zip(pts[:-1], pts[1:]):
            segs.append((a, b))
    return np.array(segs, dtype=np.float64).reshape((-1, 2, 3))


def lifter(T):
    T = np.asarray(T, dtype=np.float64)

    def f(p2):
        p = np.column_stack((p2[:, :2], np.zeros(len(p2)), np.ones(len(p2))))
        return (T @ p.T).T[:, :3]
    return f


EMPTY_OUT = {"v": [], "f": [], "src": []}


def base_record(kind, name, planes, sub, **desc):
    V, F = SEEDS[name]
    return {"kind": kind, "seed": name, "V": V, "F": F, "solid": name.split("/")[0] not in NOT_SOLID, "K": 1, "off": "", "exc": "",
            "planes": [{"n": list(n), "c2": int(c2)} for n, c2 in planes],
            "sub": list(range(len(F))) if sub is None else [int(s) for s in sub],
            "desc": dict(desc, seed=name)}


def guarded(rec, fn):
    try:
        fn(rec)
    except OffLattice as e:
        rec["off"] = str(e)
    except MachineryError:
        raise
    except BaseException as e:  # noqa: the real call raised
        rec["exc"] = type(e).__name__
    return rec


# ---------------------------------------------------------------------- records
class Ctx:
    """How one (mesh, plane) pair is presented to trimesh: the mesh (possibly scaled / translated / textured), the
    exact inverse of the move, and the call style (container / dtype of the plane arguments and of face subsets)."""

    def __init__(self, mesh, move=None, style=0, tex=False):
        self.mesh, self.move, self.style, self.tex = mesh, move, style, tex
        # the path module merges vertices closer than tol_path.merge = 1e-5 in absolute units: below this scale
        # that tolerance would decide which section vertices coincide, so the Path (not the segments of mesh_plane /
        # mesh_multiplane, not the slices and caps) is left unjudged there
        self.path_ok = move is None or move[0] >= 2.0 ** -7

    def fwd(self, p):
        p = np.asarray(p, dtype=np.float64)
        if self.move is None:
            return p
        s, t = self.move
        return (p + np.asarray(t, dtype=np.float64)) * s

    def back(self, p):
        p = np.asarray(p, dtype=np.float64)
        if self.move is None or p.size == 0:
            return p
        s, t = self.move
        return p / s - np.asarray(t, dtype=np.float64)

    def length(self, h):
        return h if self.move is None else h * self.move[0]

    def arg(self, x, integral_ok=True):
        """the (n, 3) or (3,) float64 array x in the container / dtype of this style (value preserving)"""
        x = np.asarray(x, dtype=np.float64)
        if self.style == 1:
            return x.tolist()
        if self.style == 2:
            return tuple(map(tuple, x.tolist())) if x.ndim == 2 else tuple(x.tolist())
        if self.style == 3:
            if integral_ok and np.all(x == np.rint(x)) and np.abs(x).max() < 2 ** 31:
                return x.astype(np.int64)
            if np.all(x.astype(np.float32).astype(np.float64) == x):
                return x.astype(np.float32)
        return x

    def faces(self, sub):
        if sub is None:
            return None
        if self.style == 1:
            return [int(i) for i in sub]
        if self.style == 3:
            return np.array(sub, dtype=np.int32)
        return np.array(sub, dtype=np.int64)

    def desc(self):
        d = {"style": ("float64 arrays", "lists", "tuples", "int64/float32 arrays")[self.style]}
        if self.move is not None:
            d["scale"], d["translation"] = self.move[0], list(self.move[1])
        if self.tex:
            d["textured"] = True
        return d


def open_entities(path):
    """number of entities of a returned path that are not closed curves (+1 if the path says it is not closed)"""
    if path is None:
        return 0
    return int(sum(0 if e.closed else 1 for e in path.entities) + (0 if path.is_closed else 1))


def section_record(tm, cx, name, n, c2, o, nn, sub, use_kw, faces_back=True):
    ix = tm.intersections
    mesh = cx.mesh
    rec = base_record("section", name, [(n, c2)], sub, origin=[float(x) for x in o], normal=[float(x) for x in nn],
                      api="mesh_plane+section", return_faces=bool(faces_back), **cx.desc())
    rec.update(segs=[], fidx=[], haspath=True, psegs=[], popen=0)

    def run(rec):
        loc = cx.faces(sub)
        an, ao = cx.arg(nn), cx.arg(cx.fwd(o))
        if not faces_back:
            lines = ix.mesh_plane(mesh, an, ao, local_faces=loc)
            fidx = -np.ones(len(lines), dtype=np.int64)
        elif use_kw:
            lines, fidx = ix.mesh_plane(mesh=mesh, plane_normal=an, plane_origin=ao, return_faces=True, local_faces=loc)
        else:
            lines, fidx = ix.mesh_plane(mesh, an, ao, True, loc)
        path = mesh.section(plane_normal=an, plane_origin=ao) if sub is None else \
            mesh.section(plane_normal=an, plane_origin=ao, local_faces=loc)
        psegs = cx.back(explode(path)) if cx.path_ok else np.zeros((0, 2, 3))
        K, (a, b) = to_grid([cx.back(np.asarray(lines).reshape((-1, 2, 3))), psegs])
        rec.update(K=K, segs=a, psegs=b, fidx=[int(x) for x in np.asarray(fidx).ravel()], haspath=cx.path_ok,
                   popen=open_entities(path) if cx.path_ok else 0)
        if len(rec["fidx"]) != len(a):
            raise OffLattice("face_index_length")
    return guarded(rec, run)


def multiplane_records(tm, cx, name, n, c2s, rs):
    """One call of mesh_multiplane / section_multiplane for all offsets of one normal (heights in seeded order,
    as an array or a list, sometimes with one height given twice)."""
    ix = tm.intersections
    mesh = cx.mesh
    c2s = list(c2s)
    if rs.randint(2):
        rs.shuffle(c2s)
    twice = bool(rs.randint(2))
    if twice:
        c2s.append(c2s[0])
    c0 = c2s[rs.randint(len(c2s))]
    o = np.array(origin_for(n, c0, rs), dtype=np.float64) / 2.0
    nn = normal_variant(n, rs.randint(3))
    norm = math.sqrt(sum(x * x for x in n))
    heights = np.array([cx.length((c - c0) / (2.0 * norm)) for c in c2s])
    if cx.style in (1, 2):
        heights = heights.tolist()
    recs = []
    for c2 in c2s:
        r = base_record("section", name, [(n, c2)], None, origin=o.tolist(), normal=nn.tolist(),
                        api="mesh_multiplane+section_multiplane", base_c2=int(c0), heights=len(c2s), height_given_twice=twice, **cx.desc())
        r.update(segs=[], fidx=[], haspath=True, psegs=[], popen=0)
        recs.append(r)
    try:
        an, ao = cx.arg(nn), cx.arg(cx.fwd(o))
        lines, T, fidx = ix.mesh_multiplane(mesh, plane_origin=ao, plane_normal=an, heights=heights)
        paths = mesh.section_multiplane(plane_origin=ao, plane_normal=an, heights=heights)
        if not (len(lines) == len(T) == len(fidx) == len(paths) == len(c2s)):
            raise OffLattice("result_count")
    except OffLattice as e:
        for r in recs:
            r["off"] = str(e)
        return recs
    except BaseException as e:  # noqa
        for r in recs:
            r["exc"] = type(e).__name__
        return recs
    for k, r in enumerate(recs):
        def run(rec, k=k):
            lift = lifter(T[k])
            l2 = np.asarray(lines[k], dtype=np.float64).reshape((-1, 2))
            segs = lift(l2).reshape((-1, 2, 3)) if len(l2) else np.zeros((0, 2, 3))
            p = paths[k]
            psegs = explode(p, lifter(p.metadata["to_3D"])) if p is not None and cx.path_ok else np.zeros((0, 2, 3))
            K, (a, b) = to_grid([cx.back(segs), cx.back(psegs)])
            rec.update(K=K, segs=a, psegs=b, fidx=[int(x) for x in np.asarray(fidx[k]).ravel()], haspath=cx.path_ok,
                       popen=open_entities(p) if cx.path_ok else 0)
            if len(rec["fidx"]) != len(a):
                raise OffLattice("face_index_length")
        guarded(r, run)
    return recs


def out_mesh(m, cx=None):
    if m is None:
        return np.zeros((0, 3)), np.zeros((0, 3), dtype=np.int64)
    v = np.asarray(m.vertices, dtype=np.float64).reshape((-1, 3))
    return (v if cx is None else cx.back(v)), np.asarray(m.faces, dtype=np.int64).reshape((-1, 3))


def slice_call(tm, cx, nn, o, api, **kw):
    """nn, o: float64 arrays in lattice units, (3,) or (k, 3); engine 'default' means: do not pass one"""
    if kw.get("engine") == "default":
        kw["engine"] = None
    an, ao = cx.arg(nn), cx.arg(cx.fwd(o))
    if api == "slice_plane":
        return cx.mesh.slice_plane(plane_origin=ao, plane_normal=an, **kw)
    return tm.intersections.slice_mesh_plane(cx.mesh, plane_normal=an, plane_origin=ao, **kw)


def halves(Vf, Ff, cx, mp, mn):
    pv, pf = out_mesh(mp, cx)
    nv, nf = out_mesh(mn, cx)
    return pv, pf, nv, nf


def slice_record(tm, cx, Vf, Ff, name, n, c2, o, nn, sub, api, process=False):
    rec = base_record("slice", name, [(n, c2)], sub, origin=[float(x) for x in o], normal=[float(x) for x in nn], api=api,
                      process=bool(process), **cx.desc())
    rec.update(hasneg=True, pos=EMPTY_OUT, neg=EMPTY_OUT)

    def run(rec):
        kw = {} if sub is None else {"face_index": cx.faces(sub)}
        if process:
            kw["process"] = True
        pv, pf, nv, nf = halves(Vf, Ff, cx, slice_call(tm, cx, nn, o, api, **kw), slice_call(tm, cx, -nn, o, api, **kw))
        K, (a, b) = to_grid([pv, nv])
        rec.update(K=K, pos={"v": a, "f": pf.tolist(), "src": face_hints(Vf, Ff, pv, pf)},
                   neg={"v": b, "f": nf.tolist(), "src": face_hints(Vf, Ff, nv, nf)})
    return guarded(rec, run)


def cap_record(tm, cx, Vf, Ff, name, n, c2, o, nn, engine, api, process=False):
    rec = base_record("cap", name, [(n, c2)], None, origin=[float(x) for x in o], normal=[float(x) for x in nn], api=api,
                      engine=engine, process=bool(process), **cx.desc())
    rec.update(pos=EMPTY_OUT, neg=EMPTY_OUT, note=True)

    def run(rec):
        kw = {"process": True} if process else {}
        pv, pf, nv, nf = halves(Vf, Ff, cx, slice_call(tm, cx, nn, o, api, cap=True, engine=engine, **kw),
                                slice_call(tm, cx, -nn, o, api, cap=True, engine=engine, **kw))
        K, (a, b) = to_grid([pv, nv])
        rec.update(K=K, pos={"v": a, "f": pf.tolist(), "src": face_hints(Vf, Ff, pv, pf)},
                   neg={"v": b, "f": nf.tolist(), "src": face_hints(Vf, Ff, nv, nf)})
    return guarded(rec, run)


def pair_record(tm, cx, Vf, Ff, name, p1, p2, rs, sub=None):
    """slice by two planes at once (the part on the positive side of both), optionally of a face subset"""
    (n1, c1), (n2, c2) = p1, p2
    o1 = np.array(origin_for(n1, c1, rs), dtype=np.float64) / 2.0
    o2 = np.array(origin_for(n2, c2, rs), dtype=np.float64) / 2.0
    v = rs.randint(3)
    nn = np.array([normal_variant(n1, v), normal_variant(n2, v)])
    oo = np.array([o1, o2])
    api = ("slice_plane", "slice_mesh_plane")[rs.randint(2)]
    rec = base_record("slice", name, [p1, p2], sub, origin=oo.tolist(), normal=nn.tolist(), api=api, **cx.desc())
    rec.update(hasneg=False, pos=EMPTY_OUT, neg=EMPTY_OUT)

    def run(rec):
        kw = {} if sub is None else {"face_index": cx.faces(sub)}
        pv, pf = out_mesh(slice_call(tm, cx, nn, oo, api, **kw), cx)
        try:
            K, (a,) = to_grid([pv], DMAX_PAIR)
        except OffLattice as e:
            if str(e) in ("denominator", "residual"):
                # two cuts can need a finer grid than TLC's integers carry: not judged (counted in the evidence)
                rec["skip"] = True
                return
            raise
        rec.update(K=K, pos={"v": a, "f": pf.tolist(), "src": face_hints(Vf, Ff, pv, pf)})
    return guarded(rec, run)


def capm_record(tm, cx, Vf, Ff, name, p1, p2, engine, rs):
    """capped slice by two planes: the two halves (p2 and its opposite) of the capped half of p1"""
    (n1, c1), (n2, c2) = p1, p2
    o1 = np.array(origin_for(n1, c1, rs), dtype=np.float64) / 2.0
    o2 = np.array(origin_for(n2, c2, rs), dtype=np.float64) / 2.0
    v = rs.randint(3)
    nn = np.array([normal_variant(n1, v), normal_variant(n2, v)])
    nneg = np.array([nn[0], -nn[1]])
    oo = np.array([o1, o2])
    api = ("slice_plane", "slice_mesh_plane")[rs.randint(2)]
    rec = base_record("capm", name, [p1, p2], None, origin=oo.tolist(), normal=nn.tolist(), api=api, engine=engine, **cx.desc())
    rec.update(pos=EMPTY_OUT, neg=EMPTY_OUT)

    def run(rec):
        pv, pf, nv, nf = halves(Vf, Ff, cx, slice_call(tm, cx, nn, oo, api, cap=True, engine=engine),
                                slice_call(tm, cx, nneg, oo, api, cap=True, engine=engine))
        try:
            K, (a, b) = to_grid([pv, nv], DMAX_PAIR)
        except OffLattice as e:
            if str(e) not in ("denominator", "residual"):
                raise
            K = KMAX + 1
        if K > kcap_for(name.split("/")[0]):
            # the second plane also cuts the diagonals and cap triangles the first cut introduced, so the result can
            # need a finer grid than the exact clip polygons (the enumeration filter): not judged, counted
            rec["skip"] = True
            return
        rec.update(K=K, pos={"v": a, "f": pf.tolist(), "src": face_hints(Vf, Ff, pv, pf)},
                   neg={"v": b, "f": nf.tolist(), "src": face_hints(Vf, Ff, nv, nf)})
    return guarded(rec, run)


# ----------------------------------------------------------------------- worker
def _mesh_for(tm, cache, name, move, tex):
    key = (name, move, tex)
    if key not in cache:
        V, F = SEEDS[name]
        Vf, Ff = np.array(V, dtype=np.float64), np.array(F, dtype=np.int64)
        Vm = Vf.copy() if move is None else (Vf + np.array(move[1], dtype=np.float64)) * move[0]
        kw = {}
        if tex:
            kw["visual"] = tm.visual.TextureVisuals(uv=Vf @ UV_MAP.T)
        cache[key] = (tm.Trimesh(vertices=Vm, faces=Ff.copy(), process=False, **kw), Vf, Ff)
    return cache[key]


def _chunk(items):
    tm = import_trimesh()
    out = []
    meshes = {}
    for it in items:
        kind, name, wid = it[0], it[1], it[2]
        rs = np.random.RandomState((seed() * 7919 + wid * 104729 + 17) % (2 ** 31 - 1))
        opt = it[-1] if isinstance(it[-1], dict) else {}
        move = opt.get("move")
        mesh, Vf, Ff = _mesh_for(tm, meshes, name, move, bool(opt.get("tex")))
        cx = Ctx(mesh, move, rs.randint(4), bool(opt.get("tex")))
        if kind == "plane":
            _, _, _, n, c2, engines, want_slice, want_sub = it[:8]
            o = np.array(origin_for(n, c2, rs), dtype=np.float64) / 2.0
            nn = normal_variant(n, rs.randint(3))
            api = ("slice_plane", "slice_mesh_plane")[rs.randint(2)]
            out.append(section_record(tm, cx, name, n, c2, o, nn, None, bool(rs.randint(2)), rs.randint(4) > 0))
            if want_slice:
                out.append(slice_record(tm, cx, Vf, Ff, name, n, c2, o, nn, None, api, rs.randint(4) == 0))
                for eng in engines:
                    out.append(cap_record(tm, cx, Vf, Ff, name, n, c2, o, nn, eng, api, rs.randint(4) == 0))
            if want_sub:
                nf = len(Ff)
                sub = sorted(rs.choice(nf, size=max(1, rs.randint(nf // 3, nf)), replace=False).tolist())
                if rs.randint(2):
                    rs.shuffle(sub)
                out.append(section_record(tm, cx, name, n, c2, o, nn, sub, True))
                if want_slice:
                    out.append(slice_record(tm, cx, Vf, Ff, name, n, c2, o, nn, sub, api))
        elif kind == "capsweep":
            _, _, _, n, c2, eng = it[:6]
            o = np.array(origin_for(n, c2, rs), dtype=np.float64) / 2.0
            nn = normal_variant(n, rs.randint(3))
            api = ("slice_plane", "slice_mesh_plane")[rs.randint(2)]
            out.append(cap_record(tm, cx, Vf, Ff, name, n, c2, o, nn, eng, api))
        elif kind == "multi":
            _, _, _, n, c2s = it[:5]
            out.extend(multiplane_records(tm, cx, name, n, c2s, rs))
        elif kind == "pair":
            _, _, _, p1, p2, want_sub = it[:6]
            sub = None
            if want_sub:
                nf = len(Ff)
                sub = rs.choice(nf, size=max(1, rs.randint(nf // 3, nf)), replace=False).tolist()
            out.append(pair_record(tm, cx, Vf, Ff, name, p1, p2, rs, sub))
        elif kind == "capm":
            _, _, _, p1, p2, eng = it[:6]
            out.append(capm_record(tm, cx, Vf, Ff, name, p1, p2, eng, rs))
    return out


# ------------------------------------------------------------------- enumeration
def k_plane(name, n, c2):
    """lcm of the denominators of the points where the plane n.(2p) = c2 crosses a mesh edge; an enumeration
    filter only: capped slices form cubic terms in TLC's 32-bit integers, so they are recorded only where the
    grid a correct result lives on is coarse enough"""
    V, F = SEEDS[name]
    K = 1
    for a, b in {tuple(sorted((f[i], f[(i + 1) % 3]))) for f in F for i in range(3)}:
        sa = 2 * sum(n[k] * V[a][k] for k in range(3)) - c2
        sb = 2 * sum(n[k] * V[b][k] for k in range(3)) - c2
        if sa * sb < 0:
            d = abs(sa - sb)
            g = d
            for k in range(3):
                g = math.gcd(g, abs(V[b][k] * sa - V[a][k] * sb))
            d //= g
            K = K * d // math.gcd(K, d)
    return K


def sign_patterns_v(name, n, c2):
    """{(0, 0, 0)} if some vertex lies on the plane (enumeration only)"""
    V, _ = SEEDS[name]
    return {(0, 0, 0)} if any(2 * (n[0] * v[0] + n[1] * v[1] + n[2] * v[2]) == c2 for v in V) else set()


def sign_patterns(name, n, c2):
    V, F = SEEDS[name]
    s = [(lambda d: (d > 0) - (d < 0))(2 * (n[0] * v[0] + n[1] * v[1] + n[2] * v[2]) - c2) for v in V]
    return {(s[a], s[b], s[c]) for a, b, c in F}


def kcap_for(base):
    return KCAP_SEED.get(base, KCAP)


def pair_facts(name, p1, p2):
    """Exact facts about cutting seed `name` by p1 and then p2 (Fractions; enumeration filter and the predicate of a
    known finding only, never an expected value): the lcm K of the denominators of all corner points of the clipped
    faces, whether the pair is in general position (no vertex on p1, no vertex of the half of p1 - vertices
    kept and crossing points - on p2), and whether p2 cuts the half of p1 (both pieces non-empty)."""
    V, F = SEEDS[name]

    def side(pl, p):
        n, c2 = pl
        return 2 * sum(n[k] * p[k] for k in range(3)) - c2

    def clip(poly, pl):
        out = []
        s = [side(pl, p) for p in poly]
        for k in range(len(poly)):
            k2 = (k + 1) % len(poly)
            if s[k] >= 0:
                out.append(poly[k])
            if (s[k] > 0 and s[k2] < 0) or (s[k] < 0 and s[k2] > 0):
                t = Fraction(s[k]) / (s[k] - s[k2])
                out.append(tuple(poly[k][j] + t * (poly[k2][j] - poly[k][j]) for j in range(3)))
        return out
    K = 1
    general = all(side(p1, v) != 0 for v in V)
    lo = hi = 0
    for f in F:
        h1 = clip([tuple(Fraction(x) for x in V[i]) for i in f], p1)
        if any(side(p2, p) == 0 for p in h1):
            general = False
        lo, hi = min([lo] + [side(p2, p) for p in h1]), max([hi] + [side(p2, p) for p in h1])
        for q in (p2, (tuple(-x for x in p2[0]), -p2[1])):
            for p in clip(h1, q):
                for x in p:
                    K = K * x.denominator // math.gcd(K, x.denominator)
    return K, general, lo < 0 < hi


def build_work(tier, engines, rs):
    """quick: every (mesh, plane) pair once, in one of the three presentations of the seed (rotating), one
    seeded origin / normal scaling / api per pair; thorough: every presentation, each twice (once for the
    48-face seed) with other origins on the same plane, other normal scalings and the other api."""
    work, wid = [], 0
    patterns = set()
    npairs = 0
    nocap = {}
    toofine = 0
    thorough = tier == "thorough"
    rot_eng = list(engines) + (["default"] if engines else [])
    for bi, base in enumerate(BASE_ORDER + EXTRA_ORDER):
        extra = base in EXTRA_ORDER
        V, F = SEEDS[base + "/r0"]
        planes = []
        normals = normals_all() if extra else normals_for(base, tier)
        for ni, n in enumerate(normals):
            # planes whose crossing points need a grid finer than TLC's 32-bit integers carry are not enumerated
            c2s = [c2 for c2 in offsets(V, n) if k_plane(base + "/r0", n, c2) <= KMAX]
            toofine += len(offsets(V, n)) - len(c2s)
            for c2 in c2s:
                planes.append((n, c2))
            # parallel sections through mesh_multiplane, one call per normal covering every offset
            # (quick: every second normal per seed, alternating between seeds; every sixth for the extra seeds)
            if not thorough and ((ni + bi) % 2 or (extra and (ni + bi) % 6)):
                continue
            if thorough and extra and (ni + bi) % 2:
                continue
            for r in (range(3) if thorough and not extra else [(len(work) + bi) % 3]):
                work.append(("multi", "%s/r%d" % (base, r), wid, n, c2s))
                wid += 1
        if extra:
            # the further mesh classes: a seeded sample of their planes in quick (the planes through vertices, along
            # edges and faces are the majority of the lattice planes), every plane in one presentation in thorough
            pick = sorted(rs.choice(len(planes), size=min(len(planes), 10 ** 6 if thorough else 80), replace=False).tolist())
            planes = [planes[k] for k in pick]
        for k, (n, c2) in enumerate(planes):
            if not extra:
                patterns |= sign_patterns(base + "/r0", n, c2)
            npairs += 1
            want_slice = positive_rep(n)
            # every engine on every pair, except in quick on every second pair of a convex seed (one engine, rotating;
            # the rotation includes "no engine passed"): caps with holes, several loops or pinched loops only arise on
            # the non-convex seeds
            full = (thorough or base in NONCONVEX or k % 2 == 0 or not engines) and not extra
            eng = list(engines) if full else [rot_eng[(k // 2) % len(rot_eng)]] if rot_eng else []
            if full and engines and k % 4 == 1:
                eng.append("default")
            if k_plane(base + "/r0", n, c2) > kcap_for(base) or base in NOT_SOLID:
                # (capping an open surface or a soup: nothing is stated)
                if eng and want_slice and base not in NOT_SOLID:
                    nocap[base + str(list(n))] = nocap.get(base + str(list(n)), 0) + 1
                eng = []
            nrep = 1 if base == "uhole" or extra else 2          # the 48-face seed is the most expensive one to validate
            reps = [(r, j) for r in (range(3) if not extra else [(k + bi) % 3]) for j in range(nrep)] if thorough \
                else [((k + bi) % 3, 0)]
            for r, j in reps:
                want_sub = ((k + j) % 3) == 0
                work.append(("plane", "%s/r%d" % (base, r), wid, n, c2, eng, want_slice, want_sub))
                wid += 1
            # capping a non-convex solid through a vertex pinches the section polygon and the outcome then
            # depends on rounding noise: more origins on the same plane, normal scalings and engines
            if eng and base in NONCONVEX and not extra and (0, 0, 0) in sign_patterns_v(base + "/r0", n, c2):
                for q in range((15 if base == "uhole" else 40) if thorough else 2):
                    work.append(("capsweep", "%s/r%d" % (base, (k + q) % 3), wid, n, c2, eng[(k + q) % len(eng)]))
                    wid += 1
        # plane pairs for multi-plane slicing: normals from {-1,0,1}^3; every third pair with a face subset
        simple = [(n, c2) for n, c2 in planes if max(abs(x) for x in n) == 1]
        for q in range((600 if not extra else 150) if thorough else (60 if not extra else 12)):
            p1 = simple[rs.randint(len(simple))]
            p2 = simple[rs.randint(len(simple))]
            if p1[0] == p2[0] or p1[0] == tuple(-x for x in p2[0]):
                continue
            work.append(("pair", "%s/r%d" % (base, q % 3), wid, p1, p2, q % 3 == 1))
            wid += 1
        # capped slicing by two planes (only where the exact result lives on a grid coarse enough for cubic terms)
        if engines and base == "subcube":
            # directed: p2 contains three collinear vertices of the cap of p1 (finding CapSlitThroughCollinearCapVertices)
            for q, eng in enumerate(rot_eng):
                work.append(("capm", "subcube/r%d" % (q % 3), wid, ((0, -1, 1), -1), ((0, 1, 0), 4), eng))
                wid += 1
        if engines and base not in NOT_SOLID and base != "uhole":
            want = (400 if thorough else 120) if base in ("tet", "cube", "octa", "subcube") else (150 if thorough else 40)
            got = tries = 0
            while got < want and tries < 40 * want:
                tries += 1
                p1 = simple[rs.randint(len(simple))]
                p2 = simple[rs.randint(len(simple))]
                if p1[0] == p2[0] or p1[0] == tuple(-x for x in p2[0]):
                    continue
                kk, _, cutting = pair_facts(base + "/r0", p1, p2)
                # three of four pairs cut the solid twice; the rest has an empty piece or a plane that only touches
                if kk > kcap_for(base) or (not cutting and got % 4 != 3):
                    continue
                work.append(("capm", "%s/r%d" % (base, got % 3), wid, p1, p2, rot_eng[(got + tries) % len(rot_eng)]))
                wid += 1
                got += 1
        if extra:
            continue
        # magnitudes: the same pairs for a scaled / translated copy of the seed; textured copies of the seed
        pick = rs.choice(len(planes), size=min(len(planes), 200 if thorough else 50), replace=False).tolist()
        for q, k in enumerate(pick):
            n, c2 = planes[k]
            if not positive_rep(n):
                n, c2 = tuple(-x for x in n), -c2
            eng = [rot_eng[q % len(rot_eng)]] if rot_eng and k_plane(base + "/r0", n, c2) <= kcap_for(base) else []
            work.append(("plane", "%s/r%d" % (base, q % 3), wid, n, c2, eng, True, q % 3 == 0, {"move": MOVES[(q + bi) % len(MOVES)]}))
            wid += 1
            if q % 4 == 0:
                cs = [c if n == planes[k][0] else -c for m, c in planes if m == planes[k][0]]
                work.append(("multi", "%s/r%d" % (base, q % 3), wid, n, cs, {"move": MOVES[(q + bi + 1) % len(MOVES)]}))
                wid += 1
        if base in ("cube", "hole", "two"):
            pick = rs.choice(len(planes), size=min(len(planes), 150 if thorough else 40), replace=False).tolist()
            for q, k in enumerate(pick):
                n, c2 = planes[k]
                if not positive_rep(n):
                    n, c2 = tuple(-x for x in n), -c2
                work.append(("plane", "%s/r%d" % (base, q % 3), wid, n, c2, [], True, q % 2 == 0, {"tex": True}))
                wid += 1
                if q % 3 == 0:
                    p2 = simple[rs.randint(len(simple))]
                    if p2[0] != n and p2[0] != tuple(-x for x in n) and max(abs(x) for x in n) == 1:
                        work.append(("pair", "%s/r%d" % (base, q % 3), wid, (n, c2), p2, q % 2 == 1, {"tex": True}))
                        wid += 1
    nocap["planes_not_enumerated_at_all"] = toofine
    return work, patterns, npairs, nocap


def main(argv):
    tier = tier_from_args(argv)
    V = Verdict(PROP, tier)
    import_trimesh()
    engines, skipped = [], []
    for eng, mod in ENGINE_MODULES:
        try:
            importlib.import_module(mod)
            engines.append(eng)
        except Exception:  # noqa
            skipped.append(eng)
    rs = np.random.RandomState(seed() + 11)
    work, patterns, npairs, nocap = build_work(tier, engines, rs)
    if len(patterns) != 27:
        raise MachineryError(f"only {len(patterns)} of 27 triangle sign patterns enumerated")
    order = rs.permutation(len(work))          # balance the chunks
    res = pmap(_chunk, [work[j] for j in order], chunk=40)
    cases = [c for r in res for c in r]
    skipped_pairs = sum(1 for c in cases if c.get("skip"))
    cases = [c for c in cases if not c.get("skip")]
    for k, c in enumerate(cases):
        c["id"] = k
    descs = [c.pop("desc") for c in cases]
    if len(cases) < 2000:
        raise MachineryError("too few cases")
    bykind, byapi, byengine, ks, byseed, bystyle, bymove = {}, {}, {}, {}, {}, {}, {}
    nonempty_sections = nonempty_halves = empty_halves = cut_slices = 0
    fam = {"capm_both_planes_cut_the_seed": 0, "capm_both_pieces_nonempty": 0, "pair_subset_cutting": 0, "moved_cutting": 0,
           "textured_cutting": 0, "extra_seed_cutting": 0, "section_paths_cutting": 0, "process_true": 0,
           "return_faces_false": 0, "heights_with_duplicate": 0}
    for c, d in zip(cases, descs):
        key = c["kind"] + ("_pair" if len(c["planes"]) > 1 and c["kind"] != "capm" else "") + \
            ("_subset" if len(c["sub"]) < len(c["F"]) else "")
        bykind[key] = bykind.get(key, 0) + 1
        byapi[d["api"]] = byapi.get(d["api"], 0) + 1
        ks[c["K"]] = ks.get(c["K"], 0) + 1
        base = d["seed"].split("/")[0]
        byseed[base] = byseed.get(base, 0) + 1
        bystyle[d["style"]] = bystyle.get(d["style"], 0) + 1
        # does every plane of the record cut the seed (a fact about the input: a family must not look empty because
        # the implementation raised or returned nothing)
        produced = all(min(sd) < 0 < max(sd) for sd in
                       ([2 * sum(a * b for a, b in zip(pl["n"], v)) - pl["c2"] for v in c["V"]] for pl in c["planes"]))
        if "scale" in d:
            mk = "x%g %+g %+g %+g" % ((d["scale"],) + tuple(d["translation"]))
            bymove[mk] = bymove.get(mk, 0) + 1
            fam["moved_cutting"] += produced
        fam["textured_cutting"] += bool(d.get("textured")) and produced
        fam["extra_seed_cutting"] += base in EXTRA_ORDER and produced
        fam["process_true"] += bool(d.get("process"))
        fam["return_faces_false"] += d.get("return_faces") is False and produced
        fam["heights_with_duplicate"] += bool(d.get("height_given_twice")) and produced
        if c["kind"] == "section" and c["haspath"] and produced:
            fam["section_paths_cutting"] += 1
        if c["kind"] == "capm":
            byengine[d["engine"] + " (two planes)"] = byengine.get(d["engine"] + " (two planes)", 0) + 1
            fam["capm_both_planes_cut_the_seed"] += produced
            fam["capm_both_pieces_nonempty"] += all(len(h["f"]) for h in (c["pos"], c["neg"]))
        if key == "slice_pair_subset" and produced:
            fam["pair_subset_cutting"] += 1
        if c["kind"] == "cap":
            byengine[d["engine"]] = byengine.get(d["engine"], 0) + 1
            for h in (c["pos"], c["neg"]):
                if len(h["f"]):
                    nonempty_halves += 1
                else:
                    empty_halves += 1
        if c["kind"] == "section" and len(c["segs"]):
            nonempty_sections += 1
        if c["kind"] == "slice" and len(c["pos"]["f"]) and (not c["hasneg"] or len(c["neg"]["f"])):
            cut_slices += 1
    if not (nonempty_sections > 500 and cut_slices > 300 and (nonempty_halves > 300 or not engines)):
        raise MachineryError("enumeration nearly empty: %d sections, %d cut slices, %d halves"
                             % (nonempty_sections, cut_slices, nonempty_halves))
    # the audit families, counted on the inputs
    need = {"capm_both_planes_cut_the_seed": 150 if engines else 0, "pair_subset_cutting": 40, "moved_cutting": 300, "textured_cutting": 60,
            "extra_seed_cutting": 500, "section_paths_cutting": 500, "process_true": 200,
            "return_faces_false": 200, "heights_with_duplicate": 100}
    low = {k: (fam[k], v) for k, v in need.items() if fam[k] < v}
    if low or len(bystyle) < 4 or len(bymove) < len(MOVES) or any(byseed.get(b, 0) < 40 for b in BASE_ORDER + EXTRA_ORDER) \
            or (engines and byengine.get("default", 0) < 100):
        raise MachineryError("a record family came out nearly empty: %s styles=%s moves=%s seeds=%s engines=%s"
                             % (low, bystyle, bymove, byseed, byengine))
    # 16 TLC shards run side by side: bound each JVM's heap and the number of records it holds at once
    os.environ.setdefault("JAVA_TOOL_OPTIONS", "-Xmx2g")
    rejects, states, wall = {}, 0, 0.0
    for lo in range(0, len(cases), ROUND):
        r, st, w = tlc.validate_batches("c11", "Section", cases[lo:lo + ROUND], CFG, timeout=3000)
        rejects.update(r)
        states += st
        wall += w
    notes = {}
    general_cache = {}
    for cid, clause in sorted(rejects.items()):
        c, d = cases[cid], descs[cid]
        if clause.startswith("MODEL_LIMIT"):
            raise MachineryError(f"{clause}: case {d} K={c['K']}")
        if clause.startswith("NOTE_"):
            # an observation the property does not rule out (see Section.tla): counted, never a violation
            e = notes.setdefault(clause, {"count": 0, "example": {"planes": c["planes"], **d}})
            e["count"] += 1
            continue
        detail = {"kind": c["kind"], "planes": c["planes"], "K": c["K"], "exc": c["exc"], "off": c["off"],
                  "subset": c["sub"] if len(c["sub"]) < len(c["F"]) else "all", **d}
        dev = None
        if c["kind"] == "cap" and d["seed"].split("/")[0] in NONCONVEX and \
                (clause == "capped_volumes_do_not_add_up" or clause.startswith("raised_")):
            # the section polygon of a non-convex solid is pinched where the plane passes through a vertex;
            # edges_to_polygons / repair_invalid then drops or garbles a cap (depends on float noise): the
            # volumes do not add up, or the garbled polygon makes the triangulation engine raise
            pl = c["planes"][0]
            if any(2 * sum(a * b for a, b in zip(pl["n"], v)) == pl["c2"] for v in c["V"]):
                dev = "CapOfSectionThroughVertexNonConvex"
        if c["kind"] == "capm" and d["seed"].split("/")[0] in NONCONVEX and \
                (clause == "capped_pair_volumes_do_not_add_up_pinched" or clause.startswith("raised_")):
            # the same finding one cut later: a vertex of the solid on p1, or a vertex of the capped half of p1
            # (a kept vertex or a crossing point) on p2, pinches the polygon that is capped
            key = (d["seed"].split("/")[0],) + tuple((tuple(pl["n"]), pl["c2"]) for pl in c["planes"])
            if key not in general_cache:
                general_cache[key] = pair_facts(key[0] + "/r0", key[1], key[2])[1]
            if not general_cache[key]:
                dev = "CapOfSectionThroughVertexNonConvex"
        if c["kind"] == "capm" and clause == "quarter_of_convex_solid_not_watertight_slit":
            # p2 contains three collinear vertices of the cap of p1: a triangulation of that cap may contain a
            # zero-area triangle lying in p2, which the second cut drops and no cap replaces
            dev = "CapSlitThroughCollinearCapVertices"
        V.violation(f"{c['kind']}:{clause}", detail, dev)

    def sample(k):
        c, d = cases[k], descs[k]
        s = {"kind": c["kind"], "planes": c["planes"], "K": c["K"], **d}
        if c["kind"] == "section":
            s["segments"] = c["segs"][:3]
        else:
            if len(c["sub"]) < len(c["F"]):
                s["subset"] = c["sub"]
            s["positive_faces"] = len(c["pos"]["f"])
            s["negative_faces"] = len(c["neg"]["f"])
        return s
    cov = {"states": states, "transitions": states, "traces_validated_against_impl": len(cases),
           "mesh_plane_pairs": npairs, "work_items": len(work),
           "seeds": {k: {"vertices": len(SEEDS[k + "/r0"][0]), "faces": len(SEEDS[k + "/r0"][1])} for k in BASE_ORDER + EXTRA_ORDER},
           "presentations_per_seed": 3,
           "normals": len(normals_all()), "extra_tilted_normals_for_uhole": [list(n) for n in TILTED], "triangle_sign_patterns": len(patterns),
           "records_per_kind": bykind, "records_per_api": byapi, "capped_records_per_engine": byengine,
           "records_per_seed": byseed, "records_per_call_style": bystyle, "records_per_move": bymove,
           "audit_families": fam,
           "planes_not_capped_grid_too_fine": nocap, "plane_pairs_not_judged_grid_too_fine": skipped_pairs,
           "engines_used": engines, "engines_skipped_not_importable": skipped,
           "sections_with_segments": nonempty_sections, "slices_with_faces_on_both_sides_or_pairs": cut_slices,
           "capped_halves_nonempty": nonempty_halves, "capped_halves_empty": empty_halves,
           "common_denominators": {str(k): v for k, v in sorted(ks.items())},
           "rejected": len(rejects) - sum(e["count"] for e in notes.values()),
           "observations_outside_the_property": notes, "tlc_wall_s": round(wall, 1),
           "samples": [sample(len(cases) // 5), sample(len(cases) // 2), sample(len(cases) - 1)]}
    return V.finish("model_checking", cov, assumptions=[
        "lattice meshes with coordinates in 0..5; integer normals; plane offsets on the lattice and half lattice: "
        "every vertex is exactly on the plane or at least 1/(2|n|) away, so tol.merge never decides a case (the scaled "
        "copies keep a margin of 1e-5 at scale 2^-14)",
        "below scale 2^-7 the Path returned by section / section_multiplane is not judged (tol_path.merge = 1e-5 is an "
        "absolute length and would decide which section vertices coincide); segments, slices and caps are",
        "scaled / translated copies use power-of-two scales and integer translations (exact in doubles); the harness maps "
        "results back with the exact inverse and TLC judges them against the lattice mesh",
        "capped slicing by two planes: the two pieces must add up to the exact volume of the capped half of the first "
        "plane for convex seeds and for pairs in general position (no vertex on p1, no vertex of that half on p2); "
        "results needing a grid finer than 1/%d are not judged (counted); texture coordinates are not judged" % KCAP,
        "returned coordinates are rationals with denominator <= %d (snap residual <= 1e-9)" % DMAX,
        "watertightness demanded of non-empty halves of convex seeds only; isolated touching points, sections with an "
        "edge in the plane (beyond soundness), the owner of an in-plane face and unselected faces are unconstrained",
        "each capped half must have the volume of the solid's part in its half space for convex seeds and for cuts "
        "through no vertex; for non-convex seeds cut through a vertex only the stated sum of the two volumes is "
        "demanded and a differing half volume is counted under observations_outside_the_property",
    ])


if __name__ == "__main__":
    try:
        sys.exit(main(sys.argv[1:]))
    except MachineryError as e:
        print("MACHINERY-ERROR:", e)
        sys.exit(2)
