"""C11 - plane sections lie on plane and surface; slices partition the solid.

Reference semantics: spec/Section.tla (exact signs of the vertices against an integer plane,
exact Sutherland-Hodgman clip polygon of every triangle with rational crossing points, point in
triangle by exact barycentric signs, vector areas, signed cone volumes with the closing cap taken
from the divergence theorem, watertightness by edge counting).

code -> spec: Python enumerates (mesh, plane) pairs - lattice tetrahedron, cube, octahedron,
L-shaped prism (non-convex), slab with a square through-hole (genus 1), two disjoint bodies x
all normals in {-1,0,1}^3 \\ 0 and a few skew ones x every lattice / half-lattice offset that
touches, cuts or just misses the mesh (all 27 sign patterns of a triangle incl. vertex-on-plane,
edge-in-plane, face-in-plane) - calls the real trimesh.intersections.mesh_plane /
mesh_multiplane, Trimesh.section / section_multiplane, slice_mesh_plane / Trimesh.slice_plane
with cap=False and cap=True for every importable triangulation engine, face subsets and plane
pairs, snaps every returned float to a rational (Fraction.limit_denominator, residual <= 1e-9;
unsnappable -> the record is marked off-lattice and rejected), rescales the record to integers
over its common denominator and has TLC validate every record against the reference.
Python computes no expected value; the face index it attaches to an output triangle is only a
hint that TLC verifies (and replaces by a search over all faces when it does not hold).
"""
import importlib
import itertools
import math
import os
import sys
from fractions import Fraction

import numpy as np

from harness import tlc
from harness.common import (MachineryError, Verdict, import_trimesh, pmap, seed,
                            tier_from_args)

PROP = "C11"
CFG = "INIT Init\nNEXT Next\nINVARIANT Report\nINVARIANT RefSane\nCHECK_DEADLOCK FALSE\n"
DMAX = 256          # largest denominator a returned coordinate may snap to (single plane: true bound is 24)
DMAX_PAIR = 4096    # two successive planes multiply the denominators
KMAX = 1000         # largest common denominator of one record (quadratic terms in TLC's 32-bit integers)
ROUND = 24000       # records per round of batch validation (1500 per TLC shard)
KCAP = 128          # capped slices (cubic terms in TLC) only where the crossings' denominators stay below this
TOL = 1e-9
ENGINE_MODULES = (("earcut", "mapbox_earcut"), ("triangle", "triangle"), ("manifold", "manifold3d"))
EXTRA_NORMALS = [(1, 2, 0), (1, 1, 2), (2, -1, 1), (0, 1, -2)]


class OffLattice(Exception):
    pass


# ------------------------------------------------------------------------ seeds
def _prism(poly, tris, h):
    """Extrude a CCW polygon triangulation from z=0 to z=h: bottom (facing -z) and top faces."""
    n = len(poly)
    V = [(x, y, 0) for x, y in poly] + [(x, y, h) for x, y in poly]
    F = []
    for a, b, c in tris:
        F.append((a, c, b))
        F.append((a + n, b + n, c + n))
    return V, F, n


def _wall(F, n, i, j, flip=False):
    a, b = (j, i) if flip else (i, j)
    F.append((a, b, b + n))
    F.append((a, b + n, a + n))


def seeds():
    """name -> (lattice vertices, faces); all closed, consistently wound, outward (checked by TLC)."""
    out = {}
    tet_f = [(0, 2, 1), (0, 1, 3), (1, 2, 3), (2, 0, 3)]
    out["tet"] = ([(0, 0, 0), (2, 0, 0), (0, 2, 0), (0, 0, 2)], tet_f)
    sq = [(0, 0), (2, 0), (2, 2), (0, 2)]
    V, F, n = _prism(sq, [(0, 1, 2), (0, 2, 3)], 2)
    for i in range(4):
        _wall(F, n, i, (i + 1) % 4)
    out["cube"] = (V, F)
    out["octa"] = ([(0, 1, 1), (2, 1, 1), (1, 0, 1), (1, 2, 1), (1, 1, 0), (1, 1, 2)],
                   [(1, 3, 5), (3, 0, 5), (0, 2, 5), (2, 1, 5), (3, 1, 4), (0, 3, 4), (2, 0, 4), (1, 2, 4)])
    poly = [(0, 0), (2, 0), (2, 1), (1, 1), (1, 2), (0, 2)]
    V, F, n = _prism(poly, [(0, 1, 2), (0, 2, 3), (0, 3, 4), (0, 4, 5)], 1)
    for i in range(6):
        _wall(F, n, i, (i + 1) % 6)
    out["lprism"] = (V, F)
    outer = [(0, 0), (3, 0), (3, 3), (0, 3)]
    inner = [(1, 1), (2, 1), (2, 2), (1, 2)]
    tris = []
    for i in range(4):
        j = (i + 1) % 4
        tris += [(i, j, 4 + j), (i, 4 + j, 4 + i)]
    V, F, n = _prism(outer + inner, tris, 1)
    for i in range(4):
        _wall(F, n, i, (i + 1) % 4)
    for i in range(4):
        _wall(F, n, 4 + i, 4 + (i + 1) % 4, flip=True)
    out["hole"] = (V, F)
    usq = [(0, 0), (1, 0), (1, 1), (0, 1)]
    V, F, n = _prism(usq, [(0, 1, 2), (0, 2, 3)], 1)
    for i in range(4):
        _wall(F, n, i, (i + 1) % 4)
    V = V + [(2, 1, 1), (3, 1, 1), (2, 2, 1), (2, 1, 2)]
    F = F + [(8 + a, 8 + b, 8 + c) for a, b, c in tet_f]
    out["two"] = (V, F)
    # 5x4x1 slab with a U-shaped (concave) through-hole: the vertex mean of the hole ring, (2.5, 2.25), lies in
    # the material tongue [2,3]x[2,3], so an engine that seeds the hole at that mean carves the wrong region
    outer = [(0, 0), (5, 0), (5, 4), (0, 4)]
    inner = [(1, 1), (4, 1), (4, 3), (3, 3), (3, 2), (2, 2), (2, 3), (1, 3)]
    tris = [(0, 4, 11), (10, 9, 8), (10, 8, 7), (5, 4, 0), (5, 0, 1), (5, 1, 2), (3, 0, 11), (3, 11, 10),
            (3, 10, 7), (3, 7, 6), (6, 5, 2), (6, 2, 3)]
    V, F, n = _prism(outer + inner, tris, 1)
    for i in range(4):
        _wall(F, n, i, (i + 1) % 4)
    for i in range(8):
        _wall(F, n, 4 + i, 4 + (i + 1) % 8, flip=True)
    out["uhole"] = (V, F)
    return {k: ([list(v) for v in V], [list(f) for f in F]) for k, (V, F) in out.items()}


def with_rotations(base):
    """Every seed in three presentations: face k listed from its corner (k + r) mod 3, r = 0, 1, 2 (the same
    oriented surface; the code's index juggling sees the cut corner in every position of the face row)."""
    out = {}
    for name, (V, F) in base.items():
        for r in range(3):
            out["%s/r%d" % (name, r)] = (V, [[f[(j + k + r) % 3] for j in range(3)] for k, f in enumerate(F)])
    return out


BASE_ORDER = ["tet", "cube", "octa", "lprism", "hole", "two", "uhole"]
SEEDS = with_rotations(seeds())
SEED_ORDER = ["%s/r%d" % (n, r) for n in BASE_ORDER for r in range(3)]
NONCONVEX = ("lprism", "hole", "two", "uhole")      # only used to name a deviation; TLC decides convexity itself


def normals_all():
    base = [n for n in itertools.product((-1, 0, 1), repeat=3) if any(n)]
    return base + EXTRA_NORMALS + [tuple(-x for x in n) for n in EXTRA_NORMALS[:2]]


# gently tilted planes that stay inside the U-hole slab over the whole hole: the section is a ring whose
# interior loop is the concave hole, cut in general position (half-lattice offsets)
TILTED = [(0, 1, 4), (1, 0, 4), (0, -1, -4), (-1, 0, -4)]
UHOLE_QUICK = [n for n in itertools.product((-1, 0, 1), repeat=3) if sum(map(abs, n)) == 1] + TILTED + \
    [(1, 1, 1), (1, -1, 0), (0, 1, 1), (-1, 0, 1), (1, 2, 0), (1, 1, 2), (0, 1, -2), (-1, -1, -2)]


def normals_for(base, tier):
    if base != "uhole":
        return normals_all()
    return UHOLE_QUICK if tier != "thorough" else normals_all() + TILTED


def positive_rep(n):
    """one normal of each +/- pair (opposite slices are recorded together)"""
    return next(x for x in n if x) > 0


def offsets(V, n):
    d = [2 * (n[0] * v[0] + n[1] * v[1] + n[2] * v[2]) for v in V]
    return list(range(min(d) - 1, max(d) + 2))


_BOX = list(itertools.product(range(-3, 10), repeat=3))


def origin_for(n, c2, rs):
    """a doubled origin O2 (integer triple, o = O2/2 lattice or half-lattice) with n.O2 = c2"""
    cand = [p for p in _BOX if n[0] * p[0] + n[1] * p[1] + n[2] * p[2] == c2]
    if not cand:
        cand = [p for p in itertools.product(range(-30, 31), repeat=3)
                if n[0] * p[0] + n[1] * p[1] + n[2] * p[2] == c2][:50]
    return cand[rs.randint(len(cand))]


def normal_variant(n, k):
    n = np.array(n, dtype=np.float64)
    if k == 0:
        return n
    if k == 1:
        return n / np.linalg.norm(n)
    return n * 3.0


# ------------------------------------------------------------------- projection
_fc = {}


def frac(x, dmax=DMAX):
    r = _fc.get((x, dmax))
    if r is None:
        try:
            fr = Fraction(x).limit_denominator(dmax)
        except (ValueError, OverflowError):
            raise OffLattice("not_finite")
        if abs(float(fr) - x) > TOL * max(1.0, abs(x)):
            raise OffLattice("residual")
        if abs(x) > 1000.0:
            raise OffLattice("out_of_range")
        r = _fc[(x, dmax)] = (fr.numerator, fr.denominator)
    return r


def to_grid(arrays, dmax=DMAX):
    """Snap float arrays to rationals and rescale all of them to integers over one common
    denominator K.  Returns (K, list of nested int lists)."""
    fr = [[frac(float(x), dmax) for x in np.asarray(a, dtype=np.float64).ravel()] for a in arrays]
    K = 1
    for row in fr:
        for _, d in row:
            if K % d:
                K = K * d // math.gcd(K, d)
    if K > KMAX:
        raise OffLattice("denominator")
    out = []
    for a, row in zip(arrays, fr):
        vals = np.array([nu * (K // d) for nu, d in row], dtype=np.int64).reshape(np.shape(a))
        out.append(vals.tolist())
    return K, out


def face_hints(Vf, F, ov, of):
    """For every output triangle the first input face containing its centroid (same plane, inside,
    not reversed); -1 when there is none.  Only a witness: TLC verifies it and searches otherwise."""
    if len(of) == 0:
        return []
    T = np.asarray(ov, dtype=np.float64)[np.asarray(of)]
    C = T.mean(axis=1)
    TN = np.cross(T[:, 1] - T[:, 0], T[:, 2] - T[:, 0])
    A, B, D = Vf[F[:, 0]], Vf[F[:, 1]], Vf[F[:, 2]]
    N = np.cross(B - A, D - A)
    ok = np.abs(np.einsum("tfk,fk->tf", C[:, None, :] - A[None], N)) < 1e-7
    for P, Q in ((A, B), (B, D), (D, A)):
        cr = np.cross((Q - P)[None], C[:, None, :] - P[None])
        ok &= np.einsum("tfk,fk->tf", cr, N) >= -1e-7
    ok &= np.einsum("tk,fk->tf", TN, N) >= -1e-9
    return [int(np.argmax(r)) if r.any() else -1 for r in ok]


def explode(path, lift=None):
    """Path -> (m, 2, 3) segments (consecutive points of every entity's polyline)."""
    segs = []
    if path is None:
        return np.zeros((0, 2, 3))
    for e in path.entities:
        pts = np.asarray(e.discrete(path.vertices), dtype=np.float64)
        if lift is not None:
            pts = lift(pts)
        for a, b in zip(pts[:-1], pts[1:]):
            segs.append((a, b))
    return np.array(segs, dtype=np.float64).reshape((-1, 2, 3))


def lifter(T):
    T = np.asarray(T, dtype=np.float64)

    def f(p2):
        p = np.column_stack((p2[:, :2], np.zeros(len(p2)), np.ones(len(p2))))
        return (T @ p.T).T[:, :3]
    return f


EMPTY_OUT = {"v": [], "f": [], "src": []}


def base_record(kind, name, planes, sub, **desc):
    V, F = SEEDS[name]
    return {"kind": kind, "seed": name, "V": V, "F": F, "solid": True, "K": 1, "off": "", "exc": "",
            "planes": [{"n": list(n), "c2": int(c2)} for n, c2 in planes],
            "sub": list(range(len(F))) if sub is None else [int(s) for s in sub],
            "desc": dict(desc, seed=name)}


def guarded(rec, fn):
    try:
        fn(rec)
    except OffLattice as e:
        rec["off"] = str(e)
    except MachineryError:
        raise
    except BaseException as e:  # noqa: the real call raised
        rec["exc"] = type(e).__name__
    return rec


# ---------------------------------------------------------------------- records
def section_record(tm, mesh, name, n, c2, o, nn, sub, use_kw):
    ix = tm.intersections
    rec = base_record("section", name, [(n, c2)], sub, origin=[float(x) for x in o], normal=[float(x) for x in nn], api="mesh_plane+section")
    rec.update(segs=[], fidx=[], haspath=True, psegs=[])

    def run(rec):
        loc = None if sub is None else np.array(sub, dtype=np.int64)
        if use_kw:
            lines, fidx = ix.mesh_plane(mesh=mesh, plane_normal=nn, plane_origin=o, return_faces=True, local_faces=loc)
        else:
            lines, fidx = ix.mesh_plane(mesh, nn, o, True, loc)
        path = mesh.section(plane_normal=nn, plane_origin=o) if sub is None else \
            mesh.section(plane_normal=nn, plane_origin=o, local_faces=loc)
        psegs = explode(path)
        K, (a, b) = to_grid([np.asarray(lines).reshape((-1, 2, 3)), psegs])
        rec.update(K=K, segs=a, psegs=b, fidx=[int(x) for x in np.asarray(fidx).ravel()])
        if len(rec["fidx"]) != len(a):
            raise OffLattice("face_index_length")
    return guarded(rec, run)


def multiplane_records(tm, mesh, name, n, c2s, rs):
    """One call of mesh_multiplane / section_multiplane for all offsets of one normal."""
    ix = tm.intersections
    c0 = c2s[rs.randint(len(c2s))]
    o = np.array(origin_for(n, c0, rs), dtype=np.float64) / 2.0
    nn = normal_variant(n, rs.randint(3))
    norm = math.sqrt(sum(x * x for x in n))
    heights = np.array([(c - c0) / (2.0 * norm) for c in c2s])
    recs = []
    for c2 in c2s:
        r = base_record("section", name, [(n, c2)], None, origin=o.tolist(), normal=nn.tolist(),
                        api="mesh_multiplane+section_multiplane", base_c2=int(c0))
        r.update(segs=[], fidx=[], haspath=True, psegs=[])
        recs.append(r)
    try:
        lines, T, fidx = ix.mesh_multiplane(mesh, plane_origin=o, plane_normal=nn, heights=heights)
        paths = mesh.section_multiplane(plane_origin=o, plane_normal=nn, heights=heights)
        if not (len(lines) == len(T) == len(fidx) == len(paths) == len(c2s)):
            raise OffLattice("result_count")
    except OffLattice as e:
        for r in recs:
            r["off"] = str(e)
        return recs
    except BaseException as e:  # noqa
        for r in recs:
            r["exc"] = type(e).__name__
        return recs
    for k, r in enumerate(recs):
        def run(rec, k=k):
            lift = lifter(T[k])
            l2 = np.asarray(lines[k], dtype=np.float64).reshape((-1, 2))
            segs = lift(l2).reshape((-1, 2, 3)) if len(l2) else np.zeros((0, 2, 3))
            p = paths[k]
            psegs = explode(p, lifter(p.metadata["to_3D"])) if p is not None else np.zeros((0, 2, 3))
            K, (a, b) = to_grid([segs, psegs])
            rec.update(K=K, segs=a, psegs=b, fidx=[int(x) for x in np.asarray(fidx[k]).ravel()])
            if len(rec["fidx"]) != len(a):
                raise OffLattice("face_index_length")
        guarded(r, run)
    return recs


def out_mesh(m):
    if m is None:
        return np.zeros((0, 3)), np.zeros((0, 3), dtype=np.int64)
    return np.asarray(m.vertices, dtype=np.float64).reshape((-1, 3)), np.asarray(m.faces, dtype=np.int64).reshape((-1, 3))


def slice_call(tm, mesh, nn, o, api, **kw):
    if api == "slice_plane":
        return mesh.slice_plane(plane_origin=o, plane_normal=nn, **kw)
    return tm.intersections.slice_mesh_plane(mesh, plane_normal=nn, plane_origin=o, **kw)


def slice_record(tm, mesh, Vf, Ff, name, n, c2, o, nn, sub, api):
    rec = base_record("slice", name, [(n, c2)], sub, origin=[float(x) for x in o], normal=[float(x) for x in nn], api=api)
    rec.update(hasneg=True, pos=EMPTY_OUT, neg=EMPTY_OUT)

    def run(rec):
        kw = {} if sub is None else {"face_index": np.array(sub, dtype=np.int64)}
        pv, pf = out_mesh(slice_call(tm, mesh, nn, o, api, **kw))
        nv, nf = out_mesh(slice_call(tm, mesh, -nn, o, api, **kw))
        K, (a, b) = to_grid([pv, nv])
        rec.update(K=K, pos={"v": a, "f": pf.tolist(), "src": face_hints(Vf, Ff, pv, pf)},
                   neg={"v": b, "f": nf.tolist(), "src": face_hints(Vf, Ff, nv, nf)})
    return guarded(rec, run)


def cap_record(tm, mesh, Vf, Ff, name, n, c2, o, nn, engine, api):
    rec = base_record("cap", name, [(n, c2)], None, origin=[float(x) for x in o], normal=[float(x) for x in nn], api=api, engine=engine)
    rec.update(pos=EMPTY_OUT, neg=EMPTY_OUT, note=True)

    def run(rec):
        pv, pf = out_mesh(slice_call(tm, mesh, nn, o, api, cap=True, engine=engine))
        nv, nf = out_mesh(slice_call(tm, mesh, -nn, o, api, cap=True, engine=engine))
        K, (a, b) = to_grid([pv, nv])
        rec.update(K=K, pos={"v": a, "f": pf.tolist(), "src": face_hints(Vf, Ff, pv, pf)},
                   neg={"v": b, "f": nf.tolist(), "src": face_hints(Vf, Ff, nv, nf)})
    return guarded(rec, run)


def pair_record(tm, mesh, Vf, Ff, name, p1, p2, rs):
    """slice by two planes at once (the part on the positive side of both)"""
    (n1, c1), (n2, c2) = p1, p2
    o1 = np.array(origin_for(n1, c1, rs), dtype=np.float64) / 2.0
    o2 = np.array(origin_for(n2, c2, rs), dtype=np.float64) / 2.0
    v = rs.randint(3)
    nn = np.array([normal_variant(n1, v), normal_variant(n2, v)])
    oo = np.array([o1, o2])
    api = ("slice_plane", "slice_mesh_plane")[rs.randint(2)]
    rec = base_record("slice", name, [p1, p2], None, origin=oo.tolist(), normal=nn.tolist(), api=api)
    rec.update(hasneg=False, pos=EMPTY_OUT, neg=EMPTY_OUT)

    def run(rec):
        pv, pf = out_mesh(slice_call(tm, mesh, nn, oo, api))
        try:
            K, (a,) = to_grid([pv], DMAX_PAIR)
        except OffLattice as e:
            if str(e) in ("denominator", "residual"):
                # two cuts can need a finer grid than TLC's integers carry: not judged (counted in the evidence)
                rec["skip"] = True
                return
            raise
        rec.update(K=K, pos={"v": a, "f": pf.tolist(), "src": face_hints(Vf, Ff, pv, pf)})
    return guarded(rec, run)


# ----------------------------------------------------------------------- worker
def _chunk(items):
    tm = import_trimesh()
    out = []
    meshes = {}
    for it in items:
        kind, name, wid = it[0], it[1], it[2]
        rs = np.random.RandomState((seed() * 7919 + wid * 104729 + 17) % (2 ** 31 - 1))
        if name not in meshes:
            V, F = SEEDS[name]
            Vf, Ff = np.array(V, dtype=np.float64), np.array(F, dtype=np.int64)
            meshes[name] = (tm.Trimesh(vertices=Vf.copy(), faces=Ff.copy(), process=False), Vf, Ff)
        mesh, Vf, Ff = meshes[name]
        if kind == "plane":
            _, _, _, n, c2, engines, want_slice, want_sub = it
            o = np.array(origin_for(n, c2, rs), dtype=np.float64) / 2.0
            nn = normal_variant(n, rs.randint(3))
            api = ("slice_plane", "slice_mesh_plane")[rs.randint(2)]
            out.append(section_record(tm, mesh, name, n, c2, o, nn, None, bool(rs.randint(2))))
            if want_slice:
                out.append(slice_record(tm, mesh, Vf, Ff, name, n, c2, o, nn, None, api))
                for eng in engines:
                    out.append(cap_record(tm, mesh, Vf, Ff, name, n, c2, o, nn, eng, api))
            if want_sub:
                nf = len(Ff)
                sub = sorted(rs.choice(nf, size=max(1, rs.randint(nf // 3, nf)), replace=False).tolist())
                if rs.randint(2):
                    rs.shuffle(sub)
                out.append(section_record(tm, mesh, name, n, c2, o, nn, sub, True))
                if want_slice:
                    out.append(slice_record(tm, mesh, Vf, Ff, name, n, c2, o, nn, sub, api))
        elif kind == "capsweep":
            _, _, _, n, c2, eng = it
            o = np.array(origin_for(n, c2, rs), dtype=np.float64) / 2.0
            nn = normal_variant(n, rs.randint(3))
            api = ("slice_plane", "slice_mesh_plane")[rs.randint(2)]
            out.append(cap_record(tm, mesh, Vf, Ff, name, n, c2, o, nn, eng, api))
        elif kind == "multi":
            _, _, _, n, c2s = it
            out.extend(multiplane_records(tm, mesh, name, n, c2s, rs))
        elif kind == "pair":
            _, _, _, p1, p2 = it
            out.append(pair_record(tm, mesh, Vf, Ff, name, p1, p2, rs))
    return out


# ------------------------------------------------------------------- enumeration
def k_plane(name, n, c2):
    """lcm of the denominators of the points where the plane n.(2p) = c2 crosses a mesh edge; an enumeration
    filter only: capped slices form cubic terms in TLC's 32-bit integers, so they are recorded only where the
    grid a correct result lives on is coarse enough"""
    V, F = SEEDS[name]
    K = 1
    for a, b in {tuple(sorted((f[i], f[(i + 1) % 3]))) for f in F for i in range(3)}:
        sa = 2 * sum(n[k] * V[a][k] for k in range(3)) - c2
        sb = 2 * sum(n[k] * V[b][k] for k in range(3)) - c2
        if sa * sb < 0:
            d = abs(sa - sb)
            g = d
            for k in range(3):
                g = math.gcd(g, abs(V[b][k] * sa - V[a][k] * sb))
            d //= g
            K = K * d // math.gcd(K, d)
    return K


def sign_patterns_v(name, n, c2):
    """{(0, 0, 0)} if some vertex lies on the plane (enumeration only)"""
    V, _ = SEEDS[name]
    return {(0, 0, 0)} if any(2 * (n[0] * v[0] + n[1] * v[1] + n[2] * v[2]) == c2 for v in V) else set()


def sign_patterns(name, n, c2):
    V, F = SEEDS[name]
    s = [(lambda d: (d > 0) - (d < 0))(2 * (n[0] * v[0] + n[1] * v[1] + n[2] * v[2]) - c2) for v in V]
    return {(s[a], s[b], s[c]) for a, b, c in F}


def build_work(tier, engines, rs):
    """quick: every (mesh, plane) pair once, in one of the three presentations of the seed (rotating), one
    seeded origin / normal scaling / api per pair; thorough: every presentation, each twice (once for the
    48-face seed) with other origins on the same plane, other normal scalings and the other api."""
    work, wid = [], 0
    patterns = set()
    npairs = 0
    nocap = {}
    toofine = 0
    for bi, base in enumerate(BASE_ORDER):
        V, F = SEEDS[base + "/r0"]
        planes = []
        for ni, n in enumerate(normals_for(base, tier)):
            # planes whose crossing points need a grid finer than TLC's 32-bit integers carry are not enumerated
            c2s = [c2 for c2 in offsets(V, n) if k_plane(base + "/r0", n, c2) <= KMAX]
            toofine += len(offsets(V, n)) - len(c2s)
            for c2 in c2s:
                planes.append((n, c2))
            # parallel sections through mesh_multiplane, one call per normal covering every offset
            # (quick: every second normal per seed, alternating between seeds)
            if tier != "thorough" and (ni + bi) % 2:
                continue
            for r in (range(3) if tier == "thorough" else [(len(work) + bi) % 3]):
                work.append(("multi", "%s/r%d" % (base, r), wid, n, c2s))
                wid += 1
        for k, (n, c2) in enumerate(planes):
            patterns |= sign_patterns(base + "/r0", n, c2)
            npairs += 1
            want_slice = positive_rep(n)
            # every engine on every pair, except in quick on every second pair of a convex seed (one engine, rotating):
            # caps with holes, several loops or pinched loops only arise on the non-convex seeds
            full = tier == "thorough" or base in NONCONVEX or k % 2 == 0 or not engines
            eng = list(engines) if full else [engines[(k // 2) % len(engines)]]
            if k_plane(base + "/r0", n, c2) > KCAP:
                eng = []
                if want_slice:
                    nocap[base + str(list(n))] = nocap.get(base + str(list(n)), 0) + 1
            nrep = 1 if base == "uhole" else 2          # the 48-face seed is the most expensive one to validate
            reps = [(r, j) for r in range(3) for j in range(nrep)] if tier == "thorough" else [((k + bi) % 3, 0)]
            for r, j in reps:
                want_sub = ((k + j) % 3) == 0
                work.append(("plane", "%s/r%d" % (base, r), wid, n, c2, eng, want_slice, want_sub))
                wid += 1
            # capping a non-convex solid through a vertex pinches the section polygon and the outcome then
            # depends on rounding noise: more origins on the same plane, normal scalings and engines
            if eng and base in NONCONVEX and (0, 0, 0) in sign_patterns_v(base + "/r0", n, c2):
                for q in range((15 if base == "uhole" else 40) if tier == "thorough" else 2):
                    work.append(("capsweep", "%s/r%d" % (base, (k + q) % 3), wid, n, c2, eng[(k + q) % len(eng)]))
                    wid += 1
        # plane pairs for multi-plane slicing: normals from {-1,0,1}^3
        simple = [(n, c2) for n, c2 in planes if max(abs(x) for x in n) == 1]
        for q in range(600 if tier == "thorough" else 60):
            p1 = simple[rs.randint(len(simple))]
            p2 = simple[rs.randint(len(simple))]
            if p1[0] == p2[0] or p1[0] == tuple(-x for x in p2[0]):
                continue
            work.append(("pair", "%s/r%d" % (base, q % 3), wid, p1, p2))
            wid += 1
    nocap["planes_not_enumerated_at_all"] = toofine
    return work, patterns, npairs, nocap


def main(argv):
    tier = tier_from_args(argv)
    V = Verdict(PROP, tier)
    import_trimesh()
    engines, skipped = [], []
    for eng, mod in ENGINE_MODULES:
        try:
            importlib.import_module(mod)
            engines.append(eng)
        except Exception:  # noqa
            skipped.append(eng)
    rs = np.random.RandomState(seed() + 11)
    work, patterns, npairs, nocap = build_work(tier, engines, rs)
    if len(patterns) != 27:
        raise MachineryError(f"only {len(patterns)} of 27 triangle sign patterns enumerated")
    order = rs.permutation(len(work))          # balance the chunks
    res = pmap(_chunk, [work[j] for j in order], chunk=40)
    cases = [c for r in res for c in r]
    skipped_pairs = sum(1 for c in cases if c.get("skip"))
    cases = [c for c in cases if not c.get("skip")]
    for k, c in enumerate(cases):
        c["id"] = k
    descs = [c.pop("desc") for c in cases]
    if len(cases) < 2000:
        raise MachineryError("too few cases")
    # 16 TLC shards run side by side: bound each JVM's heap and the number of records it holds at once
    os.environ.setdefault("JAVA_TOOL_OPTIONS", "-Xmx2g")
    rejects, states, wall = {}, 0, 0.0
    for lo in range(0, len(cases), ROUND):
        r, st, w = tlc.validate_batches("c11", "Section", cases[lo:lo + ROUND], CFG, timeout=3000)
        rejects.update(r)
        states += st
        wall += w
    bykind, byapi, byengine, ks = {}, {}, {}, {}
    nonempty_sections = nonempty_halves = empty_halves = cut_slices = 0
    for c, d in zip(cases, descs):
        key = c["kind"] + ("_pair" if len(c["planes"]) > 1 else "") + ("_subset" if len(c["sub"]) < len(c["F"]) else "")
        bykind[key] = bykind.get(key, 0) + 1
        byapi[d["api"]] = byapi.get(d["api"], 0) + 1
        ks[c["K"]] = ks.get(c["K"], 0) + 1
        if c["kind"] == "cap":
            byengine[d["engine"]] = byengine.get(d["engine"], 0) + 1
            for h in (c["pos"], c["neg"]):
                if len(h["f"]):
                    nonempty_halves += 1
                else:
                    empty_halves += 1
        if c["kind"] == "section" and len(c["segs"]):
            nonempty_sections += 1
        if c["kind"] == "slice" and len(c["pos"]["f"]) and (not c["hasneg"] or len(c["neg"]["f"])):
            cut_slices += 1
    if not (nonempty_sections > 500 and cut_slices > 300 and (nonempty_halves > 300 or not engines)):
        raise MachineryError("enumeration nearly empty: %d sections, %d cut slices, %d halves"
                             % (nonempty_sections, cut_slices, nonempty_halves))
    notes = {}
    for cid, clause in sorted(rejects.items()):
        c, d = cases[cid], descs[cid]
        if clause.startswith("MODEL_LIMIT"):
            raise MachineryError(f"{clause}: case {d} K={c['K']}")
        if clause.startswith("NOTE_"):
            # an observation the property does not rule out (see Section.tla): counted, never a violation
            e = notes.setdefault(clause, {"count": 0, "example": {"planes": c["planes"], **d}})
            e["count"] += 1
            continue
        detail = {"kind": c["kind"], "planes": c["planes"], "K": c["K"], "exc": c["exc"], "off": c["off"],
                  "subset": c["sub"] if len(c["sub"]) < len(c["F"]) else "all", **d}
        dev = None
        if c["kind"] == "cap" and d["seed"].split("/")[0] in NONCONVEX and \
                (clause == "capped_volumes_do_not_add_up" or clause.startswith("raised_")):
            # the section polygon of a non-convex solid is pinched where the plane passes through a vertex;
            # edges_to_polygons / repair_invalid then drops or garbles a cap (depends on float noise): the
            # volumes do not add up, or the garbled polygon makes the triangulation engine raise
            pl = c["planes"][0]
            if any(2 * sum(a * b for a, b in zip(pl["n"], v)) == pl["c2"] for v in c["V"]):
                dev = "CapOfSectionThroughVertexNonConvex"
        V.violation(f"{c['kind']}:{clause}", detail, dev)

    def sample(k):
        c, d = cases[k], descs[k]
        s = {"kind": c["kind"], "planes": c["planes"], "K": c["K"], **d}
        if c["kind"] == "section":
            s["segments"] = c["segs"][:3]
        else:
            s["positive_faces"] = len(c["pos"]["f"])
            s["negative_faces"] = len(c["neg"]["f"])
        return s
    cov = {"states": states, "transitions": states, "traces_validated_against_impl": len(cases),
           "mesh_plane_pairs": npairs, "work_items": len(work),
           "seeds": {k: {"vertices": len(SEEDS[k + "/r0"][0]), "faces": len(SEEDS[k + "/r0"][1])} for k in BASE_ORDER},
           "presentations_per_seed": 3,
           "normals": len(normals_all()), "extra_tilted_normals_for_uhole": [list(n) for n in TILTED], "triangle_sign_patterns": len(patterns),
           "records_per_kind": bykind, "records_per_api": byapi, "capped_records_per_engine": byengine,
           "planes_not_capped_grid_too_fine": nocap, "plane_pairs_not_judged_grid_too_fine": skipped_pairs,
           "engines_used": engines, "engines_skipped_not_importable": skipped,
           "sections_with_segments": nonempty_sections, "slices_with_faces_on_both_sides_or_pairs": cut_slices,
           "capped_halves_nonempty": nonempty_halves, "capped_halves_empty": empty_halves,
           "common_denominators": {str(k): v for k, v in sorted(ks.items())},
           "rejected": len(rejects) - sum(e["count"] for e in notes.values()),
           "observations_outside_the_property": notes, "tlc_wall_s": round(wall, 1),
           "samples": [sample(len(cases) // 5), sample(len(cases) // 2), sample(len(cases) - 1)]}
    return V.finish("model_checking", cov, assumptions=[
        "lattice meshes with coordinates in 0..3; integer normals; plane offsets on the lattice and half lattice: "
        "every vertex is exactly on the plane or at least 1/(2|n|) away, so tol.merge never decides a case",
        "returned coordinates are rationals with denominator <= %d (snap residual <= 1e-9)" % DMAX,
        "watertightness demanded of non-empty halves of convex seeds only; isolated touching points, sections with an "
        "edge in the plane (beyond soundness), the owner of an in-plane face and unselected faces are unconstrained",
        "each capped half must have the volume of the solid's part in its half space for convex seeds and for cuts "
        "through no vertex; for non-convex seeds cut through a vertex only the stated sum of the two volumes is "
        "demanded and a differing half volume is counted under observations_outside_the_property",
    ])


if __name__ == "__main__":
    try:
        sys.exit(main(sys.argv[1:]))
    except MachineryError as e:
        print("MACHINERY-ERROR:", e)
        sys.exit(2)
