"""C18 - repair and subdivision keep the surface and restore validity.

Reference semantics: spec/Repair.tla (post-conditions as exact relations between the recorded
pre-mesh and post-mesh: the 1 -> 4 midpoint split as a bag of oriented triangles, kept vertices,
6 * signed volume, quarter vector areas, watertightness / Euler number on the indexed result;
squared edge lengths against the bound and the pieces of every original face for
subdivide_to_size; unchanged vertices / unoriented triangle bag, opposed shared edges and
positive volume per face-connected body for normal repair; closed hole edges, kept survivors,
added faces on the hole boundary only, consistent winding and the original volume for planar
holes for hole filling).

code -> spec: Python enumerates closed lattice surfaces (tetrahedra, octahedra, cube, two
disjoint bodies, a genus-1 3x3 torus) and open sheets, all on coordinates that are multiples of
four, once more refined for a second round of subdivision, in seeded presentations (vertex
relabelling, face order, rotation of every index triple, translation), re-winds subsets of faces
(every subset of the small surfaces) / removes one or two faces / selects face subsets / picks
bounds and iteration caps, calls the real
  Trimesh.fix_normals(multibody=None|True|False), repair.fix_winding, repair.fix_inversion,
  Trimesh.fill_holes, Trimesh.subdivide / remesh.subdivide (face_index=None|subset),
  Trimesh.subdivide_to_size(max_edge, max_iter, return_index), Trimesh.subdivide_loop
on a fresh Trimesh(process=False) (optionally with its cache warmed first), projects the arrays
before and after to integers (result coordinates over a common power-of-two denominator, exact)
and has TLC validate every record in batch.  Python computes no expected value.

Audit extension (coverage of the quantified domain): larger and higher-genus surfaces (refined cube,
polycube rings of genus 1 and 2, three bodies, a body nested in another), unreferenced vertices, histories
before fix_normals (reads, invert(), a first fix_normals()), any number of removed faces for fill_holes (only
3- and 4-cycles have to be closed), face colours / a second call, the composite fill_holes() -> fix_normals()
on a mesh with faces removed AND re-wound, every container / dtype form of face_index, faces and vertices
for subdivide, texture and vertex-attribute carrying meshes, return_index, a second round on the REAL result
of the first, the function entry points / dtypes / uv path / presentations of subdivide_to_size, loop
subdivision with unreferenced vertices and three bodies, and mesh.triangles as an observation point.

Known finding FillHolesQuadDiagonalIsExistingEdge: records rejected by a fill_holes clause for which
Repair.tla's input-only predicate QuadDiagonalIsExistingEdge holds are attributed to it.
"""
import itertools
import json
import logging
import os
import sys

import numpy as np

from harness import tlc
from harness.common import (MachineryError, Verdict, import_trimesh, pmap, seed,
                            tier_from_args)

PROP = "C18"
CFG = "INIT Init\nNEXT Next\nINVARIANT Report\nINVARIANT InputSane\nINVARIANT RefLaws\nCHECK_DEADLOCK FALSE\n"
FIX_APIS = ("fix_normals_auto", "fix_normals_multibody", "fix_normals_single", "fix_winding")
INV_APIS = ("fix_inversion_multibody", "fix_inversion_single")
OFFSETS = [(0, 0, 0), (4, -8, 4), (-4, 4, 8), (8, 4, -4), (-8, -4, -8), (4, 8, 0), (0, -4, 4)]
# max_edge = n / d (d a power of two: exact as a float)
BOUNDS = [(3, 4), (1, 1), (3, 2), (2, 1), (5, 2), (3, 1), (4, 1), (6, 1), (100, 1)]
MAX_ITERS = [0, 1, 2, 3, 5, 10]
INT_LIMIT = 2 ** 31 - 1
# scratch directory under /verif/.work (a suffix lets several runs, e.g. of mutants, coexist)
WORKNAME = "c18" + os.environ.get("VERIF_C18_WORK_SUFFIX", "")
# tag printed by Repair.tla Deviation(c) -> id of the known finding (known_findings.jsonl)
DEVIATIONS = {"QDE": "FillHolesQuadDiagonalIsExistingEdge",
              # findings of the coverage audit (input-only predicates in Repair.tla); not listed as known
              # findings, so observations attributed to them are VIOLATIONs until they are repaired / listed
              "QSA": "FillHolesQuadStraightAngle",
              "SFT": "SubdivideFaceIndexTuple",
              "SU64": "SubdivideUnsigned64Faces",
              "SVA1": "SubdivideFlatVertexAttribute",
              "LUV": "SubdivideLoopUnreferencedVertex"}
ROUND = 40000              # records recorded and validated per round (bounded memory)
REPORT_CAP = 60            # V.violation calls per (clause, deviation); the full counts are in the evidence


# ------------------------------------------------------------------ input surfaces
def quads(qs):
    out = []
    for a, b, c, d in qs:
        out += [[a, b, c], [a, c, d]]
    return out


def det3(a, b, c):
    return (a[0] * (b[1] * c[2] - b[2] * c[1]) - a[1] * (b[0] * c[2] - b[2] * c[0])
            + a[2] * (b[0] * c[1] - b[1] * c[0]))


def outward(v, f):
    """Choose the orientation of a closed consistently wound body that encloses positive volume
    (input construction only; Repair.tla InputSane checks the hypothesis on every record)."""
    if sum(det3(v[a], v[b], v[c]) for a, b, c in f) < 0:
        f = [[a, c, b] for a, b, c in f]
    return f


def join(parts):
    v, f = [], []
    for pv, pf in parts:
        n = len(v)
        v += [list(p) for p in pv]
        f += [[a + n, b + n, c + n] for a, b, c in pf]
    return v, f


def refined(v, f):
    """A finer input surface: every face cut in four through one shared point per edge."""
    v = [list(p) for p in v]
    mid = {}

    def m(a, b):
        key = (min(a, b), max(a, b))
        if key not in mid:
            mid[key] = len(v)
            v.append([(v[a][j] + v[b][j]) // 2 for j in range(3)])
        return mid[key]

    out = []
    for a, b, c in f:
        ab, bc, ca = m(a, b), m(b, c), m(c, a)
        out += [[a, ab, ca], [ab, b, bc], [ca, bc, c], [ab, bc, ca]]
    return v, out


def library():
    """name -> (vertices (multiples of 4), faces, closed)"""
    tet_f = [[0, 2, 1], [0, 1, 3], [1, 2, 3], [0, 3, 2]]
    tet_v = [[0, 0, 0], [4, 0, 0], [0, 4, 0], [0, 0, 4]]
    skew_v = [[0, 0, 0], [8, 0, 0], [0, 4, 0], [4, 4, 8]]
    # a face with sides 12, 16, 20 is the longest of this one: after three halvings its longest edge
    # EQUALS the bound 5/2 (the boundary case of "no edge longer than the bound")
    pyth_v = [[0, 0, 0], [12, 0, 0], [0, 16, 0], [0, 0, 4]]
    oct_f = [[0, 2, 4], [2, 1, 4], [1, 3, 4], [3, 0, 4], [2, 0, 5], [1, 2, 5], [3, 1, 5], [0, 3, 5]]
    oct_v = [[4, 0, 0], [-4, 0, 0], [0, 4, 0], [0, -4, 0], [0, 0, 8], [0, 0, -8]]
    reg_v = [[4, 0, 0], [-4, 0, 0], [0, 4, 0], [0, -4, 0], [0, 0, 4], [0, 0, -4]]
    cube_v = [[x, y, z] for x in (0, 4) for y in (0, 4) for z in (0, 4)]
    cube_f = quads([[0, 2, 3, 1], [4, 5, 7, 6], [0, 1, 5, 4], [2, 6, 7, 3], [0, 4, 6, 2], [1, 3, 7, 5]])
    # genus 1: a triangular ring with a triangular cross-section, 3 x 3 vertices
    vid = lambda i, j: 3 * (i % 3) + (j % 3)
    tor_f = quads([[vid(i, j), vid(i + 1, j), vid(i + 1, j + 1), vid(i, j + 1)] for i in range(3) for j in range(3)])
    tor_v = []
    for dx, dy in ((1, 0), (-1, 1), (-1, -1)):
        tor_v += [[12 * dx, 12 * dy, 0], [4 * dx, 4 * dy, 0], [8 * dx, 8 * dy, 4]]
    # open sheet: 3 x 3 quads over a 4 x 4 grid, slightly bumpy
    gid = lambda r, s: 4 * r + s
    sheet_v = [[4 * r, 4 * s, 4 * ((r * s) % 2)] for r in range(4) for s in range(4)]
    sheet_f = quads([[gid(r, s), gid(r + 1, s), gid(r + 1, s + 1), gid(r, s + 1)] for r in range(3) for s in range(3)])
    hid = lambda r, s: 5 * r + s
    sheet4_v = [[4 * r, 4 * s, 4 * ((r + 2 * s) % 3 == 0)] for r in range(5) for s in range(5)]
    sheet4_f = quads([[hid(r, s), hid(r + 1, s), hid(r + 1, s + 1), hid(r, s + 1)] for r in range(4) for s in range(4)])
    # coincident but distinct vertices: two boxes face to face assembled by concatenation, and
    # un-merged triangle soups (every face with private vertices)
    cube_next = [[x + 4, y, z] for x, y, z in cube_v]
    boxes_v, boxes_f = join([(cube_v, outward(cube_v, cube_f)), (cube_next, outward(cube_next, cube_f))])

    def soup(v, f):
        return [list(v[x]) for t in f for x in t], [[3 * k, 3 * k + 1, 3 * k + 2] for k in range(len(f))]

    tsoup_v, tsoup_f = soup(tet_v, outward(tet_v, tet_f))
    csoup_v, csoup_f = soup(cube_v, outward(cube_v, cube_f))
    cube_shift = [[x + 8, y + 8, z] for x, y, z in cube_v]
    two_v, two_f = join([(tet_v, outward(tet_v, tet_f)), (cube_shift, outward(cube_shift, cube_f))])
    # ---- audit surfaces
    # a tetrahedron one edge of which carries an extra vertex (4 on the edge 0-1): removing the two faces on
    # either side of the edge 2-4 (or 3-4) leaves a quad hole with a straight angle at vertex 4
    esplit_v = [[0, 0, 0], [8, 0, 0], [0, 8, 0], [0, 0, 8], [4, 0, 0]]
    esplit_f = [[0, 2, 4], [4, 2, 1], [0, 4, 3], [4, 1, 3], [1, 2, 3], [0, 3, 2]]
    oct_far = [[x, y + 20, z] for x, y, z in oct_v]
    tet_far = [[x + 20, y, z] for x, y, z in tet_v]
    three_v, three_f = join([(cube_v, outward(cube_v, cube_f)), (tet_far, outward(tet_far, tet_f)),
                             (oct_far, outward(oct_far, oct_f))])
    cube_big = [[3 * x - 4, 3 * y - 4, 3 * z - 4] for x, y, z in cube_v]
    nest_v, nest_f = join([(cube_v, outward(cube_v, cube_f)), (cube_big, outward(cube_big, cube_f))])
    cref_v, cref_f = refined(cube_v, outward(cube_v, cube_f))
    ring_v, ring_f = polycube([(x, y, 0) for x in range(3) for y in range(3) if (x, y) != (1, 1)])
    ring2_v, ring2_f = polycube([(x, y, 0) for x in range(5) for y in range(3) if (x, y) not in ((1, 1), (3, 1))])
    return {
        "edge_split_tetrahedron": (esplit_v, outward(esplit_v, esplit_f), True),
        "three_bodies": (three_v, three_f, True),
        "nested_cubes": (nest_v, nest_f, True),
        "cube_refined": (cref_v, cref_f, True),
        "ring_genus1": (ring_v, ring_f, True),
        "double_ring_genus2": (ring2_v, ring2_f, True),
        "tetrahedron": (tet_v, outward(tet_v, tet_f), True),
        "skew_tetrahedron": (skew_v, outward(skew_v, tet_f), True),
        "pythagorean_tetrahedron": (pyth_v, outward(pyth_v, tet_f), True),
        "octahedron": (oct_v, outward(oct_v, oct_f), True),
        "regular_octahedron": (reg_v, outward(reg_v, oct_f), True),
        "cube": (cube_v, outward(cube_v, cube_f), True),
        "tet_and_cube": (two_v, two_f, True),
        "torus3x3": (tor_v, outward(tor_v, tor_f), True),
        "sheet3x3": (sheet_v, sheet_f, False),
        "sheet4x4": (sheet4_v, sheet4_f, False),
        "boxes_face_to_face": (boxes_v, boxes_f, True),
        "tetrahedron_soup": (tsoup_v, tsoup_f, False),
        "cube_soup": (csoup_v, csoup_f, False),
    }


def polycube(cells):
    """Boundary surface of a union of lattice cubes of side 4 (cells: integer triples): one quad, wound
    outwards, per cube face that is not shared; manifold when no two cells touch along an edge or corner only."""
    cells = set(cells)
    vid, V, Q = {}, [], []

    def vi(p):
        if p not in vid:
            vid[p] = len(V)
            V.append([4 * p[0], 4 * p[1], 4 * p[2]])
        return vid[p]

    for cell in sorted(cells):
        for ax in range(3):
            for sg in (1, -1):
                nb = list(cell)
                nb[ax] += sg
                if tuple(nb) in cells:
                    continue
                o = list(cell)
                if sg == 1:
                    o[ax] += 1
                a1, a2 = [a for a in range(3) if a != ax]
                c = []
                for d1, d2 in ((0, 0), (1, 0), (1, 1), (0, 1)):
                    q = list(o)
                    q[a1] += d1
                    q[a2] += d2
                    c.append(vi(tuple(q)))
                if (ax == 1) != (sg == -1):
                    c = c[::-1]
                Q.append(c)
    return V, quads(Q)


LIB = library()
COINCIDENT = ("boxes_face_to_face", "tetrahedron_soup", "cube_soup")      # only handed to subdivide
# surfaces of the audit families: not part of the per-surface loops over the whole library
AUDIT_ONLY = ("edge_split_tetrahedron", "three_bodies", "nested_cubes", "cube_refined", "ring_genus1",
              "double_ring_genus2")
BASE = tuple(n for n in LIB if n not in AUDIT_ONLY)
SURFACES = tuple(n for n in BASE if n not in COINCIDENT)
# two unreferenced vertices (distinct even lattice points away from every surface): one first, one last
UNREF = ([-36, -40, -44], [52, 48, 44])
# histories before fill_holes: what is read (and so cached) before invert(); 0 = no history
HISTORIES = {1: "invert", 2: "warm_up+invert", 3: "edges+invert", 4: "is_watertight+invert",
             5: "face_normals+edges_sorted+invert"}


def present(name, pres):
    """The surface `name` in presentation `pres` (0 = as written): vertex relabelling, face order,
    rotation of every index triple and a translation, all seeded."""
    v, f, closed = LIB[name]
    v = [list(p) for p in v]
    f = [list(t) for t in f]
    if pres:
        rs = np.random.RandomState((seed() * 7919 + pres * 104729 + len(name)) % (2 ** 31))
        perm = rs.permutation(len(v))
        nv = [None] * len(v)
        for old, new in enumerate(perm):
            nv[int(new)] = v[old]
        off = OFFSETS[rs.randint(len(OFFSETS))]
        v = [[p[0] + off[0], p[1] + off[1], p[2] + off[2]] for p in nv]
        f = [[int(perm[x]) for x in t] for t in f]
        f = [t[r:] + t[:r] for t, r in zip(f, rs.randint(3, size=len(f)))]
        f = [f[j] for j in rs.permutation(len(f))]
    return v, f, closed


def rewound(t, style):
    """The same triangle traversed the other way, written in one of its three forms."""
    a, b, c = t
    return [[c, b, a], [a, c, b], [b, a, c]][style % 3]


# ------------------------------------------------------------------ projection
def snap(A):
    """float array -> (den, integer rows) with den the smallest power of two making every
    coordinate an integer (exact, no tolerance); None when there is none up to 1024."""
    A = np.asarray(A, dtype=np.float64)
    if A.ndim != 2 or A.shape[1] != 3 or not np.isfinite(A).all():
        return None
    den = 1
    while den <= 1024:
        B = A * den
        if np.all(B == np.round(B)):
            if np.abs(B).max(initial=0) >= 2 ** 20:
                return None
            return den, B.astype(np.int64).tolist()
        den *= 2
    return None


def face_rows(F):
    F = np.asarray(F)
    if F.size == 0:
        return []
    if F.ndim != 2 or F.shape[1] != 3 or F.dtype.kind not in "iu":
        raise TypeError("faces shape")
    return F.astype(np.int64).tolist()


NOREP = {"has": False, "wt": False, "wc": False, "eul": 0, "vol6": 0, "vol6ok": False, "novol": False, "nrm": [],
         "tri": []}
TRI_CAP = 260              # mesh.triangles is recorded for results of at most this many faces


def reported(m, den, normals, tri=True):
    """What the result object reports about itself (the observation points of the property)."""
    r = {"has": True, "wt": bool(m.is_watertight), "wc": bool(m.is_winding_consistent),
         "eul": int(m.euler_number), "vol6": 0, "vol6ok": False, "novol": False, "nrm": [], "tri": []}
    if tri and 0 < len(m.faces) <= TRI_CAP:
        T = np.asarray(m.triangles, dtype=np.float64)
        B = T * den
        if T.shape == (len(m.faces), 3, 3) and np.isfinite(B).all() and np.all(B == np.round(B)) \
                and np.abs(B).max() < 2 ** 20:
            r["tri"] = B.astype(np.int64).tolist()
        else:           # not on the lattice of the result vertices: cannot be the triangles of the result
            r["tri"] = [[[0, 0, 0]] * 3]
    x = float(m.volume) * 6.0 * den ** 3
    if np.isfinite(x) and abs(x - round(x)) <= 1e-9 * max(1.0, abs(x)) and abs(x) < INT_LIMIT:
        r["vol6"], r["vol6ok"] = int(round(x)), True
    if normals:
        n = np.asarray(m.face_normals, dtype=np.float64)
        if n.shape == (len(m.faces), 3) and np.isfinite(n).all():
            r["nrm"] = np.round(n * 1000.0).astype(np.int64).tolist()
        else:
            r["nrm"] = [[0, 0, 0]] * max(1, len(m.faces))
    return r


def with_unref(v, f):
    """The same surface with two unreferenced vertices, one before and one after the others."""
    return [list(UNREF[0])] + [list(p) for p in v] + [list(UNREF[1])], [[x + 1 for x in t] for t in f]


def proper_mesh(V, F):
    """Structural hypothesis of a pre-mesh (input selection only; Repair.tla InputSane checks it again):
    indices in range, even integer coordinates, no degenerate face, no edge used more than twice."""
    V = np.asarray(V)
    F = np.asarray(F)
    if V.ndim != 2 or V.shape[1] != 3 or F.ndim != 2 or F.shape[1] != 3 or len(F) == 0 or F.dtype.kind not in "iu":
        return False
    if F.min() < 0 or F.max() >= len(V) or not np.all(V == np.round(V)) or np.any(np.round(V).astype(np.int64) % 2):
        return False
    T = V[F]
    if not np.cross(T[:, 1] - T[:, 0], T[:, 2] - T[:, 0]).any(axis=1).all():
        return False
    cnt = {}
    for t in F.tolist():
        for j in range(3):
            e = (min(t[j], t[(j + 1) % 3]), max(t[j], t[(j + 1) % 3]))
            cnt[e] = cnt.get(e, 0) + 1
    return max(cnt.values()) <= 2


def warm_up(m):
    """Fill the cache the way a caller who inspects a mesh before repairing it does."""
    m.face_normals
    m.is_watertight
    m.is_winding_consistent
    m.volume
    m.euler_number
    m.face_adjacency
    m.body_count


def fits_tlc(v1, f1, per_face_cross=False):
    """TLC integers are 32 bit: say whether every exact sum the validator forms on this record
    stays below 2^31 (a bound on magnitudes only, no expected value)."""
    if not v1 or not f1:
        return True
    P = np.asarray(v1, dtype=np.int64)
    F = np.asarray(f1, dtype=np.int64)
    if F.min() < 0 or F.max() >= len(P):
        return True                     # the validator rejects the index range before any arithmetic
    if np.abs(P).max() + 3 >= 1000:
        return False
    for ref in ((0, 0, 0), (1, -2, 3)):
        T = P[F] - np.asarray(ref, dtype=np.int64)
        dets = np.einsum("ij,ij->i", T[:, 0], np.cross(T[:, 1], T[:, 2]))
        if np.abs(dets).sum() >= INT_LIMIT:
            return False
    ext = int((P.max(axis=0) - P.min(axis=0)).max())
    if per_face_cross and 3 * (2 * ext * ext) ** 2 >= INT_LIMIT:
        return False
    return True


# ------------------------------------------------------------------ one observation
def observe(trimesh, it):
    repair, remesh = trimesh.repair, trimesh.remesh
    op, name = it["op"], it["name"]
    v, f, closed = present(name, it["pres"])
    rec = {"id": it["id"], "exc": "", "op": op, "name": name, "pres": it["pres"], "closed": closed,
           "off": "", "den": 1, "v0": v, "f0": f, "v1": [], "f1": [], "rep": dict(NOREP), "item": it}
    V = np.array(v, dtype=np.float64)

    def fresh(faces):
        m = trimesh.Trimesh(vertices=V.copy(), faces=np.array(faces, dtype=np.int64), process=False)
        if np.asarray(m.faces).tolist() != [list(t) for t in faces] or np.asarray(m.vertices).tolist() != V.tolist():
            raise MachineryError("Trimesh(process=False) did not keep the input arrays")
        return m

    def put_result(vertices, faces):
        s = snap(vertices)
        if s is None:
            rec["off"] = "vertices"
            return False
        if np.size(faces) and np.asarray(faces).dtype.kind not in "iu":
            rec["off"] = "faces_not_integers"
            return False
        rec["den"], rec["v1"] = s
        rec["f1"] = face_rows(faces)
        return True

    try:
        if op == "fix":
            rec["fb"] = f
            flips = set(it["flips"])
            f0 = [rewound(t, it["style"] + k) if k in flips else list(t) for k, t in enumerate(f)]
            rec["f0"], rec["api"], rec["flips"] = f0, it["api"], sorted(flips)
            k2 = it.get("tiny_k", 0)
            if k2:
                # one body (the smallest by face count) lives at lattice * 2^-k2: exact in doubles; its
                # coordinates are multiplied back below, so TLC sees the unscaled lattice surface
                body = min(body_face_sets(f), key=len)
                vs = np.ones(len(v))
                vs[sorted({x for kf in body for x in f[kf]})] = 2.0 ** k2
                V = V / vs[:, None]
                rec["tiny_k"] = k2
            fh = it.get("fh", "")
            rec["fh"], rec["pre_ok"] = fh, True
            if it.get("unref"):
                # two unreferenced vertices: nothing may move, and they take no part in any body
                v, f0 = with_unref(v, f0)
                rec["fb"] = with_unref([], rec["fb"])[1]
                rec["v0"], rec["f0"] = v, f0
                V = np.array(v, dtype=np.float64)
            if fh in ("invert", "normals+invert", "warm_up+invert"):
                # history: the mesh is built inside out, (reads), invert(): the judged pre-mesh is f0
                m = fresh([t[::-1] for t in f0])
                if fh == "normals+invert":
                    m.vertex_normals
                    m.face_normals
                    m.triangles
                elif fh == "warm_up+invert":
                    warm_up(m)
                m.invert()
            else:
                m = fresh(f0)
            if it["warm"]:
                warm_up(m)
            if fh == "fix_first":
                # a first fix_normals(): the judged pre-mesh is its result (same triangles, possibly re-wound)
                m.fix_normals()
                mid = face_rows(m.faces)
                if sorted(map(sorted, mid)) != sorted(map(sorted, f0)):
                    return {"id": it["id"], "op": op, "name": name, "skipped": 0, "item": it}
                rec["f0"] = f0 = mid
            if fh:
                rec["pre_ok"] = bool(face_rows(m.faces) == [list(t) for t in f0]
                                     and np.asarray(m.vertices).tolist() == V.tolist())
            api = it["api"]
            if api == "fix_normals_auto":
                m.fix_normals()
            elif api == "fix_normals_multibody":
                m.fix_normals(multibody=True)
            elif api == "fix_normals_single":
                m.fix_normals(multibody=False)
            elif api == "fix_winding":
                repair.fix_winding(m)
            elif api == "fix_inversion_multibody":
                repair.fix_inversion(m, multibody=True)
            elif api == "fix_inversion_single":
                repair.fix_inversion(m, multibody=False)
            else:
                raise MachineryError("api " + api)
            out_v = np.asarray(m.vertices, dtype=np.float64)
            if k2 and out_v.shape == V.shape:
                out_v = out_v * vs[:, None]
            if put_result(out_v, m.faces):
                rec["rep"] = reported(m, rec["den"], normals=True, tri=not k2)
                rec["rep"]["novol"] = bool(k2)
        elif op == "fill":
            rec["fb"] = f
            removed = sorted(it["removed"])
            f0 = [list(t) for k, t in enumerate(f) if k not in removed]
            rec["f0"], rec["removed"], rec["ret"] = f0, removed, False
            rec["sgn"], rec["pre_ok"], rec["hist"] = 1, True, HISTORIES.get(it.get("hist", 0), "")
            cfg = rec["cfg"] = it.get("cfg", "")
            if cfg == "unref":
                v, f0 = with_unref(v, f0)
                f = with_unref([], f)[1]
                rec["v0"], rec["f0"], rec["fb"] = v, f0, f
                V = np.array(v, dtype=np.float64)
            m = fresh(f0)
            if cfg == "facecolor":
                # face colours: the branch of fill_holes that extends the colour array with the new faces
                m.visual.face_colors = (np.arange(4 * len(f0)).reshape((-1, 4)) * 7 % 256).astype(np.uint8)
            if it["warm"]:
                warm_up(m)
            hist = it.get("hist", 0)
            if hist:
                # a history before the call: reads that fill the cache, then invert(); the recorded
                # pre-mesh is the inverted one (every index triple reversed)
                if hist == 2:
                    warm_up(m)
                elif hist == 3:
                    m.edges
                elif hist == 4:
                    m.is_watertight
                elif hist == 5:
                    m.face_normals
                    m.edges_sorted
                m.invert()
                rec["fb"] = [t[::-1] for t in f]
                rec["f0"] = [t[::-1] for t in f0]
                rec["sgn"] = -1
                rec["pre_ok"] = bool(np.asarray(m.faces).tolist() == rec["f0"]
                                     and np.asarray(m.vertices).tolist() == V.tolist())
            ret = m.fill_holes()
            if cfg == "twice":
                ret = m.fill_holes()            # a second call: judged like the first, against the same pre-mesh
            if not isinstance(ret, (bool, np.bool_)):
                rec["off"] = "return_value"
            rec["ret"] = bool(ret)
            if put_result(m.vertices, m.faces):
                rec["rep"] = reported(m, rec["den"], normals=True)
        elif op == "fillfix":
            # faces removed AND survivors re-wound; fill_holes() then fix_normals()
            rec["fb"] = f
            removed = sorted(it["removed"])
            rest = [list(t) for k, t in enumerate(f) if k not in removed]
            flips = set(it["flips"])
            f0 = [rewound(t, it["style"] + k) if k in flips else t for k, t in enumerate(rest)]
            rec["f0"], rec["removed"], rec["flips"] = f0, removed, sorted(flips)
            m = fresh(f0)
            if it["warm"]:
                warm_up(m)
            m.fill_holes()
            m.fix_normals()
            if put_result(m.vertices, m.faces):
                rec["rep"] = reported(m, rec["den"], normals=True)
        elif op == "subdivide":
            # second round: the pre-mesh is a once refined surface, built here (input construction
            # only, independent of the code under test; Repair.tla InputSane checks it is a proper mesh)
            sel = it["sel"]
            for _ in range(it["depth"] - 1):
                v, f = refined(v, f)
            form, fdt, vdt, cfg = it.get("form", ""), it.get("fdt", ""), it.get("vdt", ""), it.get("cfg", "")
            rec.update({"form": form, "fdt": fdt, "vdt": vdt, "cfg": cfg, "pre_ok": True, "ri": False, "ridx": []})
            if cfg == "unref":
                v, f = with_unref(v, f)
            V = np.array(v, dtype=np.float64)
            rec["v0"], rec["f0"] = v, f
            m = fresh(f)
            if cfg == "chain":
                # second round on the REAL result of a first round of all faces (a mesh object built by
                # subdivide itself); that result is the recorded pre-mesh when it is a proper mesh
                m = m.subdivide()
                s1 = snap(m.vertices)
                if s1 is None or s1[0] != 1 or not proper_mesh(m.vertices, m.faces):
                    rec["pre_ok"] = False
                    rec["sel"], rec["api"] = [], it["api"]
                    return rec
                v, f = s1[1], face_rows(m.faces)
                V = np.array(v, dtype=np.float64)
                rec["v0"], rec["f0"] = v, f
                if sel != "all_none":
                    sel = [x for x in range(len(f)) if (x * 7 + it["id"]) % 5 < 2]
            nf = len(f)
            if sel == "all_none":
                rec["sel"], arg = list(range(nf)), None
            else:
                sel = sorted(int(x) for x in sel)
                rec["sel"] = sel
                rsf = np.random.RandomState((seed() * 31 + it["id"]) % (2 ** 31))
                if form == "":
                    arg = np.array(sel, dtype=np.int64) if it["id"] % 2 else list(sel)
                elif form == "bool":
                    arg = np.zeros(nf, dtype=bool)
                    arg[sel] = True
                elif form == "boollist":
                    arg = [k in set(sel) for k in range(nf)]
                elif form == "unsorted":
                    arg = np.array(sel, dtype=np.int64)[::-1] if it["id"] % 2 else [sel[j] for j in rsf.permutation(len(sel))]
                elif form == "repeated":
                    arg = np.array(sel + sel[:2] + sel[-1:], dtype=np.int64)
                elif form in ("int32", "uint8", "uint64", "int16"):
                    arg = np.array(sel, dtype=form)
                elif form == "tuple":
                    arg = tuple(sel)
                elif form == "negative":
                    arg = np.array([x - nf for x in sel], dtype=np.int64)
                else:
                    raise MachineryError("form " + form)
            rec["api"] = it["api"]
            if it["api"] == "mesh":
                if cfg == "uv":
                    # texture coordinates: the branch that subdivides vertices and uv stacked side by side
                    uv = (np.arange(2 * len(V)).reshape((-1, 2)) % 16) / 16.0
                    m.visual = trimesh.visual.TextureVisuals(uv=uv)
                elif cfg == "vattr2d":
                    m.vertex_attributes["a"] = np.arange(2.0 * len(V)).reshape((-1, 2))
                elif cfg == "vattr1d":
                    m.vertex_attributes["quality"] = np.arange(1.0 * len(V))
                if it["warm"]:
                    warm_up(m)
                out = m.subdivide(face_index=arg)
                if put_result(out.vertices, out.faces):
                    rec["rep"] = reported(out, rec["den"], normals=False)
            else:
                va = np.asarray(m.vertices).copy()
                fa = np.asarray(m.faces).copy()
                if vdt:
                    va = va.astype(vdt)             # lattice coordinates: exact in float32 and in integers
                if fdt:
                    fa = fa.astype(fdt)
                if it.get("ri"):
                    res = remesh.subdivide(va, fa, face_index=arg, return_index=True)
                    rec["ri"] = True
                    rows = [[int(k)] + [int(x) for x in np.asarray(ch).ravel()] for k, ch in res[2].items()]
                    rec["ridx"] = sorted(rows)
                else:
                    res = remesh.subdivide(va, fa, face_index=arg)
                put_result(res[0], res[1])
        elif op == "tosize":
            m = fresh(f)
            entry = it.get("entry", "mesh")
            rec.update({"me_n": it["me_n"], "me_d": it["me_d"], "max_iter": it["max_iter"], "ri": bool(it["ri"]),
                        "idx": [], "refused": False, "entry": entry})
            me = it["me_n"] / it["me_d"]
            if it["me_d"] == 1 and it.get("me_int"):
                me = [int(it["me_n"]), np.int64(it["me_n"]), np.float32(it["me_n"])][it["me_int"] - 1]
            kw = dict(max_edge=me, max_iter=it["max_iter"], return_index=bool(it["ri"]))
            try:
                if entry == "mesh":
                    out = m.subdivide_to_size(**kw)
                elif entry == "mesh_uv":
                    m.visual = trimesh.visual.TextureVisuals(uv=(np.arange(2 * len(V)).reshape((-1, 2)) % 16) / 16.0)
                    out = m.subdivide_to_size(**kw)
                else:
                    # the function entry point, with the containers / dtypes a caller may hold
                    va, fa = np.asarray(m.vertices).copy(), np.asarray(m.faces).copy()
                    if entry == "func_lists":
                        va, fa = va.tolist(), fa.tolist()
                    elif entry == "func_f32_i32":
                        va, fa = va.astype(np.float32), fa.astype(np.int32)
                    elif entry == "func_intverts_u32":
                        va, fa = va.astype(np.int64), fa.astype(np.uint32)
                    elif entry != "func":
                        raise MachineryError("entry " + entry)
                    out = remesh.subdivide_to_size(va, fa, **kw)
            except ValueError as e:
                if "max_iter exceeded" not in str(e):
                    raise
                rec["refused"] = True
                out = None
            if out is not None:
                if entry.startswith("mesh"):
                    if it["ri"]:
                        out, idx = out
                    ov, of = out.vertices, out.faces
                else:
                    ov, of = np.asarray(out[0])[:, :3], out[1]
                    if it["ri"]:
                        idx = out[2]
                if it["ri"]:
                    idx = np.asarray(idx)
                    if idx.dtype.kind not in "iu" or idx.ndim != 1:
                        rec["off"] = "index"
                    else:
                        rec["idx"] = idx.astype(np.int64).tolist()
                put_result(ov, of)
        elif op == "loop":
            if it.get("cfg") == "unref":
                v, f = with_unref(v, f)
                V = np.array(v, dtype=np.float64)
                rec["v0"], rec["f0"] = v, f
            m = fresh(f)
            out = m.subdivide_loop(iterations=it["iterations"])
            rec["iterations"] = it["iterations"]
            rec["f1"] = face_rows(out.faces)
            rec["nv1"] = int(len(out.vertices))
            if not np.isfinite(np.asarray(out.vertices, dtype=np.float64)).all():
                rec["off"] = "vertices"
        else:
            raise MachineryError("op " + op)
    except MachineryError:
        raise
    except BaseException as e:  # noqa - the implementation raised on a valid input
        rec["exc"] = type(e).__name__[:40]
        rec["v1"], rec["f1"] = [], []
        return rec
    if len(rec["f1"]) > it.get("max_pieces", 10 ** 9) or \
            not fits_tlc(rec["v1"], rec["f1"], per_face_cross=(op == "tosize")):
        if op != "tosize":
            raise MachineryError("record too large for exact 32-bit validation: %s" % json.dumps(it))
        # too many pieces for exact 32-bit sums in TLC: counted, not validated
        return {"id": it["id"], "op": op, "name": name, "skipped": len(rec["f1"]), "item": it}
    return rec


def run_chunk(items):
    trimesh = import_trimesh()
    logging.getLogger("trimesh").setLevel(logging.CRITICAL)
    return [observe(trimesh, it) for it in items]


# ------------------------------------------------------------------ enumeration
def adjacent_pairs(f):
    return [(a, b) for a, b in itertools.combinations(range(len(f)), 2) if len(set(f[a]) & set(f[b])) == 2]


def manifold_after_removal(f, removed):
    """Input selection only (Repair.tla InputSane checks it again): the removed faces have no edge on
    the border of the surface, and after removing them the faces around every touched vertex still
    form one fan - i.e. what is left is a manifold with a hole, not a pinched surface."""
    rest = [t for k, t in enumerate(f) if k not in removed]
    if not rest:
        return False
    cnt = {}
    for t in f:
        for j in range(3):
            e = tuple(sorted((t[j], t[(j + 1) % 3])))
            cnt[e] = cnt.get(e, 0) + 1
    if any(cnt[tuple(sorted((f[k][j], f[k][(j + 1) % 3])))] != 2 for k in removed for j in range(3)):
        return False                    # a removed face on the border of an open sheet is not a hole
    for v in {x for k in removed for x in f[k]}:
        inc = [t for t in rest if v in t]
        if not inc:
            return False
        seen, todo = {0}, [0]
        while todo:
            a = todo.pop()
            for b in range(len(inc)):
                if b not in seen and len(set(inc[a]) & set(inc[b])) == 2:
                    seen.add(b)
                    todo.append(b)
        if len(seen) != len(inc):
            return False
    return True


def subsets(n):
    for mask in range(1 << n):
        yield [k for k in range(n) if mask >> k & 1]


def work_items(tier):
    big = tier == "thorough"
    rs = np.random.RandomState(seed() + 1818)
    items = []
    exhaustive = []

    def add(**kw):
        kw["id"] = len(items)
        items.append(kw)

    # ---- normal repair: subsets of faces re-wound
    def fix_family(name, flip_sets, npres, full):
        n = len(LIB[name][1])
        for k, flips in enumerate(flip_sets):
            pres = 0 if (full and npres == 1) else (k % npres)
            add(op="fix", name=name, pres=pres, flips=flips, style=k, api="fix_normals_auto", warm=k % 2)
            add(op="fix", name=name, pres=pres, flips=flips, style=k + 1,
                api=FIX_APIS[1 + k % 3], warm=(k // 2) % 2)
        if full:
            exhaustive.append("fix_normals: all 2^%d re-wound subsets of %s" % (n, name))

    def sampled(n, count):
        out = []
        for k in range(count):
            kind = k % 4
            if kind == 0:
                mask = rs.rand(n) < 0.5
            elif kind == 1:
                mask = rs.rand(n) < 0.15
            elif kind == 2:
                mask = rs.rand(n) < 0.85
            else:
                mask = np.arange(n) % 2 == rs.randint(2)          # alternating faces
                mask ^= rs.rand(n) < 0.1
            out.append([int(x) for x in np.nonzero(mask)[0]])
        out += [[], list(range(n))]
        return out

    fix_family("tetrahedron", list(subsets(4)), 1, True)
    fix_family("octahedron", list(subsets(8)), 1, True)
    if big:
        fix_family("cube", list(subsets(12)), 1, True)
        fix_family("tet_and_cube", sampled(16, 20000), 11, False)
        fix_family("torus3x3", sampled(18, 20000), 11, False)
        fix_family("skew_tetrahedron", list(subsets(4)), 1, True)
    for name, cnt in (("tetrahedron", 16), ("octahedron", 60), ("cube", 180), ("tet_and_cube", 180),
                      ("torus3x3", 180), ("regular_octahedron", 30)):
        fix_family(name, sampled(len(LIB[name][1]), cnt * (8 if big else 1)), 7, False)
    # whole bodies of one or both components re-wound (the per-body inversion test alone)
    for name in ("tetrahedron", "octahedron", "cube", "tet_and_cube", "torus3x3"):
        for pres in range(6 if big else 3):
            v, f, _ = present(name, pres)
            comps = body_face_sets(f)
            for pick in subsets(len(comps)):
                flips = sorted(x for c in pick for x in comps[c])
                for k, api in enumerate(INV_APIS):
                    add(op="fix", name=name, pres=pres, flips=flips, style=pres + k, api=api, warm=(pres + k) % 2)
                add(op="fix", name=name, pres=pres, flips=flips, style=pres, api="fix_normals_auto", warm=pres % 2)
    # open sheet: only "no vertex moved, same triangles" is claimed
    for k, flips in enumerate(sampled(18, 300 if big else 40)):
        add(op="fix", name="sheet3x3", pres=k % 5, flips=flips, style=k, api=FIX_APIS[k % 4], warm=k % 2)

    # one body far below any merge tolerance (lattice tetrahedron * 2^-10 / 2^-12, |volume| ~ 1e-8 / 1e-10)
    # next to a normal-size cube: whole bodies inverted, and seeded subsets
    for k2 in (10, 12):
        for pres in range(4 if big else 2):
            v, f, _ = present("tet_and_cube", pres)
            comps = body_face_sets(f)
            for pick in subsets(len(comps)):
                flips = sorted(x for c in pick for x in comps[c])
                for k, api in enumerate(("fix_normals_auto", "fix_normals_multibody", "fix_inversion_multibody")):
                    add(op="fix", name="tet_and_cube", pres=pres, flips=flips, style=pres + k, api=api,
                        warm=(pres + k) % 2, tiny_k=k2)
        for k, flips in enumerate(sampled(16, 200 if big else 24)):
            add(op="fix", name="tet_and_cube", pres=k % 5, flips=flips, style=k, tiny_k=k2,
                api=("fix_normals_auto", "fix_normals_multibody")[k % 2], warm=(k // 2) % 2)

    # ---- hole filling after a history: (reads that fill the cache) -> invert() -> fill_holes()
    for name in ("skew_tetrahedron", "octahedron", "cube", "tet_and_cube", "torus3x3", "sheet4x4",
                 "edge_split_tetrahedron"):
        for pres in range(3 if big else 1):
            v, f, closed = present(name, pres)
            k = 0
            for removed in [[a] for a in range(len(f))] + [list(p) for p in adjacent_pairs(f)]:
                if manifold_after_removal(f, removed):
                    add(op="fill", name=name, pres=pres, removed=removed, warm=0, hist=1 + (k + pres) % len(HISTORIES))
                    k += 1

    # ---- hole filling: every single face, every adjacent pair (quad hole); thorough: every pair
    for name in ("tetrahedron", "skew_tetrahedron", "octahedron", "cube", "tet_and_cube", "torus3x3", "sheet4x4",
                 "edge_split_tetrahedron"):
        for pres in range(8 if big else 3):
            v, f, closed = present(name, pres)
            k = 0
            for a in range(len(f)):
                if manifold_after_removal(f, [a]):
                    add(op="fill", name=name, pres=pres, removed=[a], warm=(a + pres) % 2)
            pairs = list(itertools.combinations(range(len(f)), 2)) if big else adjacent_pairs(f)
            for a, b in pairs:
                if manifold_after_removal(f, [a, b]):
                    add(op="fill", name=name, pres=pres, removed=[a, b], warm=(k + pres) % 2)
                    k += 1
        exhaustive.append("fill_holes: every single face and every %s of %s whose removal leaves a manifold"
                          % ("pair of faces" if big else "edge-adjacent pair of faces", name))

    # ---- subdivide: all faces (face_index None and the full index list) and face subsets
    for name in BASE:
        for pres in range(4 if big else 2):
            n = len(LIB[name][1])
            for api in ("mesh", "func"):
                add(op="subdivide", name=name, pres=pres, sel="all_none", depth=1, api=api, warm=pres % 2)
                add(op="subdivide", name=name, pres=pres, sel=list(range(n)), depth=1, api=api, warm=0)
    for name in ("tetrahedron", "skew_tetrahedron", "octahedron", "cube", "sheet3x3") + (("torus3x3",) if big else ()):
        add(op="subdivide", name=name, pres=0, sel="all_none", depth=2, api="mesh", warm=0)
        add(op="subdivide", name=name, pres=1, sel="all_none", depth=2, api="func", warm=1)
        n2 = 4 * len(LIB[name][1])
        for k in range(12 if big else 3):
            sel = [int(x) for x in np.nonzero(rs.rand(n2) < 0.4)[0]]
            add(op="subdivide", name=name, pres=k % 3, sel=sel, depth=2, api=("mesh", "func")[k % 2], warm=0)
    for name, full in (("tetrahedron", True), ("skew_tetrahedron", big), ("octahedron", True), ("cube", big)):
        n = len(LIB[name][1])
        if full:
            for k, sel in enumerate(subsets(n)):
                add(op="subdivide", name=name, pres=0, sel=sel, depth=1, api=("mesh", "func")[k % 2], warm=(k // 2) % 2)
            exhaustive.append("subdivide(face_index): all 2^%d face subsets of %s" % (n, name))
    for k, sel in enumerate(subsets(4)):          # un-merged soup: every face subset, both entry points
        for api in ("mesh", "func"):
            add(op="subdivide", name="tetrahedron_soup", pres=k % 2, sel=sel, depth=1, api=api, warm=k % 2)
    exhaustive.append("subdivide(face_index): all 2^4 face subsets of tetrahedron_soup")
    for name, cnt in (("cube", 150), ("tet_and_cube", 40), ("torus3x3", 40), ("sheet3x3", 40), ("octahedron", 40),
                      ("boxes_face_to_face", 40), ("cube_soup", 40)):
        n = len(LIB[name][1])
        for k in range(cnt * (6 if big else 1)):
            p = (0.5, 0.2, 0.8)[k % 3]
            sel = [int(x) for x in np.nonzero(rs.rand(n) < p)[0]]
            add(op="subdivide", name=name, pres=k % 5, sel=sel, depth=1, api=("mesh", "func")[k % 2], warm=(k // 2) % 2)

    # ---- subdivide_to_size: grid of bounds x iteration caps
    pieces = 5000 if big else 800
    for name in ("tetrahedron", "skew_tetrahedron", "pythagorean_tetrahedron", "regular_octahedron", "cube", "sheet3x3",
                 "tet_and_cube"):
        if name == "tet_and_cube" and not big:
            continue
        k = 0
        for (n, d) in BOUNDS:
            for mi in MAX_ITERS:
                add(op="tosize", name=name, pres=0, me_n=n, me_d=d, max_iter=mi, ri=(k + k // 6) % 2, max_pieces=pieces)
                if big:
                    add(op="tosize", name=name, pres=0, me_n=n, me_d=d, max_iter=mi, ri=(k + k // 6 + 1) % 2,
                        max_pieces=pieces)
                k += 1
    exhaustive.append("subdivide_to_size: %d bounds x %d iteration caps per surface" % (len(BOUNDS), len(MAX_ITERS)))

    # ---- loop subdivision: topology only
    for name in SURFACES:
        for it_ in (1, 2):
            for pres in range(3 if big else 1):
                if it_ == 2 and len(LIB[name][1]) > 12 and not big:
                    continue
                add(op="loop", name=name, pres=pres, iterations=it_)

    # =================================================================== audit families
    mul = 8 if big else 1

    # ---- fix: larger / higher genus / more bodies, histories before the call, unreferenced vertices
    FH = ("", "invert", "normals+invert", "warm_up+invert", "fix_first")
    for name, cnt in (("cube_refined", 40), ("ring_genus1", 24), ("double_ring_genus2", 10), ("three_bodies", 60),
                      ("nested_cubes", 40)):
        n = len(LIB[name][1])
        single = name in ("cube_refined", "ring_genus1", "double_ring_genus2")
        for k, flips in enumerate(sampled(n, cnt * mul)):
            apis = FIX_APIS if single else ("fix_normals_auto", "fix_normals_multibody", "fix_winding")
            add(op="fix", fam="fix_large", name=name, pres=k % 5, flips=flips, style=k, api=apis[k % len(apis)],
                warm=(k // 3) % 2, fh=FH[k % 5] if k % 2 else "", unref=int(k % 7 == 3))
    for name in ("three_bodies", "nested_cubes"):
        for pres in range(4 if big else 2):
            v, f, _ = present(name, pres)
            comps = body_face_sets(f)
            for pick in subsets(len(comps)):
                flips = sorted(x for c in pick for x in comps[c])
                for k, api in enumerate(("fix_inversion_multibody", "fix_normals_auto", "fix_normals_multibody")):
                    add(op="fix", fam="fix_large", name=name, pres=pres, flips=flips, style=pres + k, api=api,
                        warm=(pres + k) % 2, fh=FH[(pres + k + len(pick)) % 5], unref=0)
    for name, cnt in (("octahedron", 40), ("cube", 60), ("tet_and_cube", 60), ("torus3x3", 60)):
        n = len(LIB[name][1])
        for k, flips in enumerate(sampled(n, cnt * mul)):
            add(op="fix", fam="fix_history", name=name, pres=k % 5, flips=flips, style=k,
                api=("fix_normals_auto", "fix_normals_multibody")[k % 2], warm=(k // 2) % 2, fh=FH[1 + k % 4],
                unref=int(k % 3 == 0))

    # whole single bodies inside out (or untouched) after every history: the inversion test alone, on a mesh
    # whose cache was filled before invert()
    for name in ("octahedron", "cube", "torus3x3", "cube_refined", "ring_genus1"):
        n = len(LIB[name][1])
        for pres in range(4 if big else 2):
            for j, flips in enumerate(([], list(range(n)))):
                for k, fh in enumerate(FH[1:]):
                    add(op="fix", fam="fix_history_whole", name=name, pres=pres, flips=flips, style=pres + k,
                        api=("fix_normals_auto", "fix_normals_single", "fix_inversion_single",
                             "fix_normals_multibody")[(pres + j + k) % 4], warm=0, fh=fh, unref=0)

    # ---- fill: any number of faces removed (what is left stays a manifold); fans around a vertex
    FCFG = ("", "facecolor", "unref", "twice", "")
    for name, cnt in (("octahedron", 30), ("cube", 60), ("tet_and_cube", 60), ("torus3x3", 80), ("sheet4x4", 60),
                      ("cube_refined", 60), ("three_bodies", 60), ("edge_split_tetrahedron", 20)):
        for pres in range(2):
            v, f, closed = present(name, pres)
            n = len(f)
            cands = []
            for x in range(len(v)):                                   # the whole fan of a vertex
                cands.append([k for k, t in enumerate(f) if x in t])
            for _ in range(cnt * mul * 3):
                k = 3 + rs.randint(4)
                if rs.rand() < 0.5:                                    # a patch grown from a face, else scattered
                    patch = [int(rs.randint(n))]
                    while len(patch) < k:
                        nb = [b for b in range(n) if b not in patch and any(len(set(f[a]) & set(f[b])) == 2 for a in patch)]
                        if not nb:
                            break
                        patch.append(nb[rs.randint(len(nb))])
                    cands.append(sorted(patch))
                elif rs.rand() < 0.5:
                    cands.append(sorted(int(x) for x in rs.choice(n, size=min(k, n), replace=False)))
                else:
                    # several separate triangle / quad holes: faces (or edge-adjacent pairs) without a common vertex
                    got, used = [], set()
                    for a in rs.permutation(n):
                        grp = [int(a)]
                        if rs.rand() < 0.4:
                            nb = [b for b in range(n) if b != a and len(set(f[a]) & set(f[b])) == 2]
                            if nb:
                                grp.append(nb[rs.randint(len(nb))])
                        vs = {x for g in grp for x in f[g]}
                        if not (vs & used):
                            got += grp
                            used |= vs
                        if len(got) >= k:
                            break
                    cands.append(sorted(got))
            seen, kept = set(), 0
            for removed in cands:
                if kept >= cnt * mul // 2 + len(v):
                    break
                if len(removed) < 3 or tuple(removed) in seen or n - len(removed) < 3:
                    continue
                seen.add(tuple(removed))
                if manifold_after_removal(f, removed):
                    add(op="fill", fam="fill_many", name=name, pres=pres, removed=removed, warm=kept % 2,
                        cfg=FCFG[kept % 5], hist=(1 + kept % len(HISTORIES)) if kept % 5 == 4 else 0)
                    kept += 1
    # options on the one- and two-face holes
    for name in ("octahedron", "cube", "tet_and_cube", "torus3x3", "edge_split_tetrahedron"):
        v, f, closed = present(name, 1)
        k = 0
        for removed in [[a] for a in range(len(f))] + [list(p) for p in adjacent_pairs(f)]:
            if manifold_after_removal(f, removed):
                add(op="fill", fam="fill_options", name=name, pres=1, removed=removed, warm=k % 2, cfg=FCFG[1 + k % 3])
                k += 1

    # ---- fill_holes() then fix_normals(): faces removed AND survivors re-wound
    for name in ("octahedron", "cube", "tet_and_cube", "torus3x3", "three_bodies", "edge_split_tetrahedron"):
        for pres in range(4 if big else 1):
            v, f, closed = present(name, pres)
            k = 0
            for removed in [[a] for a in range(len(f))] + [list(p) for p in adjacent_pairs(f)]:
                if not manifold_after_removal(f, removed):
                    continue
                for rep_ in range(3 if big else 1):
                    nrest = len(f) - len(removed)
                    p = (0.5, 0.2, 0.9)[(k + rep_) % 3]
                    flips = [int(x) for x in np.nonzero(rs.rand(nrest) < p)[0]]
                    add(op="fillfix", fam="fillfix", name=name, pres=pres, removed=removed, flips=flips, style=k,
                        warm=k % 2)
                k += 1

    # ---- subdivide: every container / dtype form of face_index, faces, vertices; visuals and attributes;
    #      return_index; a second round on the real result; unreferenced vertices
    FORMS = ("bool", "boollist", "unsorted", "repeated", "int32", "uint8", "tuple", "negative")
    for name, cnt in (("tetrahedron", 6), ("octahedron", 8), ("cube", 10), ("sheet3x3", 8), ("tet_and_cube", 6)):
        n = len(LIB[name][1])
        for k in range(cnt * mul):
            sel = [int(x) for x in np.nonzero(rs.rand(n) < (0.5, 0.25, 0.8)[k % 3])[0]]
            if k == 1:
                sel = []
            if k == 2:
                sel = list(range(n))
            for j, form in enumerate(FORMS):
                add(op="subdivide", fam="sub_forms", name=name, pres=(k + j) % 3, sel=sel, depth=1,
                    api=("mesh", "func")[(k + j) % 2], warm=0, form=form)
            for j, (fdt, vdt) in enumerate((("int32", ""), ("uint32", ""), ("uint64", ""), ("int16", ""),
                                            ("", "float32"), ("", "int64"), ("int32", "float32"))):
                add(op="subdivide", fam="sub_dtypes", name=name, pres=(k + j) % 3, sel=sel if j % 2 else "all_none",
                    depth=1, api="func", warm=0, fdt=fdt, vdt=vdt)
            for j, cfg in enumerate(("uv", "vattr2d", "vattr1d", "unref")):
                add(op="subdivide", fam="sub_" + cfg, name=name, pres=(k + j) % 3, sel=sel if (k + j) % 2 else "all_none",
                    depth=1, api="mesh", warm=(k // 2) % 2, cfg=cfg)
            add(op="subdivide", fam="sub_unref", name=name, pres=k % 3, sel=sel, depth=1, api="func", warm=0, cfg="unref")
            add(op="subdivide", fam="sub_ri", name=name, pres=k % 3, sel=sel, depth=1, api="func", warm=0, ri=1)
            add(op="subdivide", fam="sub_ri", name=name, pres=(k + 1) % 3, sel="all_none", depth=1, api="func", warm=0, ri=1,
                form="", fdt=("", "int32")[k % 2])
            if name != "tet_and_cube" or big:
                add(op="subdivide", fam="sub_chain", name=name, pres=k % 3, sel="all_none" if k % 2 else [0], depth=1,
                    api="mesh", warm=k % 2, cfg="chain")

    # ---- subdivide_to_size: function entry points / dtypes / uv path / scalar kinds of the bound / presentations
    ENTRIES = ("func", "func_lists", "func_f32_i32", "func_intverts_u32", "mesh_uv", "mesh")
    for name in ("tetrahedron", "skew_tetrahedron", "pythagorean_tetrahedron", "cube", "sheet3x3", "torus3x3"):
        k = 0
        for (n, d) in BOUNDS:
            if name == "torus3x3" and n / d < 2:
                continue
            for mi in MAX_ITERS:
                k += 1
                if not big and (k + len(name)) % 3:
                    continue
                add(op="tosize", fam="tosize_entries", name=name, pres=k % 3, me_n=n, me_d=d, max_iter=mi, ri=k % 2,
                    max_pieces=pieces, entry=ENTRIES[(k // 3 if not big else k) % len(ENTRIES)], me_int=k % 4)

    # the boundary case (longest edge EQUAL to the bound after three halvings) through every entry point
    for k, entry in enumerate(ENTRIES):
        for mi in (2, 3, 4):
            add(op="tosize", fam="tosize_entries", name="pythagorean_tetrahedron", pres=k % 3, me_n=5, me_d=2, max_iter=mi,
                ri=(k + mi) % 2, max_pieces=pieces, entry=entry, me_int=0)

    # ---- loop subdivision: unreferenced vertices, three bodies, larger surfaces
    for name in ("tetrahedron", "cube", "sheet3x3", "tet_and_cube"):
        add(op="loop", fam="loop_unref", name=name, pres=1, iterations=1, cfg="unref")
    for name in ("three_bodies", "nested_cubes", "ring_genus1", "cube_refined"):
        for pres in range(2 if big else 1):
            add(op="loop", fam="loop_large", name=name, pres=pres, iterations=1)
    return items, exhaustive


def body_face_sets(f):
    """Face ids grouped by shared vertices (the lattice bodies used here are vertex-disjoint):
    used only to choose WHICH faces to re-wound."""
    comp = {}
    groups = []
    for k, t in enumerate(f):
        hit = sorted({comp[x] for x in t if x in comp})
        if not hit:
            groups.append([k])
            g = len(groups) - 1
        else:
            g = hit[0]
            groups[g].append(k)
            for h in hit[1:]:
                for x, gx in list(comp.items()):
                    if gx == h:
                        comp[x] = g
                groups[g] += groups[h]
                groups[h] = []
        for x in t:
            comp[x] = g
    return [sorted(g) for g in groups if g]


# ------------------------------------------------------------------ bookkeeping
def winding_broken(f):
    seen = set()
    for t in f:
        for j in range(3):
            e = (t[j], t[(j + 1) % 3])
            if e in seen:
                return True
            seen.add(e)
    return False


def stats_of(cases):
    st = {}

    def add(k, v=1):
        st[k] = st.get(k, 0) + int(v)

    for c in cases:
        op = c["op"]
        add("records_" + op)
        add("%s:%s" % (op, c["name"]))
        add("family:" + c["item"].get("fam", "base"))
        if c["exc"]:
            add("raised")
            continue
        if op == "fix":
            add("fix_api:" + c["api"])
            add("fix_pre_winding_broken", winding_broken(c["f0"]))
            add("fix_pre_all_faces_rewound", len(c["flips"]) == len(c["f0"]))
            add("fix_result_differs_from_pre", c["f1"] != c["f0"])
            add("fix_cache_warm", c["item"]["warm"])
            add("fix_one_body_below_merge_tolerance", "tiny_k" in c)
            add("fix_history:" + c["fh"], bool(c["fh"]))
            add("fix_with_history", bool(c["fh"]))
            add("fix_unreferenced_vertices", bool(c["item"].get("unref")))
            add("fix_50_or_more_faces", len(c["f0"]) >= 50)
            add("fix_genus_two", c["name"] == "double_ring_genus2")
            add("fix_three_bodies_or_nested", c["name"] in ("three_bodies", "nested_cubes"))
            add("fix_triangles_observed", len(c["rep"]["tri"]) > 1)
        elif op == "fill":
            add("fill_triangle_hole", len(c["removed"]) == 1)
            add("fill_two_faces_removed", len(c["removed"]) == 2)
            add("fill_faces_added", len(c["f1"]) > len(c["f0"]))
            add("fill_returned_true", c["ret"])
            add("fill_after_invert_history", c["sgn"] == -1)
            add("fill_after_read_then_invert", c["sgn"] == -1 and c["hist"] != "invert")
            add("fill_three_or_more_removed", len(c["removed"]) >= 3)
            add("fill_many_some_faces_added", len(c["removed"]) >= 3 and len(c["f1"]) > len(c["f0"]))
            add("fill_many_not_closed", len(c["removed"]) >= 3 and not c["ret"])
            add("fill_cfg:" + c["cfg"], bool(c["cfg"]))
            add("fill_edge_split_tetrahedron", c["name"] == "edge_split_tetrahedron")
        elif op == "fillfix":
            add("fillfix_survivors_rewound", bool(c["flips"]))
            add("fillfix_faces_added", len(c["f1"]) > len(c["f0"]))
        elif op == "subdivide":
            add("subdivide_all_faces", len(c["sel"]) == len(c["f0"]))
            add("subdivide_proper_subset", 0 < len(c["sel"]) < len(c["f0"]))
            add("subdivide_empty_subset", len(c["sel"]) == 0)
            add("subdivide_second_round", c["item"]["depth"] == 2)
            add("subdivide_api:" + c["api"])
            add("subdivide_coincident_vertices", c["name"] in COINCIDENT)
            add("subdivide_form:" + c["form"], bool(c["form"]))
            add("subdivide_face_index_forms", bool(c["form"]))
            add("subdivide_dtypes", bool(c["fdt"] or c["vdt"]))
            add("subdivide_fdt:" + c["fdt"], bool(c["fdt"]))
            add("subdivide_cfg:" + c["cfg"], bool(c["cfg"]))
            add("subdivide_visual_or_attributes", c["cfg"] in ("uv", "vattr2d", "vattr1d"))
            add("subdivide_return_index", c["ri"])
            add("subdivide_chained_on_real_result", c["cfg"] == "chain" and c["pre_ok"])
            add("subdivide_unreferenced_vertices", c["cfg"] == "unref")
        elif op == "tosize":
            add("tosize_refused", c["refused"])
            add("tosize_returned", not c["refused"])
            add("tosize_returned_with_index", (not c["refused"]) and c["ri"])
            add("tosize_refined", (not c["refused"]) and len(c["f1"]) > len(c["f0"]))
            add("tosize_halved_coordinates", c["den"] > 1)
            add("tosize_pieces", len(c["f1"]))
            add("tosize_entry:" + c["entry"])
            add("tosize_function_entry", c["entry"].startswith("func"))
            add("tosize_function_entry_refined", c["entry"].startswith("func") and len(c["f1"]) > len(c["f0"]))
            add("tosize_presented", c["pres"] > 0)
        elif op == "loop":
            add("loop_faces_out", len(c["f1"]))
            add("loop_unreferenced_vertices", c["item"].get("cfg") == "unref")
    return st


def brief(c):
    keep = ("op", "name", "pres", "api", "flips", "tiny_k", "removed", "hist", "sel", "me_n", "me_d", "max_iter", "ri", "refused",
            "ret", "iterations", "den", "exc", "off", "fh", "cfg", "form", "fdt", "vdt", "entry", "pre_ok")
    out = {k: c[k] for k in keep if k in c}
    out["v0"], out["f0"] = c["v0"], c["f0"]
    if len(c["f1"]) <= 24:
        out["v1"], out["f1"] = c["v1"], c["f1"]
    else:
        out["faces_out"] = len(c["f1"])
    return out


def check_clause_names():
    import os
    import re
    from harness.common import SPEC_DIR
    text = open(os.path.join(SPEC_DIR, "Repair.tla")).read()
    text = text[text.index("the validator"):]
    lits = re.findall(r'"([A-Za-z_0-9]+)"', text)
    if not lits or max(map(len, lits)) > 48:
        raise MachineryError("a clause name in Repair.tla is too long for one TLC output line")


def main(argv):
    tier = tier_from_args(argv)
    V = Verdict(PROP, tier)
    import_trimesh()
    check_clause_names()
    if "--replay" in argv:
        rp = json.load(open(argv[argv.index("--replay") + 1]))
        items, exhaustive = [v["detail"]["item"] for v in rp["violations"]], []
        for k, it in enumerate(items):
            it["id"] = k
    else:
        items, exhaustive = work_items(tier)
        if len(items) < 2500:
            raise MachineryError("too few inputs enumerated: %d" % len(items))
    os.environ.setdefault("JAVA_TOOL_OPTIONS", "-Xmx2g")       # 16 JVMs: keep every heap bounded
    st, by_dev, pick = {}, {}, {}
    states, wall, nrec, nrej, nskip, reported = 0, 0.0, 0, 0, 0, {}
    nskip_hist = 0
    first = None
    for lo in range(0, len(items), ROUND):
        part = items[lo:lo + ROUND]
        # heavy records first so that the pool is balanced
        order = sorted(range(len(part)), key=lambda k: (part[k]["op"] not in ("tosize", "loop"), k))
        res = pmap(run_chunk, [part[k] for k in order], chunk=max(8, min(200, len(part) // 96 + 1)))
        got = sorted((c for r in res for c in r), key=lambda c: c["id"])
        if len(got) != len(part) or any(c["id"] != lo + k for k, c in enumerate(got)):
            raise MachineryError("records lost")
        nskip += sum(1 for c in got if "skipped" in c and c["op"] == "tosize")
        nskip_hist += sum(1 for c in got if "skipped" in c and c["op"] != "tosize")
        cases = [c for c in got if "skipped" not in c]
        byid = {c["id"]: c for c in cases}
        # the validator's shards take every 16th record: interleave the large ones
        slim = [{k: v for k, v in c.items() if k != "item"} for c in sorted(cases, key=lambda c: -len(c["f1"]))]
        rejects, n, w = tlc.validate_batches(WORKNAME, "Repair", slim, CFG, timeout=3000)
        if n != len(cases):
            raise MachineryError("TLC judged %d of %d records" % (n, len(cases)))
        states, wall, nrec, nrej = states + n, wall + w, nrec + len(cases), nrej + len(rejects)
        for cid, clause in sorted(rejects.items()):
            c = byid[cid]
            d = brief(c)
            d["item"] = c["item"]
            # Repair.tla prints the tag of a named deviation (decided on the input only) after the clause
            dev = None
            if " " in clause:
                clause, tag = clause.split(" ", 1)
                dev = DEVIATIONS.get(tag.strip().strip('"'))
                if dev is None:
                    raise MachineryError("unknown deviation tag from Repair.tla: " + tag)
                by_dev[dev] = by_dev.get(dev, 0) + 1
            key = (clause, dev)
            reported[key] = reported.get(key, 0) + 1
            if reported[key] <= REPORT_CAP:
                V.violation(clause, d, dev)
        for k, v in stats_of(cases).items():
            st[k] = st.get(k, 0) + v
        for c in cases:
            first = first or c
            if c["op"] not in pick and len(c["f1"]) <= 24 and (c["op"] != "fix" or c["flips"]):
                pick[c["op"]] = brief(c)
    if "--replay" not in argv and not V.violations:
        need = {"fix_pre_winding_broken": 500, "fix_result_differs_from_pre": 500, "fill_triangle_hole": 50,
                "fill_two_faces_removed": 50, "fill_faces_added": 100, "subdivide_all_faces": 20,
                "subdivide_proper_subset": 200, "tosize_refused": 20, "tosize_refined": 40,
                "tosize_returned_with_index": 20, "tosize_halved_coordinates": 5, "records_loop": 8,
                "fix_one_body_below_merge_tolerance": 50, "fill_after_read_then_invert": 60,
                "subdivide_coincident_vertices": 60,
                # audit families
                "family:fix_large": 200, "family:fix_history_whole": 60, "fix_50_or_more_faces": 30, "fix_genus_two": 8, "fix_three_bodies_or_nested": 100,
                "fix_with_history": 200, "fix_history:invert": 40, "fix_history:normals+invert": 40,
                "fix_history:warm_up+invert": 40, "fix_history:fix_first": 40, "fix_unreferenced_vertices": 60,
                "fix_triangles_observed": 1500,
                "fill_three_or_more_removed": 300, "fill_many_some_faces_added": 60, "fill_many_not_closed": 60,
                "fill_cfg:facecolor": 80, "fill_cfg:unref": 80, "fill_cfg:twice": 80, "fill_edge_split_tetrahedron": 20,
                "family:fillfix": 150, "fillfix_survivors_rewound": 120, "fillfix_faces_added": 100,
                "family:sub_forms": 250, "family:sub_dtypes": 200, "family:sub_uv": 30, "family:sub_vattr2d": 30,
                "family:sub_vattr1d": 30, "family:sub_ri": 60, "family:sub_chain": 25, "family:sub_unref": 60,
                "family:tosize_entries": 80, "tosize_function_entry": 40, "tosize_function_entry_refined": 15,
                "family:loop_unref": 4, "family:loop_large": 4}
        if nskip_hist:
            # a first fix_normals() changed the triangle set although no record was rejected
            raise MachineryError("history records skipped without any rejected record: %d" % nskip_hist)
        low = {k: st.get(k, 0) for k, n in need.items() if st.get(k, 0) < n}
        if low:
            raise MachineryError("enumeration nearly empty: %s" % low)
    cov = {
        "states": states, "transitions": states,
        "traces_validated_against_impl": nrec,
        "records": nrec,
        "exercised": st,
        "exhaustive": bool(exhaustive),
        "exhaustive_scopes": exhaustive,
        "rejected": nrej,
        "rejected_by_clause_and_deviation": {"%s|%s" % (k[0], k[1] or "-"): v for k, v in sorted(reported.items(), key=lambda kv: (kv[0][0], kv[0][1] or ""))},
        "rejected_by_deviation": by_dev,
        "reported_violations_capped_per_clause_and_deviation": REPORT_CAP,
        "to_size_results_too_large_to_validate": nskip,
        "audit_families": {k[7:]: v for k, v in sorted(st.items()) if k.startswith("family:")},
        "tlc_wall_s": round(wall, 1),
        "samples": list(pick.values()) or [brief(first)],
    }
    return V.finish("model_checking", cov, assumptions=[
        "lattice surfaces on coordinates that are multiples of four (midpoints of two rounds are lattice points); "
        "result coordinates are projected exactly to integers over a power-of-two denominator, no tolerance",
        "subdivide of a proper face subset: only the documented contract (selected faces split, neighbours kept) "
        "is compared, the topology of the T-junctions is not constrained",
        "subdivide_loop moves vertices by design: only watertightness and the Euler number are compared",
        "fix_normals on the open sheet: only 'no vertex moved, same triangles' (the property claims re-winding "
        "for watertight meshes); multibody=False on several bodies: positive volume is not demanded "
        "(documented as working on one body only)",
        "fill_holes: a non-planar quad hole may be closed along either diagonal, so the volume is compared only "
        "for planar holes",
        "subdivide_to_size may refuse with ValueError('max_iter exceeded') only when max_iter halvings cannot "
        "reach the bound",
        "fill_holes with any number of faces removed: what is left must itself be a manifold with boundary (no "
        "pinched vertex, no removed face on the border of an open sheet); only boundary cycles of three or four "
        "edges have to be closed, longer holes may stay; face colours / texture / attributes carried by the mesh "
        "are not compared, only the geometry claims",
        "fill_holes() then fix_normals() on removed + re-wound faces: positive volume is demanded only when the "
        "removed patches are planar (a non-planar quad may be closed along either diagonal)",
        "containers and dtypes (face_index as mask / list / tuple / narrow or unsigned integers / negative indices, "
        "unsigned or narrow faces, float32 or integer lattice vertices, lists for subdivide_to_size) are "
        "presentations of the same face subset / mesh: the same post-conditions are demanded",
        "findings of the coverage audit are decided from the input alone in Repair.tla (tags QSA, SFT, SU64, SVA1, "
        "LUV) so that their observations are grouped; they are VIOLATIONs as long as they are not listed as known",
    ])


if __name__ == "__main__":
    try:
        sys.exit(main(sys.argv[1:]))
    except MachineryError as e:
        print("MACHINERY-ERROR:", e)
        sys.exit(2)
