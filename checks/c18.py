"""C18 - repair and subdivision keep the surface and restore validity.

Reference semantics: spec/Repair.tla (post-conditions as exact relations between the recorded
pre-mesh and post-mesh: the 1 -> 4 midpoint split as a bag of oriented triangles, kept vertices,
6 * signed volume, quarter vector areas, watertightness / Euler number on the indexed result;
squared edge lengths against the bound and the pieces of every original face for
subdivide_to_size; unchanged vertices / unoriented triangle bag, opposed shared edges and
positive volume per face-connected body for normal repair; closed hole edges, kept survivors,
added faces on the hole boundary only, consistent winding and the original volume for planar
holes for hole filling).

code -> spec: Python enumerates closed lattice surfaces (tetrahedra, octahedra, cube, two
disjoint bodies, a genus-1 3x3 torus) and open sheets, all on coordinates that are multiples of
four, once more refined for a second round of subdivision, in seeded presentations (vertex
relabelling, face order, rotation of every index triple, translation), re-winds subsets of faces
(every subset of the small surfaces) / removes one or two faces / selects face subsets / picks
bounds and iteration caps, calls the real
  Trimesh.fix_normals(multibody=None|True|False), repair.fix_winding, repair.fix_inversion,
  Trimesh.fill_holes, Trimesh.subdivide / remesh.subdivide (face_index=None|subset),
  Trimesh.subdivide_to_size(max_edge, max_iter, return_index), Trimesh.subdivide_loop
on a fresh Trimesh(process=False) (optionally with its cache warmed first), projects the arrays
before and after to integers (result coordinates over a common power-of-two denominator, exact)
and has TLC validate every record in batch.  Python computes no expected value.

Known finding FillHolesQuadDiagonalIsExistingEdge: records rejected by a fill_holes clause for which
Repair.tla's input-only predicate QuadDiagonalIsExistingEdge holds are attributed to it.
"""
import itertools
import json
import logging
import os
import sys

import numpy as np

from harness import tlc
from harness.common import (MachineryError, Verdict, import_trimesh, pmap, seed,
                            tier_from_args)

PROP = "C18"
CFG = "INIT Init\nNEXT Next\nINVARIANT Report\nINVARIANT InputSane\nINVARIANT RefLaws\nCHECK_DEADLOCK FALSE\n"
FIX_APIS = ("fix_normals_auto", "fix_normals_multibody", "fix_normals_single", "fix_winding")
INV_APIS = ("fix_inversion_multibody", "fix_inversion_single")
OFFSETS = [(0, 0, 0), (4, -8, 4), (-4, 4, 8), (8, 4, -4), (-8, -4, -8), (4, 8, 0), (0, -4, 4)]
# max_edge = n / d (d a power of two: exact as a float)
BOUNDS = [(3, 4), (1, 1), (3, 2), (2, 1), (5, 2), (3, 1), (4, 1), (6, 1), (100, 1)]
MAX_ITERS = [0, 1, 2, 3, 5, 10]
INT_LIMIT = 2 ** 31 - 1
# scratch directory under /verif/.work (a suffix lets several runs, e.g. of mutants, coexist)
WORKNAME = "c18" + os.environ.get("VERIF_C18_WORK_SUFFIX", "")
# tag printed by Repair.tla Deviation(c) -> id of the known finding (known_findings.jsonl)
DEVIATIONS = {"QDE": "FillHolesQuadDiagonalIsExistingEdge"}
ROUND = 40000              # records recorded and validated per round (bounded memory)
REPORT_CAP = 60            # V.violation calls per (clause, deviation); the full counts are in the evidence


# ------------------------------------------------------------------ input surfaces
def quads(qs):
    out = []
    for a, b, c, d in qs:
        out += [[a, b, c], [a, c, d]]
    return out


def det3(a, b, c):
    return (a[0] * (b[1] * c[2] - b[2] * c[1]) - a[1] * (b[0] * c[2] - b[2] * c[0])
            + a[2] * (b[0] * c[1] - b[1] * c[0]))


def outward(v, f):
    """Choose the orientation of a closed consistently wound body that encloses positive volume
    (input construction only; Repair.tla InputSane checks the hypothesis on every record)."""
    if sum(det3(v[a], v[b], v[c]) for a, b, c in f) < 0:
        f = [[a, c, b] for a, b, c in f]
    return f


def join(parts):
    v, f = [], []
    for pv, pf in parts:
        n = len(v)
        v += [list(p) for p in pv]
        f += [[a + n, b + n, c + n] for a, b, c in pf]
    return v, f


def library():
    """name -> (vertices (multiples of 4), faces, closed)"""
    tet_f = [[0, 2, 1], [0, 1, 3], [1, 2, 3], [0, 3, 2]]
    tet_v = [[0, 0, 0], [4, 0, 0], [0, 4, 0], [0, 0, 4]]
    skew_v = [[0, 0, 0], [8, 0, 0], [0, 4, 0], [4, 4, 8]]
    # a face with sides 12, 16, 20 is the longest of this one: after three halvings its longest edge
    # EQUALS the bound 5/2 (the boundary case of "no edge longer than the bound")
    pyth_v = [[0, 0, 0], [12, 0, 0], [0, 16, 0], [0, 0, 4]]
    oct_f = [[0, 2, 4], [2, 1, 4], [1, 3, 4], [3, 0, 4], [2, 0, 5], [1, 2, 5], [3, 1, 5], [0, 3, 5]]
    oct_v = [[4, 0, 0], [-4, 0, 0], [0, 4, 0], [0, -4, 0], [0, 0, 8], [0, 0, -8]]
    reg_v = [[4, 0, 0], [-4, 0, 0], [0, 4, 0], [0, -4, 0], [0, 0, 4], [0, 0, -4]]
    cube_v = [[x, y, z] for x in (0, 4) for y in (0, 4) for z in (0, 4)]
    cube_f = quads([[0, 2, 3, 1], [4, 5, 7, 6], [0, 1, 5, 4], [2, 6, 7, 3], [0, 4, 6, 2], [1, 3, 7, 5]])
    # genus 1: a triangular ring with a triangular cross-section, 3 x 3 vertices
    vid = lambda i, j: 3 * (i % 3) + (j % 3)
    tor_f = quads([[vid(i, j), vid(i + 1, j), vid(i + 1, j + 1), vid(i, j + 1)] for i in range(3) for j in range(3)])
    tor_v = []
    for dx, dy in ((1, 0), (-1, 1), (-1, -1)):
        tor_v += [[12 * dx, 12 * dy, 0], [4 * dx, 4 * dy, 0], [8 * dx, 8 * dy, 4]]
    # open sheet: 3 x 3 quads over a 4 x 4 grid, slightly bumpy
    gid = lambda r, s: 4 * r + s
    sheet_v = [[4 * r, 4 * s, 4 * ((r * s) % 2)] for r in range(4) for s in range(4)]
    sheet_f = quads([[gid(r, s), gid(r + 1, s), gid(r + 1, s + 1), gid(r, s + 1)] for r in range(3) for s in range(3)])
    hid = lambda r, s: 5 * r + s
    sheet4_v = [[4 * r, 4 * s, 4 * ((r + 2 * s) % 3 == 0)] for r in range(5) for s in range(5)]
    sheet4_f = quads([[hid(r, s), hid(r + 1, s), hid(r + 1, s + 1), hid(r, s + 1)] for r in range(4) for s in range(4)])
    # coincident but distinct vertices: two boxes face to face assembled by concatenation, and
    # un-merged triangle soups (every face with private vertices)
    cube_next = [[x + 4, y, z] for x, y, z in cube_v]
    boxes_v, boxes_f = join([(cube_v, outward(cube_v, cube_f)), (cube_next, outward(cube_next, cube_f))])

    def soup(v, f):
        return [list(v[x]) for t in f for x in t], [[3 * k, 3 * k + 1, 3 * k + 2] for k in range(len(f))]

    tsoup_v, tsoup_f = soup(tet_v, outward(tet_v, tet_f))
    csoup_v, csoup_f = soup(cube_v, outward(cube_v, cube_f))
    cube_shift = [[x + 8, y + 8, z] for x, y, z in cube_v]
    two_v, two_f = join([(tet_v, outward(tet_v, tet_f)), (cube_shift, outward(cube_shift, cube_f))])
    return {
        "tetrahedron": (tet_v, outward(tet_v, tet_f), True),
        "skew_tetrahedron": (skew_v, outward(skew_v, tet_f), True),
        "pythagorean_tetrahedron": (pyth_v, outward(pyth_v, tet_f), True),
        "octahedron": (oct_v, outward(oct_v, oct_f), True),
        "regular_octahedron": (reg_v, outward(reg_v, oct_f), True),
        "cube": (cube_v, outward(cube_v, cube_f), True),
        "tet_and_cube": (two_v, two_f, True),
        "torus3x3": (tor_v, outward(tor_v, tor_f), True),
        "sheet3x3": (sheet_v, sheet_f, False),
        "sheet4x4": (sheet4_v, sheet4_f, False),
        "boxes_face_to_face": (boxes_v, boxes_f, True),
        "tetrahedron_soup": (tsoup_v, tsoup_f, False),
        "cube_soup": (csoup_v, csoup_f, False),
    }


LIB = library()
COINCIDENT = ("boxes_face_to_face", "tetrahedron_soup", "cube_soup")      # only handed to subdivide
SURFACES = tuple(n for n in LIB if n not in COINCIDENT)
# histories before fill_holes: what is read (and so cached) before invert(); 0 = no history
HISTORIES = {1: "invert", 2: "warm_up+invert", 3: "edges+invert", 4: "is_watertight+invert",
             5: "face_normals+edges_sorted+invert"}


def present(name, pres):
    """The surface `name` in presentation `pres` (0 = as written): vertex relabelling, face order,
    rotation of every index triple and a translation, all seeded."""
    v, f, closed = LIB[name]
    v = [list(p) for p in v]
    f = [list(t) for t in f]
    if pres:
        rs = np.random.RandomState((seed() * 7919 + pres * 104729 + len(name)) % (2 ** 31))
        perm = rs.permutation(len(v))
        nv = [None] * len(v)
        for old, new in enumerate(perm):
            nv[int(new)] = v[old]
        off = OFFSETS[rs.randint(len(OFFSETS))]
        v = [[p[0] + off[0], p[1] + off[1], p[2] + off[2]] for p in nv]
        f = [[int(perm[x]) for x in t] for t in f]
        f = [t[r:] + t[:r] for t, r in zip(f, rs.randint(3, size=len(f)))]
        f = [f[j] for j in rs.permutation(len(f))]
    return v, f, closed


def refined(v, f):
    """A finer input surface: every face cut in four through one shared point per edge."""
    v = [list(p) for p in v]
    mid = {}

    def m(a, b):
        key = (min(a, b), max(a, b))
        if key not in mid:
            mid[key] = len(v)
            v.append([(v[a][j] + v[b][j]) // 2 for j in range(3)])
        return mid[key]

    out = []
    for a, b, c in f:
        ab, bc, ca = m(a, b), m(b, c), m(c, a)
        out += [[a, ab, ca], [ab, b, bc], [ca, bc, c], [ab, bc, ca]]
    return v, out


def rewound(t, style):
    """The same triangle traversed the other way, written in one of its three forms."""
    a, b, c = t
    return [[c, b, a], [a, c, b], [b, a, c]][style % 3]


# ------------------------------------------------------------------ projection
def snap(A):
    """float array -> (den, integer rows) with den the smallest power of two making every
    coordinate an integer (exact, no tolerance); None when there is none up to 1024."""
    A = np.asarray(A, dtype=np.float64)
    if A.ndim != 2 or A.shape[1] != 3 or not np.isfinite(A).all():
        return None
    den = 1
    while den <= 1024:
        B = A * den
        if np.all(B == np.round(B)):
            if np.abs(B).max(initial=0) >= 2 ** 20:
                return None
            return den, B.astype(np.int64).tolist()
        den *= 2
    return None


def face_rows(F):
    F = np.asarray(F)
    if F.size == 0:
        return []
    if F.ndim != 2 or F.shape[1] != 3 or F.dtype.kind not in "iu":
        raise TypeError("faces shape")
    return F.astype(np.int64).tolist()


NOREP = {"has": False, "wt": False, "wc": False, "eul": 0, "vol6": 0, "vol6ok": False, "novol": False, "nrm": []}


def reported(m, den, normals):
    """What the result object reports about itself (the observation points of the property)."""
    r = {"has": True, "wt": bool(m.is_watertight), "wc": bool(m.is_winding_consistent),
         "eul": int(m.euler_number), "vol6": 0, "vol6ok": False, "novol": False, "nrm": []}
    x = float(m.volume) * 6.0 * den ** 3
    if np.isfinite(x) and abs(x - round(x)) <= 1e-9 * max(1.0, abs(x)) and abs(x) < INT_LIMIT:
        r["vol6"], r["vol6ok"] = int(round(x)), True
    if normals:
        n = np.asarray(m.face_normals, dtype=np.float64)
        if n.shape == (len(m.faces), 3) and np.isfinite(n).all():
            r["nrm"] = np.round(n * 1000.0).astype(np.int64).tolist()
        else:
            r["nrm"] = [[0, 0, 0]] * max(1, len(m.faces))
    return r


def warm_up(m):
    """Fill the cache the way a caller who inspects a mesh before repairing it does."""
    m.face_normals
    m.is_watertight
    m.is_winding_consistent
    m.volume
    m.euler_number
    m.face_adjacency
    m.body_count


def fits_tlc(v1, f1, per_face_cross=False):
    """TLC integers are 32 bit: say whether every exact sum the validator forms on this record
    stays below 2^31 (a bound on magnitudes only, no expected value)."""
    if not v1 or not f1:
        return True
    P = np.asarray(v1, dtype=np.int64)
    F = np.asarray(f1, dtype=np.int64)
    if F.min() < 0 or F.max() >= len(P):
        return True                     # the validator rejects the index range before any arithmetic
    if np.abs(P).max() + 3 >= 1000:
        return False
    for ref in ((0, 0, 0), (1, -2, 3)):
        T = P[F] - np.asarray(ref, dtype=np.int64)
        dets = np.einsum("ij,ij->i", T[:, 0], np.cross(T[:, 1], T[:, 2]))
        if np.abs(dets).sum() >= INT_LIMIT:
            return False
    ext = int((P.max(axis=0) - P.min(axis=0)).max())
    if per_face_cross and 3 * (2 * ext * ext) ** 2 >= INT_LIMIT:
        return False
    return True


# ------------------------------------------------------------------ one observation
def observe(trimesh, it):
    repair, remesh = trimesh.repair, trimesh.remesh
    op, name = it["op"], it["name"]
    v, f, closed = present(name, it["pres"])
    rec = {"id": it["id"], "exc": "", "op": op, "name": name, "pres": it["pres"], "closed": closed,
           "off": "", "den": 1, "v0": v, "f0": f, "v1": [], "f1": [], "rep": dict(NOREP), "item": it}
    V = np.array(v, dtype=np.float64)

    def fresh(faces):
        m = trimesh.Trimesh(vertices=V.copy(), faces=np.array(faces, dtype=np.int64), process=False)
        if np.asarray(m.faces).tolist() != [list(t) for t in faces] or np.asarray(m.vertices).tolist() != V.tolist():
            raise MachineryError("Trimesh(process=False) did not keep the input arrays")
        return m

    def put_result(vertices, faces):
        s = snap(vertices)
        if s is None:
            rec["off"] = "vertices"
            return False
        rec["den"], rec["v1"] = s
        rec["f1"] = face_rows(faces)
        return True

    try:
        if op == "fix":
            rec["fb"] = f
            flips = set(it["flips"])
            f0 = [rewound(t, it["style"] + k) if k in flips else list(t) for k, t in enumerate(f)]
            rec["f0"], rec["api"], rec["flips"] = f0, it["api"], sorted(flips)
            k2 = it.get("tiny_k", 0)
            if k2:
                # one body (the smallest by face count) lives at lattice * 2^-k2: exact in doubles; its
                # coordinates are multiplied back below, so TLC sees the unscaled lattice surface
                body = min(body_face_sets(f), key=len)
                vs = np.ones(len(v))
                vs[sorted({x for kf in body for x in f[kf]})] = 2.0 ** k2
                V = V / vs[:, None]
                rec["tiny_k"] = k2
            m = fresh(f0)
            if it["warm"]:
                warm_up(m)
            api = it["api"]
            if api == "fix_normals_auto":
                m.fix_normals()
            elif api == "fix_normals_multibody":
                m.fix_normals(multibody=True)
            elif api == "fix_normals_single":
                m.fix_normals(multibody=False)
            elif api == "fix_winding":
                repair.fix_winding(m)
            elif api == "fix_inversion_multibody":
                repair.fix_inversion(m, multibody=True)
            elif api == "fix_inversion_single":
                repair.fix_inversion(m, multibody=False)
            else:
                raise MachineryError("api " + api)
            out_v = np.asarray(m.vertices, dtype=np.float64)
            if k2 and out_v.shape == V.shape:
                out_v = out_v * vs[:, None]
            if put_result(out_v, m.faces):
                rec["rep"] = reported(m, rec["den"], normals=True)
                rec["rep"]["novol"] = bool(k2)
        elif op == "fill":
            rec["fb"] = f
            removed = sorted(it["removed"])
            f0 = [list(t) for k, t in enumerate(f) if k not in removed]
            rec["f0"], rec["removed"], rec["ret"] = f0, removed, False
            rec["sgn"], rec["pre_ok"], rec["hist"] = 1, True, HISTORIES.get(it.get("hist", 0), "")
            m = fresh(f0)
            if it["warm"]:
                warm_up(m)
            hist = it.get("hist", 0)
            if hist:
                # a history before the call: reads that fill the cache, then invert(); the recorded
                # pre-mesh is the inverted one (every index triple reversed)
                if hist == 2:
                    warm_up(m)
                elif hist == 3:
                    m.edges
                elif hist == 4:
                    m.is_watertight
                elif hist == 5:
                    m.face_normals
                    m.edges_sorted
                m.invert()
                rec["fb"] = [t[::-1] for t in f]
                rec["f0"] = [t[::-1] for t in f0]
                rec["sgn"] = -1
                rec["pre_ok"] = bool(np.asarray(m.faces).tolist() == rec["f0"]
                                     and np.asarray(m.vertices).tolist() == V.tolist())
            ret = m.fill_holes()
            if not isinstance(ret, (bool, np.bool_)):
                rec["off"] = "return_value"
            rec["ret"] = bool(ret)
            if put_result(m.vertices, m.faces):
                rec["rep"] = reported(m, rec["den"], normals=True)
        elif op == "subdivide":
            # second round: the pre-mesh is a once refined surface, built here (input construction
            # only, independent of the code under test; Repair.tla InputSane checks it is a proper mesh)
            sel = it["sel"]
            for _ in range(it["depth"] - 1):
                v, f = refined(v, f)
            V = np.array(v, dtype=np.float64)
            rec["v0"], rec["f0"] = v, f
            m = fresh(f)
            if sel == "all_none":
                rec["sel"], arg = list(range(len(m.faces))), None
            else:
                rec["sel"] = sorted(sel)
                arg = np.array(sel, dtype=np.int64) if it["id"] % 2 else [int(x) for x in sel]
            rec["api"] = it["api"]
            if it["api"] == "mesh":
                if it["warm"]:
                    warm_up(m)
                out = m.subdivide(face_index=arg)
                if put_result(out.vertices, out.faces):
                    rec["rep"] = reported(out, rec["den"], normals=False)
            else:
                res = remesh.subdivide(np.asarray(m.vertices).copy(), np.asarray(m.faces).copy(), face_index=arg)
                put_result(res[0], res[1])
        elif op == "tosize":
            m = fresh(f)
            rec.update({"me_n": it["me_n"], "me_d": it["me_d"], "max_iter": it["max_iter"], "ri": bool(it["ri"]),
                        "idx": [], "refused": False})
            try:
                out = m.subdivide_to_size(max_edge=it["me_n"] / it["me_d"], max_iter=it["max_iter"],
                                          return_index=bool(it["ri"]))
            except ValueError as e:
                if "max_iter exceeded" not in str(e):
                    raise
                rec["refused"] = True
                out = None
            if out is not None:
                if it["ri"]:
                    out, idx = out
                    idx = np.asarray(idx)
                    if idx.dtype.kind not in "iu" or idx.ndim != 1:
                        rec["off"] = "index"
                    else:
                        rec["idx"] = idx.astype(np.int64).tolist()
                put_result(out.vertices, out.faces)
        elif op == "loop":
            m = fresh(f)
            out = m.subdivide_loop(iterations=it["iterations"])
            rec["iterations"] = it["iterations"]
            rec["f1"] = face_rows(out.faces)
            rec["nv1"] = int(len(out.vertices))
            if not np.isfinite(np.asarray(out.vertices, dtype=np.float64)).all():
                rec["off"] = "vertices"
        else:
            raise MachineryError("op " + op)
    except MachineryError:
        raise
    except BaseException as e:  # noqa - the implementation raised on a valid input
        rec["exc"] = type(e).__name__[:40]
        rec["v1"], rec["f1"] = [], []
        return rec
    if len(rec["f1"]) > it.get("max_pieces", 10 ** 9) or \
            not fits_tlc(rec["v1"], rec["f1"], per_face_cross=(op == "tosize")):
        if op != "tosize":
            raise MachineryError("record too large for exact 32-bit validation: %s" % json.dumps(it))
        # too many pieces for exact 32-bit sums in TLC: counted, not validated
        return {"id": it["id"], "op": op, "name": name, "skipped": len(rec["f1"]), "item": it}
    return rec


def run_chunk(items):
    trimesh = import_trimesh()
    logging.getLogger("trimesh").setLevel(logging.CRITICAL)
    return [observe(trimesh, it) for it in items]


# ------------------------------------------------------------------ enumeration
def adjacent_pairs(f):
    return [(a, b) for a, b in itertools.combinations(range(len(f)), 2) if len(set(f[a]) & set(f[b])) == 2]


def manifold_after_removal(f, removed):
    """Input selection only (Repair.tla InputSane checks it again): the removed faces have no edge on
    the border of the surface, and after removing them the faces around every touched vertex still
    form one fan - i.e. what is left is a manifold with a hole, not a pinched surface."""
    rest = [t for k, t in enumerate(f) if k not in removed]
    if not rest:
        return False
    cnt = {}
    for t in f:
        for j in range(3):
            e = tuple(sorted((t[j], t[(j + 1) % 3])))
            cnt[e] = cnt.get(e, 0) + 1
    if any(cnt[tuple(sorted((f[k][j], f[k][(j + 1) % 3])))] != 2 for k in removed for j in range(3)):
        return False                    # a removed face on the border of an open sheet is not a hole
    for v in {x for k in removed for x in f[k]}:
        inc = [t for t in rest if v in t]
        if not inc:
            return False
        seen, todo = {0}, [0]
        while todo:
            a = todo.pop()
            for b in range(len(inc)):
                if b not in seen and len(set(inc[a]) & set(inc[b])) == 2:
                    seen.add(b)
                    todo.append(b)
        if len(seen) != len(inc):
            return False
    return True


def subsets(n):
    for mask in range(1 << n):
        yield [k for k in range(n) if mask >> k & 1]


def work_items(tier):
    big = tier == "thorough"
    rs = np.random.RandomState(seed() + 1818)
    items = []
    exhaustive = []

    def add(**kw):
        kw["id"] = len(items)
        items.append(kw)

    # ---- normal repair: subsets of faces re-wound
    def fix_family(name, flip_sets, npres, full):
        n = len(LIB[name][1])
        for k, flips in enumerate(flip_sets):
            pres = 0 if (full and npres == 1) else (k % npres)
            add(op="fix", name=name, pres=pres, flips=flips, style=k, api="fix_normals_auto", warm=k % 2)
            add(op="fix", name=name, pres=pres, flips=flips, style=k + 1,
                api=FIX_APIS[1 + k % 3], warm=(k // 2) % 2)
        if full:
            exhaustive.append("fix_normals: all 2^%d re-wound subsets of %s" % (n, name))

    def sampled(n, count):
        out = []
        for k in range(count):
            kind = k % 4
            if kind == 0:
                mask = rs.rand(n) < 0.5
            elif kind == 1:
                mask = rs.rand(n) < 0.15
            elif kind == 2:
                mask = rs.rand(n) < 0.85
            else:
                mask = np.arange(n) % 2 == rs.randint(2)          # alternating faces
                mask ^= rs.rand(n) < 0.1
            out.append([int(x) for x in np.nonzero(mask)[0]])
        out += [[], list(range(n))]
        return out

    fix_family("tetrahedron", list(subsets(4)), 1, True)
    fix_family("octahedron", list(subsets(8)), 1, True)
    if big:
        fix_family("cube", list(subsets(12)), 1, True)
        fix_family("tet_and_cube", sampled(16, 20000), 11, False)
        fix_family("torus3x3", sampled(18, 20000), 11, False)
        fix_family("skew_tetrahedron", list(subsets(4)), 1, True)
    for name, cnt in (("tetrahedron", 16), ("octahedron", 60), ("cube", 180), ("tet_and_cube", 180),
                      ("torus3x3", 180), ("regular_octahedron", 30)):
        fix_family(name, sampled(len(LIB[name][1]), cnt * (8 if big else 1)), 7, False)
    # whole bodies of one or both components re-wound (the per-body inversion test alone)
    for name in ("tetrahedron", "octahedron", "cube", "tet_and_cube", "torus3x3"):
        for pres in range(6 if big else 3):
            v, f, _ = present(name, pres)
            comps = body_face_sets(f)
            for pick in subsets(len(comps)):
                flips = sorted(x for c in pick for x in comps[c])
                for k, api in enumerate(INV_APIS):
                    add(op="fix", name=name, pres=pres, flips=flips, style=pres + k, api=api, warm=(pres + k) % 2)
                add(op="fix", name=name, pres=pres, flips=flips, style=pres, api="fix_normals_auto", warm=pres % 2)
    # open sheet: only "no vertex moved, same triangles" is claimed
    for k, flips in enumerate(sampled(18, 300 if big else 40)):
        add(op="fix", name="sheet3x3", pres=k % 5, flips=flips, style=k, api=FIX_APIS[k % 4], warm=k % 2)

    # one body far below any merge tolerance (lattice tetrahedron * 2^-10 / 2^-12, |volume| ~ 1e-8 / 1e-10)
    # next to a normal-size cube: whole bodies inverted, and seeded subsets
    for k2 in (10, 12):
        for pres in range(4 if big else 2):
            v, f, _ = present("tet_and_cube", pres)
            comps = body_face_sets(f)
            for pick in subsets(len(comps)):
                flips = sorted(x for c in pick for x in comps[c])
                for k, api in enumerate(("fix_normals_auto", "fix_normals_multibody", "fix_inversion_multibody")):
                    add(op="fix", name="tet_and_cube", pres=pres, flips=flips, style=pres + k, api=api,
                        warm=(pres + k) % 2, tiny_k=k2)
        for k, flips in enumerate(sampled(16, 200 if big else 24)):
            add(op="fix", name="tet_and_cube", pres=k % 5, flips=flips, style=k, tiny_k=k2,
                api=("fix_normals_auto", "fix_normals_multibody")[k % 2], warm=(k // 2) % 2)

    # ---- hole filling after a history: (reads that fill the cache) -> invert() -> fill_holes()
    for name in ("skew_tetrahedron", "octahedron", "cube", "tet_and_cube", "torus3x3", "sheet4x4"):
        for pres in range(3 if big else 1):
            v, f, closed = present(name, pres)
            k = 0
            for removed in [[a] for a in range(len(f))] + [list(p) for p in adjacent_pairs(f)]:
                if manifold_after_removal(f, removed):
                    add(op="fill", name=name, pres=pres, removed=removed, warm=0, hist=1 + (k + pres) % len(HISTORIES))
                    k += 1

    # ---- hole filling: every single face, every adjacent pair (quad hole); thorough: every pair
    for name in ("tetrahedron", "skew_tetrahedron", "octahedron", "cube", "tet_and_cube", "torus3x3", "sheet4x4"):
        for pres in range(8 if big else 3):
            v, f, closed = present(name, pres)
            k = 0
            for a in range(len(f)):
                if manifold_after_removal(f, [a]):
                    add(op="fill", name=name, pres=pres, removed=[a], warm=(a + pres) % 2)
            pairs = list(itertools.combinations(range(len(f)), 2)) if big else adjacent_pairs(f)
            for a, b in pairs:
                if manifold_after_removal(f, [a, b]):
                    add(op="fill", name=name, pres=pres, removed=[a, b], warm=(k + pres) % 2)
                    k += 1
        exhaustive.append("fill_holes: every single face and every %s of %s whose removal leaves a manifold"
                          % ("pair of faces" if big else "edge-adjacent pair of faces", name))

    # ---- subdivide: all faces (face_index None and the full index list) and face subsets
    for name in LIB:
        for pres in range(4 if big else 2):
            n = len(LIB[name][1])
            for api in ("mesh", "func"):
                add(op="subdivide", name=name, pres=pres, sel="all_none", depth=1, api=api, warm=pres % 2)
                add(op="subdivide", name=name, pres=pres, sel=list(range(n)), depth=1, api=api, warm=0)
    for name in ("tetrahedron", "skew_tetrahedron", "octahedron", "cube", "sheet3x3") + (("torus3x3",) if big else ()):
        add(op="subdivide", name=name, pres=0, sel="all_none", depth=2, api="mesh", warm=0)
        add(op="subdivide", name=name, pres=1, sel="all_none", depth=2, api="func", warm=1)
        n2 = 4 * len(LIB[name][1])
        for k in range(12 if big else 3):
            sel = [int(x) for x in np.nonzero(rs.rand(n2) < 0.4)[0]]
            add(op="subdivide", name=name, pres=k % 3, sel=sel, depth=2, api=("mesh", "func")[k % 2], warm=0)
    for name, full in (("tetrahedron", True), ("skew_tetrahedron", big), ("octahedron", True), ("cube", big)):
        n = len(LIB[name][1])
        if full:
            for k, sel in enumerate(subsets(n)):
                add(op="subdivide", name=name, pres=0, sel=sel, depth=1, api=("mesh", "func")[k % 2], warm=(k // 2) % 2)
            exhaustive.append("subdivide(face_index): all 2^%d face subsets of %s" % (n, name))
    for k, sel in enumerate(subsets(4)):          # un-merged soup: every face subset, both entry points
        for api in ("mesh", "func"):
            add(op="subdivide", name="tetrahedron_soup", pres=k % 2, sel=sel, depth=1, api=api, warm=k % 2)
    exhaustive.append("subdivide(face_index): all 2^4 face subsets of tetrahedron_soup")
    for name, cnt in (("cube", 150), ("tet_and_cube", 40), ("torus3x3", 40), ("sheet3x3", 40), ("octahedron", 40),
                      ("boxes_face_to_face", 40), ("cube_soup", 40)):
        n = len(LIB[name][1])
        for k in range(cnt * (6 if big else 1)):
            p = (0.5, 0.2, 0.8)[k % 3]
            sel = [int(x) for x in np.nonzero(rs.rand(n) < p)[0]]
            add(op="subdivide", name=name, pres=k % 5, sel=sel, depth=1, api=("mesh", "func")[k % 2], warm=(k // 2) % 2)

    # ---- subdivide_to_size: grid of bounds x iteration caps
    pieces = 5000 if big else 800
    for name in ("tetrahedron", "skew_tetrahedron", "pythagorean_tetrahedron", "regular_octahedron", "cube", "sheet3x3",
                 "tet_and_cube"):
        if name == "tet_and_cube" and not big:
            continue
        k = 0
        for (n, d) in BOUNDS:
            for mi in MAX_ITERS:
                add(op="tosize", name=name, pres=0, me_n=n, me_d=d, max_iter=mi, ri=(k + k // 6) % 2, max_pieces=pieces)
                if big:
                    add(op="tosize", name=name, pres=0, me_n=n, me_d=d, max_iter=mi, ri=(k + k // 6 + 1) % 2,
                        max_pieces=pieces)
                k += 1
    exhaustive.append("subdivide_to_size: %d bounds x %d iteration caps per surface" % (len(BOUNDS), len(MAX_ITERS)))

    # ---- loop subdivision: topology only
    for name in SURFACES:
        for it_ in (1, 2):
            for pres in range(3 if big else 1):
                if it_ == 2 and len(LIB[name][1]) > 12 and not big:
                    continue
                add(op="loop", name=name, pres=pres, iterations=it_)
    return items, exhaustive


def body_face_sets(f):
    """Face ids grouped by shared vertices (the lattice bodies used here are vertex-disjoint):
    used only to choose WHICH faces to re-wound."""
    comp = {}
    groups = []
    for k, t in enumerate(f):
        hit = sorted({comp[x] for x in t if x in comp})
        if not hit:
            groups.append([k])
            g = len(groups) - 1
        else:
            g = hit[0]
            groups[g].append(k)
            for h in hit[1:]:
                for x, gx in list(comp.items()):
                    if gx == h:
                        comp[x] = g
                groups[g] += groups[h]
                groups[h] = []
        for x in t:
            comp[x] = g
    return [sorted(g) for g in groups if g]


# ------------------------------------------------------------------ bookkeeping
def winding_broken(f):
    seen = set()
    for t in f:
        for j in range(3):
            e = (t[j], t[(j + 1) % 3])
            if e in seen:
                return True
            seen.add(e)
    return False


def stats_of(cases):
    st = {}

    def add(k, v=1):
        st[k] = st.get(k, 0) + int(v)

    for c in cases:
        op = c["op"]
        add("records_" + op)
        add("%s:%s" % (op, c["name"]))
        if c["exc"]:
            add("raised")
            continue
        if op == "fix":
            add("fix_api:" + c["api"])
            add("fix_pre_winding_broken", winding_broken(c["f0"]))
            add("fix_pre_all_faces_rewound", len(c["flips"]) == len(c["f0"]))
            add("fix_result_differs_from_pre", c["f1"] != c["f0"])
            add("fix_cache_warm", c["item"]["warm"])
            add("fix_one_body_below_merge_tolerance", "tiny_k" in c)
        elif op == "fill":
            add("fill_triangle_hole", len(c["removed"]) == 1)
            add("fill_two_faces_removed", len(c["removed"]) == 2)
            add("fill_faces_added", len(c["f1"]) > len(c["f0"]))
            add("fill_returned_true", c["ret"])
            add("fill_after_invert_history", c["sgn"] == -1)
            add("fill_after_read_then_invert", c["sgn"] == -1 and c["hist"] != "invert")
        elif op == "subdivide":
            add("subdivide_all_faces", len(c["sel"]) == len(c["f0"]))
            add("subdivide_proper_subset", 0 < len(c["sel"]) < len(c["f0"]))
            add("subdivide_empty_subset", len(c["sel"]) == 0)
            add("subdivide_second_round", c["item"]["depth"] == 2)
            add("subdivide_api:" + c["api"])
            add("subdivide_coincident_vertices", c["name"] in COINCIDENT)
        elif op == "tosize":
            add("tosize_refused", c["refused"])
            add("tosize_returned", not c["refused"])
            add("tosize_returned_with_index", (not c["refused"]) and c["ri"])
            add("tosize_refined", (not c["refused"]) and len(c["f1"]) > len(c["f0"]))
            add("tosize_halved_coordinates", c["den"] > 1)
            add("tosize_pieces", len(c["f1"]))
        elif op == "loop":
            add("loop_faces_out", len(c["f1"]))
    return st


def brief(c):
    keep = ("op", "name", "pres", "api", "flips", "tiny_k", "removed", "hist", "sel", "me_n", "me_d", "max_iter", "ri", "refused",
            "ret", "iterations", "den", "exc", "off")
    out = {k: c[k] for k in keep if k in c}
    out["v0"], out["f0"] = c["v0"], c["f0"]
    if len(c["f1"]) <= 24:
        out["v1"], out["f1"] = c["v1"], c["f1"]
    else:
        out["faces_out"] = len(c["f1"])
    return out


def check_clause_names():
    import os
    import re
    from harness.common import SPEC_DIR
    text = open(os.path.join(SPEC_DIR, "Repair.tla")).read()
    text = text[text.index("the validator"):]
    lits = re.findall(r'"([A-Za-z_0-9]+)"', text)
    if not lits or max(map(len, lits)) > 48:
        raise MachineryError("a clause name in Repair.tla is too long for one TLC output line")


def main(argv):
    tier = tier_from_args(argv)
    V = Verdict(PROP, tier)
    import_trimesh()
    check_clause_names()
    if "--replay" in argv:
        rp = json.load(open(argv[argv.index("--replay") + 1]))
        items, exhaustive = [v["detail"]["item"] for v in rp["violations"]], []
        for k, it in enumerate(items):
            it["id"] = k
    else:
        items, exhaustive = work_items(tier)
        if len(items) < 2500:
            raise MachineryError("too few inputs enumerated: %d" % len(items))
    os.environ.setdefault("JAVA_TOOL_OPTIONS", "-Xmx2g")       # 16 JVMs: keep every heap bounded
    st, by_dev, pick = {}, {}, {}
    states, wall, nrec, nrej, nskip, reported = 0, 0.0, 0, 0, 0, {}
    first = None
    for lo in range(0, len(items), ROUND):
        part = items[lo:lo + ROUND]
        # heavy records first so that the pool is balanced
        order = sorted(range(len(part)), key=lambda k: (part[k]["op"] not in ("tosize", "loop"), k))
        res = pmap(run_chunk, [part[k] for k in order], chunk=max(8, min(200, len(part) // 96 + 1)))
        got = sorted((c for r in res for c in r), key=lambda c: c["id"])
        if len(got) != len(part) or any(c["id"] != lo + k for k, c in enumerate(got)):
            raise MachineryError("records lost")
        nskip += sum(1 for c in got if "skipped" in c)
        cases = [c for c in got if "skipped" not in c]
        byid = {c["id"]: c for c in cases}
        # the validator's shards take every 16th record: interleave the large ones
        slim = [{k: v for k, v in c.items() if k != "item"} for c in sorted(cases, key=lambda c: -len(c["f1"]))]
        rejects, n, w = tlc.validate_batches(WORKNAME, "Repair", slim, CFG, timeout=3000)
        if n != len(cases):
            raise MachineryError("TLC judged %d of %d records" % (n, len(cases)))
        states, wall, nrec, nrej = states + n, wall + w, nrec + len(cases), nrej + len(rejects)
        for cid, clause in sorted(rejects.items()):
            c = byid[cid]
            d = brief(c)
            d["item"] = c["item"]
            # Repair.tla prints the tag of a named deviation (decided on the input only) after the clause
            dev = None
            if " " in clause:
                clause, tag = clause.split(" ", 1)
                dev = DEVIATIONS.get(tag.strip().strip('"'))
                if dev is None:
                    raise MachineryError("unknown deviation tag from Repair.tla: " + tag)
                by_dev[dev] = by_dev.get(dev, 0) + 1
            key = (clause, dev)
            reported[key] = reported.get(key, 0) + 1
            if reported[key] <= REPORT_CAP:
                V.violation(clause, d, dev)
        for k, v in stats_of(cases).items():
            st[k] = st.get(k, 0) + v
        for c in cases:
            first = first or c
            if c["op"] not in pick and len(c["f1"]) <= 24 and (c["op"] != "fix" or c["flips"]):
                pick[c["op"]] = brief(c)
    if "--replay" not in argv and not V.violations:
        need = {"fix_pre_winding_broken": 500, "fix_result_differs_from_pre": 500, "fill_triangle_hole": 50,
                "fill_two_faces_removed": 50, "fill_faces_added": 100, "subdivide_all_faces": 20,
                "subdivide_proper_subset": 200, "tosize_refused": 20, "tosize_refined": 40,
                "tosize_returned_with_index": 20, "tosize_halved_coordinates": 5, "records_loop": 8,
                "fix_one_body_below_merge_tolerance": 50, "fill_after_read_then_invert": 60,
                "subdivide_coincident_vertices": 60}
        low = {k: st.get(k, 0) for k, n in need.items() if st.get(k, 0) < n}
        if low:
            raise MachineryError("enumeration nearly empty: %s" % low)
    cov = {
        "states": states, "transitions": states,
        "traces_validated_against_impl": nrec,
        "records": nrec,
        "exercised": st,
        "exhaustive": bool(exhaustive),
        "exhaustive_scopes": exhaustive,
        "rejected": nrej,
        "rejected_by_clause_and_deviation": {"%s|%s" % (k[0], k[1] or "-"): v for k, v in sorted(reported.items(), key=lambda kv: (kv[0][0], kv[0][1] or ""))},
        "rejected_by_deviation": by_dev,
        "reported_violations_capped_per_clause_and_deviation": REPORT_CAP,
        "to_size_results_too_large_to_validate": nskip,
        "tlc_wall_s": round(wall, 1),
        "samples": list(pick.values()) or [brief(first)],
    }
    return V.finish("model_checking", cov, assumptions=[
        "lattice surfaces on coordinates that are multiples of four (midpoints of two rounds are lattice points); "
        "result coordinates are projected exactly to integers over a power-of-two denominator, no tolerance",
        "subdivide of a proper face subset: only the documented contract (selected faces split, neighbours kept) "
        "is compared, the topology of the T-junctions is not constrained",
        "subdivide_loop moves vertices by design: only watertightness and the Euler number are compared",
        "fix_normals on the open sheet: only 'no vertex moved, same triangles' (the property claims re-winding "
        "for watertight meshes); multibody=False on several bodies: positive volume is not demanded "
        "(documented as working on one body only)",
        "fill_holes: a non-planar quad hole may be closed along either diagonal, so the volume is compared only "
        "for planar holes",
        "subdivide_to_size may refuse with ValueError('max_iter exceeded') only when max_iter halvings cannot "
        "reach the bound",
    ])


if __name__ == "__main__":
    try:
        sys.exit(main(sys.argv[1:]))
    except MachineryError as e:
        print("MACHINERY-ERROR:", e)
        sys.exit(2)
