"""C19 - families added by the coverage audit (helper of checks/c19.py, same conventions).

Every family is judged by a clause of spec/TransformAlg.tla (section "audit families"); the Python
side enumerates inputs, calls trimesh, projects the returned floats to exact integers / rationals.

  transform_points_ni   M = I + 2^-sh J (|M - I| < 1e-8: near-identity shears, rotations, translations)
                        on integer points up to 2^24: (res - pts) 2^sh must be J.p (+ translation column)
  euler_roundtrip_m     euler_matrix(*euler_from_matrix(M)) for rotation matrices that carry rounding
                        noise of a few ulp (products of float matrices / +-2^-49 per entry): all cube
                        rotations (gimbal-locked for every convention) and rational rotations; also
                        small-angle rational rotations, list / 3x3 containers, tuple-encoded axes
  rotation_roundtrip_q  rotation_matrix(*rotation_from_matrix(M)) for rational rotations QuatMat(q) with a
                        large scalar part (angles 5e-5 .. 2e-2) with and without a point on the axis
  scale_and_translate   every combination of absent / scalar / vector scale and translation
  kwargs_to_matrix      scene/transforms.py: quaternion | axis+angle | nothing, with / without translation,
                        matrix taking precedence
  quaternion_slerp      end points and mid point between integer quaternions of equal norm, both signs,
                        shortestpath on / off
  align_g, plane_transform, random_rotation, fix_rigid
                        produced matrices with irrational entries: R R^T, det and the images of the
                        defining vectors are snapped (1e-9) and judged by TLC
  is_rigid              exact rotations (+ translation) against exact scaled / sheared matrices
  spherical_matrix      lattice and Pythagorean angles (judged as euler_matrix(0, phi, theta))
plus new inputs of existing record kinds (tuple-encoded axes, angle multiples up to +-8 quarter turns,
matrix / point containers and dtypes, 1000-point arrays, compose_matrix with absent factors, wider scale
/ translation magnitudes, decompose of a list / of 2 M / of the recomposition).
"""
import itertools
import math

import numpy as np

from harness.common import MachineryError

H = {}      # filled by bind(): names of checks/c19.py used here


def bind(ns):
    H.update(ns)


NOISE_MAX = 1e-14


# ------------------------------------------------------------------ helpers
def _ints(S, v, where, n=None, tol=1e-9):
    v = np.asarray(v, dtype=np.float64).reshape(-1)
    if n is not None and v.shape[0] != n:
        S.off.append({"offlattice": "shape" + str(v.shape), "where": where})
        return [0] * n
    out = []
    for x in v:
        if not math.isfinite(x) or abs(x - round(x)) > tol or abs(x) > 2.0e9:
            out.append(S.bad(x, where))
        else:
            out.append(int(round(x)))
    return out


def _gram(S, R, where):
    R = np.asarray(R, dtype=np.float64)
    k = R.shape[0]
    G = R @ R.T
    return [_ints(S, row, where + ".gram", k) for row in G], _ints(S, [np.linalg.det(R)], where + ".det", 1)[0]


def noisy(Mf, kind, rs_seed):
    """a float matrix equal to the exact rotation Mf up to rounding noise of a few ulp"""
    rs = np.random.RandomState(rs_seed)
    if kind == "ulp":
        E = np.zeros((4, 4))
        E[:3, :3] = rs.randint(-1, 2, size=(3, 3)) * 2.0 ** -49
        out = Mf + E
    elif kind == "chain":
        RATQ, quat_rot, hom, rat_float = H["RATQ"], H["quat_rot"], H["hom"], H["rat_float"]
        qa, qb = RATQ[rs.randint(len(RATQ))], RATQ[rs.randint(len(RATQ))]
        A = rat_float(hom(*quat_rot(qa)))
        B = rat_float(hom(*quat_rot(qb)))
        out = A.T @ (B.T @ (B @ (A @ Mf)))
    else:
        out = Mf.copy()
    if not np.abs(out - Mf).max() <= NOISE_MAX:
        raise MachineryError(f"noise generator {kind} left the rounding-noise scale: {np.abs(out - Mf).max()}")
    return out


AXTUPLE = {"sxyz": (0, 0, 0, 0), "sxyx": (0, 0, 1, 0), "sxzy": (0, 1, 0, 0), "sxzx": (0, 1, 1, 0),
           "syzx": (1, 0, 0, 0), "syzy": (1, 0, 1, 0), "syxz": (1, 1, 0, 0), "syxy": (1, 1, 1, 0),
           "szxy": (2, 0, 0, 0), "szxz": (2, 0, 1, 0), "szyx": (2, 1, 0, 0), "szyz": (2, 1, 1, 0),
           "rzyx": (0, 0, 0, 1), "rxyx": (0, 0, 1, 1), "ryzx": (0, 1, 0, 1), "rxzx": (0, 1, 1, 1),
           "rxzy": (1, 0, 0, 1), "ryzy": (1, 0, 1, 1), "rzxy": (1, 1, 0, 1), "ryxy": (1, 1, 1, 1),
           "ryxz": (2, 0, 0, 1), "rzxz": (2, 0, 1, 1), "rxyz": (2, 1, 0, 1), "rzyz": (2, 1, 1, 1)}


def axes_arg(tf, axes, enc):
    """the convention as the string or as the encoded tuple documented by euler_matrix; the tuple is read
    from the tree under test and must be the documented one (name <-> tuple is part of the interface)"""
    if enc != "tuple":
        return axes
    t = tuple(tf._AXES2TUPLE[axes])
    if t != AXTUPLE[axes]:
        # the table itself changed: let the call go through the name so the records judge the semantics
        return axes
    return t


# ------------------------------------------------------------------ generators
def g_points_ni(tf, cases, dim, J, sh, pts, translate):
    call = H["call"]
    M = np.eye(dim + 1)
    M[:dim, :] += np.array(J, dtype=np.float64) * 2.0 ** -sh
    P = np.array(pts, dtype=np.float64).reshape(-1, dim)
    if sh >= 29 and not np.abs(M - np.eye(dim + 1)).max() < 1e-8:
        raise MachineryError("near-identity family: matrix is not within 1e-8 of the identity")

    def t(S):
        res = np.asarray(tf.transform_points(P, M, translate=translate))
        if res.shape != P.shape:
            S.off.append({"offlattice": "shape" + str(res.shape), "where": "res"})
            res = P.copy()
        D = (res - P) * 2.0 ** sh
        return {"delta": [_ints(S, row, "delta", dim, tol=1e-3) for row in D]}
    call(cases, "transform_points_ni", {"dim": dim, "J": [list(map(int, r)) for r in J], "sh": int(sh),
                                        "pts": [list(map(int, p)) for p in pts], "translate": bool(translate)}, t)


def g_euler_m(tf, cases, axes, N, d, q, noise, nseed, container, enc):
    """matrix-level Euler round trip of the exact rotation N/d presented with rounding noise / in a container"""
    call, hom, rat_float = H["call"], H["hom"], H["rat_float"]
    M = hom(N, d)
    Mf = noisy(rat_float(M), noise, nseed)
    if container == "list":
        arg = Mf.tolist()
    elif container == "intlist":
        arg = [[int(x) for x in row] for row in np.round(Mf)]
    elif container == "3x3":
        arg = Mf[:3, :3].copy()
    elif container == "fortran":
        arg = np.asfortranarray(Mf)
    else:
        arg = Mf
    ax = axes_arg(tf, axes, enc)
    call(cases, "euler_roundtrip_m",
         {"axes": axes, "M": M, "q": [] if q is None else list(q), "noise": noise, "container": container, "enc": enc},
         lambda S: {"R2": S.mat(tf.euler_matrix(*tf.euler_from_matrix(arg, ax), axes=ax), d, "R2", (4, 4))})


def g_rot_q(tf, cases, q, p):
    call, hom, about, quat_rot, rat_float = H["call"], H["hom"], H["about"], H["quat_rot"], H["rat_float"]
    N, n = quat_rot(q)
    M = hom(N, n) if p is None else about(N, n, p)
    Mf = rat_float(M)

    def t(S):
        angle, direction, point = tf.rotation_from_matrix(Mf)
        return {"R2": S.mat(tf.rotation_matrix(angle, direction, point), n, "R2", (4, 4))}
    call(cases, "rotation_roundtrip_q", {"q": list(q), "M": M, "pt": [] if p is None else list(p)}, t)


def g_sat(tf, cases, smode, s4, tmode, tr4):
    call = H["call"]
    kw = {}
    if smode == "scalar":
        kw["scale"] = s4[0] / 4.0
    elif smode == "vec":
        kw["scale"] = [x / 4.0 for x in s4]
    elif smode == "array":
        kw["scale"] = np.array([x / 4.0 for x in s4])
    if tmode == "scalar":
        kw["translate"] = tr4[0] / 4.0
    elif tmode == "vec":
        kw["translate"] = [x / 4.0 for x in tr4]
    elif tmode == "array":
        kw["translate"] = np.array([x / 4.0 for x in tr4])
    call(cases, "scale_and_translate", {"smode": smode, "s4": list(s4), "tmode": tmode, "tr4": list(tr4)},
         lambda S: {"M": S.mat(tf.scale_and_translate(**kw), 4, "M", (4, 4))})


def g_kwargs(trimesh, cases, kind, q, axis, g, theta, tr, with_matrix):
    call, unit, quat_rot = H["call"], H["unit"], H["quat_rot"]
    from trimesh.scene.transforms import kwargs_to_matrix
    kw = {}
    den = 1
    if kind == "quat":
        kw["quaternion"] = unit(q)
        den = quat_rot(q)[1]
    elif kind == "axis":
        kw["axis"] = list(axis)
        kw["angle"] = theta
        den = g["d"] * sum(x * x for x in axis)
    if tr is not None:
        kw["translation"] = [float(x) for x in tr]
    base = {"kind": kind, "q": list(q), "axis": list(axis), "g": g, "tr": [0, 0, 0] if tr is None else list(tr),
            "precedence": bool(with_matrix)}
    if with_matrix:
        # a matrix takes precedence over everything else: the result is that matrix
        kw["matrix"] = np.eye(4)
        base.update(kind="none", tr=[0, 0, 0])
        den = 1
    call(cases, "kwargs_to_matrix", base, lambda S: {"M": S.mat(kwargs_to_matrix(**kw), den, "M", (4, 4))})


def g_slerp(tf, cases, q0, q1, f2, shortest, container):
    call, unit = H["call"], H["unit"]
    a, b = unit(q0), unit(q1)
    if container == "list":
        a, b = a.tolist(), b.tolist()
    n = sum(x * x for x in q0)
    call(cases, "quaternion_slerp", {"q0": list(q0), "q1": list(q1), "f2": int(f2), "shortest": bool(shortest)},
         lambda S: {"r": S.quat(tf.quaternion_slerp(a, b, f2 / 2.0, 0, shortest), "r", nmax=max(2000, 4 * n))})


def g_align(geom, cases, a, la, b, lb, want_angle, container):
    call = H["call"]
    av, bv = ([float(x) for x in a], [float(x) for x in b]) if container == "list" else \
        (np.array(a, dtype=np.float64), np.array(b, dtype=np.float64))

    def t(S):
        out = geom.align_vectors(av, bv, return_angle=True) if want_angle else geom.align_vectors(av, bv)
        T = np.asarray(out[0] if want_angle else out, dtype=np.float64)
        if T.shape != (4, 4):
            S.off.append({"offlattice": "shape" + str(T.shape), "where": "res"})
            T = np.eye(4)
        gram, det = _gram(S, T[:3, :3], "res")
        return {"gram": gram, "det": det, "last": _ints(S, T[3], "res.lastrow", 4),
                "tcol": _ints(S, T[:3, 3], "res.translation", 3),
                "img": _ints(S, (T[:3, :3] @ np.array(a, dtype=np.float64)) * lb, "res.image_of_a", 3)}
    call(cases, "align_g", {"a": list(a), "la": int(la), "b": list(b), "lb": int(lb), "angle": bool(want_angle)}, t)


def g_plane(geom, cases, o, nrm, ln, u):
    call = H["call"]

    def t(S):
        T = np.asarray(geom.plane_transform(None if o is None else np.array(o, dtype=np.float64),
                                            np.array(nrm, dtype=np.float64)), dtype=np.float64)
        if T.shape != (4, 4):
            S.off.append({"offlattice": "shape" + str(T.shape), "where": "res"})
            T = np.eye(4)
        gram, det = _gram(S, T[:3, :3], "res")
        oo = np.zeros(3) if o is None else np.array(o, dtype=np.float64)
        z0 = (T @ np.append(oo, 1.0))[2]
        z1 = (T @ np.append(oo + np.array(u, dtype=np.float64), 1.0))[2]
        return {"gram": gram, "det": det, "last": _ints(S, T[3], "res.lastrow", 4),
                "imgn": _ints(S, T[:3, :3] @ np.array(nrm, dtype=np.float64), "res.image_of_normal", 3),
                "z": _ints(S, [z0, z1], "res.height_of_plane_points", 2)}
    call(cases, "plane_transform", {"o": [] if o is None else list(o), "n": list(nrm), "ln": int(ln), "u": list(u)}, t)


def g_random(tf, cases, num, rseed, given):
    call = H["call"]
    rs = np.random.RandomState(rseed)

    def t(S):
        np.random.seed(rseed % (1 << 31))
        if given:
            R = tf.random_rotation_matrix(rs.rand(3, num) if num > 1 else rs.rand(3))
            Q = tf.random_quaternion(rs.rand(3, num) if num > 1 else rs.rand(3))
        else:
            R = tf.random_rotation_matrix(num=num)
            Q = tf.random_quaternion(num=num)
        R = np.asarray(R, dtype=np.float64).reshape(-1, 4, 4)
        Q = np.asarray(Q, dtype=np.float64).reshape(-1, 4)
        if len(R) != num or len(Q) != num:
            S.off.append({"offlattice": "count" + str((len(R), len(Q))), "where": "res"})
        grams, dets, lasts = [], [], []
        for r in R:
            gm, dt = _gram(S, r[:3, :3], "res")
            grams.append(gm)
            dets.append(dt)
            lasts.append(_ints(S, list(r[3]) + list(r[:3, 3]), "res.affine", 7))
        return {"grams": grams, "dets": dets, "lasts": lasts,
                "qq": _ints(S, np.einsum("ij,ij->i", Q, Q), "quaternion.norm", len(Q))}
    call(cases, "random_rotation", {"num": int(num), "given": bool(given)}, t)


def g_fix_rigid(tf, cases, dim, M, level, rseed):
    call, rat_float = H["call"], H["rat_float"]
    Mf = rat_float(M)
    rs = np.random.RandomState(rseed)
    N = Mf.copy()
    N[:dim, :dim] += rs.uniform(-1, 1, size=(dim, dim)) * level

    def t(S):
        out = np.asarray(tf.fix_rigid(N), dtype=np.float64)
        if out.shape != (dim + 1, dim + 1):
            S.off.append({"offlattice": "shape" + str(out.shape), "where": "res"})
            out = np.eye(dim + 1)
        gram, det = _gram(S, out[:dim, :dim], "res")
        return {"gram": gram, "det": det, "last": _ints(S, out[dim], "res.lastrow", dim + 1),
                "tr": [S.val(x, M["d"], "res.translation") for x in out[:dim, dim]],
                "dev5": int(min(float(np.abs(out - N).max()), 1.0) * 1e5)}
    call(cases, "fix_rigid", {"dim": dim, "M": M, "level": str(level)}, t)


def g_is_rigid(tf, cases, M, container):
    call, rat_float = H["call"], H["rat_float"]
    Mf = rat_float(M)
    arg = Mf.tolist() if container == "list" else Mf
    call(cases, "is_rigid", {"M": M}, lambda S: {"res": bool(tf.is_rigid(arg))})


def g_spherical(tf, cases, th, ph, axes):
    call, ang_float, ang_den, A_k = H["call"], H["ang_float"], H["ang_den"], H["A_k"]
    den = ang_den(th) * ang_den(ph)
    call(cases, "spherical_matrix", {"axes": axes, "ang": [A_k(0), ph, th]},
         lambda S: {"M": S.mat(tf.spherical_matrix(ang_float(th), ang_float(ph), axes), den, "M", (4, 4))})


def g_euler_enc(tf, cases, axes, angs):
    """the four Euler entry points with the convention given as the encoded tuple"""
    call, ang_float = H["call"], H["ang_float"]
    fa = [ang_float(a) for a in angs]
    ax = axes_arg(tf, axes, "tuple")
    base = {"axes": axes, "ang": angs, "enc": "tuple"}
    keep = {}

    def t_em(S):
        keep["M"] = tf.euler_matrix(fa[0], fa[1], fa[2], ax)
        return {"M": S.mat(keep["M"], 1, "M", (4, 4))}
    out = call(cases, "euler_matrix", base, t_em)
    if out is not None and not cases[-1]["off"]:
        call(cases, "euler_from_matrix", dict(base, src="euler", M=out["M"]),
             lambda S: {"back": S.angles(tf.euler_from_matrix(keep["M"], ax), "back")})

    def t_q(S):
        keep["q"] = tf.quaternion_from_euler(fa[0], fa[1], fa[2], ax)
        return {"q": S.quat(keep["q"], "q")}
    out = call(cases, "quaternion_from_euler", base, t_q)
    if out is not None and not cases[-1]["off"] and sum(x * x for x in out["q"]["v"]) == out["q"]["n"]:
        call(cases, "euler_from_quaternion", {"q": out["q"]["v"], "axes": axes, "enc": "tuple"},
             lambda S: {"back": S.angles(tf.euler_from_quaternion(keep["q"], ax), "back")})


def g_compose_opt(tf, cases, given, s4, sh4, angs, tr4):
    """compose_matrix with some factors absent (None): the absent ones are the neutral factors"""
    call, ang_float, ang_den, A_k = H["call"], H["ang_float"], H["ang_den"], H["A_k"]
    kw = {}
    if given[0]:
        kw["scale"] = [x / 4.0 for x in s4]
    else:
        s4 = (4, 4, 4)
    if given[1]:
        kw["shear"] = [x / 4.0 for x in sh4]
    else:
        sh4 = (0, 0, 0)
    if given[2]:
        kw["angles"] = [ang_float(a) for a in angs]
    else:
        angs = [A_k(0)] * 3
    if given[3]:
        kw["translate"] = [x / 4.0 for x in tr4]
    else:
        tr4 = (0, 0, 0)
    den = 16 * ang_den(angs[0]) * ang_den(angs[1]) * ang_den(angs[2])
    call(cases, "compose_matrix", {"s4": list(s4), "sh4": list(sh4), "ang": angs, "tr4": list(tr4),
                                   "given": [bool(x) for x in given]},
         lambda S: {"M": S.mat(tf.compose_matrix(**kw), den, "M", (4, 4))})


def g_decompose_var(tf, cases, s4, sh4, angs, tr4):
    """decompose_matrix of the exact composed matrix presented as a list, as 2 M (homogeneous factor),
    Fortran ordered, and of the recomposition of its own factors"""
    call, ang_float, ang_den, rat_float = H["call"], H["ang_float"], H["ang_den"], H["rat_float"]
    fa = [ang_float(a) for a in angs]
    den = 16 * ang_den(angs[0]) * ang_den(angs[1]) * ang_den(angs[2])
    base = {"s4": list(s4), "sh4": list(sh4), "ang": angs, "tr4": list(tr4)}
    keep = {}

    def t_c(S):
        keep["M"] = tf.compose_matrix(scale=[x / 4.0 for x in s4], shear=[x / 4.0 for x in sh4], angles=fa,
                                      translate=[x / 4.0 for x in tr4])
        return {"M": S.mat(keep["M"], den, "M", (4, 4))}
    out = call(cases, "compose_matrix", base, t_c)
    if out is None or cases[-1]["off"]:
        return
    Mx = rat_float(out["M"])

    def dec(arg, twice=False):
        def t(S):
            f = tf.decompose_matrix(arg)
            if twice:
                f = tf.decompose_matrix(tf.compose_matrix(*f))
            sc, sh, an, tr, _p = f
            return {"os4": S.vec(sc, 4, "scale", 3), "osh4": S.vec(sh, 4, "shear", 3),
                    "oang": S.angles(an, "angles"), "otr4": S.vec(tr, 4, "translate", 3)}
        return t
    for src, arg, tw in (("list", Mx.tolist(), False), ("hom2", Mx * 2.0, False),
                         ("fortran", np.asfortranarray(Mx), False), ("twice", keep["M"], True)):
        call(cases, "decompose_matrix", dict(base, src=src, M=out["M"]), dec(arg, tw))


def g_points_var(trimesh, cases, dim, M, pts, translate, variant):
    call, rat_float = H["call"], H["rat_float"]
    tf = trimesh.transformations
    Mf = rat_float(M)
    P = np.array(pts, dtype=np.float64).reshape(-1, dim)
    Pa, Ma = P, Mf
    if variant == "int":
        Pa = P.astype(np.int64)
    elif variant == "int32":
        Pa = P.astype(np.int32)
    elif variant == "float32":
        Pa = P.astype(np.float32)
    elif variant == "list":
        Pa, Ma = P.tolist(), Mf.tolist()
    elif variant == "fortran":
        Pa, Ma = np.asfortranarray(P), np.asfortranarray(Mf)
    elif variant == "strided":
        big = np.zeros((len(P) * 2, dim * 2))
        big[::2, ::2] = P
        Pa = big[::2, ::2]
    elif variant == "tracked":
        Pa = trimesh.caching.tracked_array(P)
    elif variant == "readonly":
        Pa = P.copy()
        Pa.setflags(write=False)
        Ma = Mf.copy()
        Ma.setflags(write=False)

    def t(S):
        res = np.asarray(tf.transform_points(Pa, Ma, translate=translate))
        if res.shape != P.shape:
            S.off.append({"offlattice": "shape" + str(res.shape), "where": "res"})
            res = np.zeros(P.shape)
        if not np.array_equal(np.asarray(Pa, dtype=np.float64), P):
            S.off.append({"offlattice": "input_points_modified", "where": "pts"})
        return {"res": {"n": [[S.val(x, M["d"], "res") for x in row] for row in res], "d": M["d"]}}
    call(cases, "transform_points", {"dim": dim, "M": M, "pts": [list(p) for p in pts], "translate": bool(translate),
                                     "variant": variant}, t)


# ------------------------------------------------------------------ dispatch
def gen_audit(trimesh, cases, kind, args):
    tf = trimesh.transformations
    if kind == "a_ni":
        g_points_ni(tf, cases, *args)
    elif kind == "a_eulerm":
        g_euler_m(tf, cases, *args)
    elif kind == "a_rotq":
        g_rot_q(tf, cases, *args)
    elif kind == "a_sat":
        g_sat(tf, cases, *args)
    elif kind == "a_kwargs":
        g_kwargs(trimesh, cases, *args)
    elif kind == "a_slerp":
        g_slerp(tf, cases, *args)
    elif kind == "a_align":
        g_align(trimesh.geometry, cases, *args)
    elif kind == "a_plane":
        g_plane(trimesh.geometry, cases, *args)
    elif kind == "a_random":
        g_random(tf, cases, *args)
    elif kind == "a_fixrigid":
        g_fix_rigid(tf, cases, *args)
    elif kind == "a_isrigid":
        g_is_rigid(tf, cases, *args)
    elif kind == "a_spherical":
        g_spherical(tf, cases, *args)
    elif kind == "a_eulerenc":
        g_euler_enc(tf, cases, *args)
    elif kind == "a_composeopt":
        g_compose_opt(tf, cases, *args)
    elif kind == "a_decvar":
        g_decompose_var(tf, cases, *args)
    elif kind == "a_pointsvar":
        g_points_var(trimesh, cases, *args)
    else:
        return False
    return True


# ------------------------------------------------------------------ enumeration
# integer vectors of integer length (Pythagorean quadruples) and their lengths
PYVEC = [((1, 0, 0), 1), ((0, -1, 0), 1), ((0, 0, 1), 1), ((0, 0, -1), 1), ((0, 0, 3), 3), ((1, 2, 2), 3),
         ((-2, 1, 2), 3), ((2, -2, 1), 3), ((2, 3, 6), 7), ((-6, 2, 3), 7), ((3, -6, -2), 7), ((0, 3, 4), 5),
         ((4, 0, -3), 5), ((1, 4, 8), 9), ((-4, -7, 4), 9), ((2, 6, 9), 11), ((6, 6, 7), 11), ((-2, -4, -4), 6),
         ((12, 4, 3), 13), ((0, 5, -12), 13)]
# small-angle rational rotations: scalar part, vector part
SMALLQ = [(100, 1, 2, 2), (300, -2, 1, 2), (1000, 1, 2, 2), (1000, 0, 0, 1), (3000, 1, -1, 1), (10000, 2, 3, 6),
          (15000, 1, 0, 0), (15000, 0, 1, 0), (15000, 1, 1, 0), (-15000, 0, 0, 1), (12000, 1, -1, 0)]
TINYQ = [(20000, 1, 0, 0), (20000, 0, 1, 1), (30000, 1, 1, 1), (30000, 0, 0, -1), (40000, 1, 0, 0), (40000, 0, 1, 0),
         (40000, 1, -1, 1), (25000, 0, 1, 0)]
# angles 5e-5 .. 2e-4 about every small integer axis (the order in which LAPACK lists the eigenvalues, and
# with it the branch taken by rotation_from_matrix, depends on the axis)
TINYAX = [(40000,) + v for v in itertools.product((-2, -1, 0, 1, 2), repeat=3) if any(v)]


def perp(n):
    """an integer vector perpendicular to n"""
    c = np.cross(n, (1, 0, 0) if (n[1] or n[2]) else (0, 1, 0))
    return tuple(int(x) for x in c)


def audit_items(tier, rs):
    big = tier == "thorough"
    A_k, A_p = H["A_k"], H["A_p"]
    AXES24, PYTH, RATQ, AXES6 = H["AXES24"], H["PYTH"], H["RATQ"], H["AXES6"]
    cube24, latq, quat_rot, hom, about = H["cube24"], H["latq"], H["quat_rot"], H["hom"], H["about"]
    W = []
    C24 = cube24()
    # ---- near-identity matrices on large coordinates
    anti3 = [[0, -1, 2, 0], [1, 0, -3, 0], [-2, 3, 0, 0]]          # infinitesimal rotation
    J3 = [anti3,
          [[0, 1, 0, 0], [0, 0, 0, 0], [0, 0, 0, 0]],               # shear
          [[1, 0, 0, 0], [0, -1, 0, 0], [0, 0, 2, 0]],              # scale 1 + e
          [[0, 0, 0, 1], [0, 0, 0, -2], [0, 0, 0, 3]],              # translation only
          [[0, -1, 2, 3], [1, 0, -3, -1], [-2, 3, 0, 2]]]           # rotation and translation
    J2 = [[[0, -1, 0], [1, 0, 0]], [[0, 2, 0], [0, 0, 0]], [[0, 0, 1], [0, 0, -3]], [[1, -1, 2], [1, 1, -1]]]
    scales = (1, 1 << 10, 1 << 24) if not big else (1, 3, 1 << 10, 5 << 16, 1 << 24)
    for sh in ((20, 29, 30, 32) if not big else (20, 26, 29, 30, 32, 36)):
        for dim, JS in ((3, J3), (2, J2)):
            for J in JS:
                for m in scales:
                    base = [tuple(int(x) for x in p) for p in rs.randint(-3, 4, size=(3, dim))]
                    base.append(tuple([1] * dim))
                    # every partial sum must be exactly representable: with a translation column all
                    # quantities are multiples of 2^-sh, so the coordinates stay below 2^(50 - sh)
                    if any(row[dim] for row in J):
                        m = min(m, 1 << (48 - sh))
                    pts = [tuple(x * m for x in p) for p in base]
                    for tr in (True, False):
                        W.append(("a_ni", dim, J, sh, pts, tr))
    # ---- Euler round trips at matrix level: rounding noise, containers, tuple axes, small angles
    nseed = int(rs.randint(1 << 30))
    for gi, R in enumerate(C24):
        for ai, axes in enumerate(AXES24):
            kinds = [("ulp", "array", "str"), ("chain", "array", "str")]
            if big:
                kinds += [("ulp", "array", "tuple"), ("chain", "list", "str")]
            kinds.append((("none", "intlist", "str"), ("none", "3x3", "str"), ("none", "list", "tuple"),
                          ("none", "fortran", "str"))[(gi + ai) % 4])
            for j, (noise, cont, enc) in enumerate(kinds):
                W.append(("a_eulerm", axes, R.tolist(), 1, None, noise, nseed + 97 * gi + 7 * ai + j, cont, enc))
    ratq = list(RATQ) if not big else list(RATQ) + H["more_ratq"](rs, 60)
    for qi, q in enumerate(ratq):
        N, n = quat_rot(q)
        for ai, axes in enumerate(AXES24):
            if big or (qi + ai) % 2 == 0:
                W.append(("a_eulerm", axes, N, n, q, "ulp" if (qi + ai) % 4 < 2 else "chain", nseed + 31 * qi + ai,
                          "array", "tuple" if ai % 3 == 0 else "str"))
    for q in SMALLQ + TINYQ:
        N, n = quat_rot(q)
        for ai, axes in enumerate(AXES24):
            if big or ai % 2 == (q[0] // 100) % 2:
                W.append(("a_eulerm", axes, N, n, q, "none", 0, "array", "str"))
    # ---- axis-angle round trip for small angles
    for q in SMALLQ:
        for p in (None, (1, -1, 1), (0, 0, 0), (-1, 1, 0)):
            W.append(("a_rotq", q, p))
    for q in TINYQ:
        W.append(("a_rotq", q, None))
    for j, q in enumerate(TINYAX):
        if big or j % 2 == 0 or abs(q[1]) == 2:
            W.append(("a_rotq", q, None))
    for q in RATQ[:8]:
        W.append(("a_rotq", q, (1, -1, 1)))
    # ---- scale_and_translate
    for smode in ("none", "scalar", "vec", "array"):
        for s4 in ((4, 4, 4), (8, 8, 8), (2, 4, 12), (1, 1, 1)):
            if smode == "none" and s4 != (4, 4, 4):
                continue
            if smode == "scalar" and len(set(s4)) > 1:
                continue
            for tmode in ("none", "scalar", "vec", "array"):
                for tr4 in ((0, 0, 0), (4, -8, 12), (2, 2, 2)):
                    if tmode == "none" and tr4 != (0, 0, 0):
                        continue
                    if tmode == "scalar" and len(set(tr4)) > 1:
                        continue
                    W.append(("a_sat", smode, s4, tmode, tr4))
    # ---- kwargs_to_matrix
    g0 = {"c": 1, "sg": 0, "d": 1}
    for tr in (None, (1, -2, 3), (0, 0, 0)):
        for q in latq()[::3] + RATQ[:6] + [tuple(-x for x in RATQ[0])]:
            W.append(("a_kwargs", "quat", q, (0, 0, 1), g0, 0.0, tr, False))
        for a in AXES6 + [(1, 2, 2), (2, 3, 6)]:
            m = sum(x * x for x in a)
            f = int(round(math.sqrt(m)))
            for k in (-1, 0, 1, 2):
                g = {"c": f * H["A_cos"](k), "sg": H["A_sin"](k), "d": f}
                W.append(("a_kwargs", "axis", (1, 0, 0, 0), a, g, k * math.pi / 2.0, tr, False))
            c, s, d = PYTH[len(W) % len(PYTH)]
            W.append(("a_kwargs", "axis", (1, 0, 0, 0), a, {"c": f * c, "sg": s, "d": f * d}, math.atan2(s, c), tr, False))
        W.append(("a_kwargs", "none", (1, 0, 0, 0), (0, 0, 1), g0, 0.0, tr, False))
        W.append(("a_kwargs", "quat", RATQ[1], (0, 0, 1), g0, 0.0, tr, True))
        W.append(("a_kwargs", "axis", (1, 0, 0, 0), (0, 1, 0), {"c": 0, "sg": 1, "d": 1}, math.pi / 2, tr, True))
    # ---- slerp
    LQ = latq()
    groups = [[q for q in LQ if sum(x * x for x in q) == n] for n in (1, 2, 4)]
    r25 = [q for q in RATQ if sum(x * x for x in q) == 25]
    r25 = r25 + [tuple(-x for x in q) for q in r25]
    groups.append(r25)
    k = 0
    for grp in groups:
        for q0 in grp:
            for q1 in grp:
                k += 1
                if not big and k % 3:
                    continue
                sp = bool((k // 3) % 2)
                W.append(("a_slerp", q0, q1, 1, sp, "array"))
                if k % 9 == 0 or big:
                    W.append(("a_slerp", q0, q1, 1, not sp, "list"))
                    W.append(("a_slerp", q0, q1, 0, sp, "array"))
                    W.append(("a_slerp", q0, q1, 2, sp, "array"))
    # ---- produced rotations with irrational entries
    k = 0
    for (a, la), (b, lb) in itertools.product(PYVEC, PYVEC):
        k += 1
        if big or k % 2 == 0 or a == b or tuple(-x for x in a) == b:
            W.append(("a_align", a, la, b, lb, bool(k % 3 == 0), "list" if k % 5 == 0 else "array"))
    for (a, la) in PYVEC:                                      # reversed and parallel vectors
        W.append(("a_align", a, la, tuple(-x for x in a), la, True, "array"))
        W.append(("a_align", a, la, tuple(2 * x for x in a), 2 * la, False, "array"))
        W.append(("a_align", tuple(-3 * x for x in a), 3 * la, a, la, False, "list"))
    for (nrm, ln) in PYVEC:
        for o in (None, (0, 0, 0), (1, -2, 3), (-5, 4, 2)):
            W.append(("a_plane", o, nrm, ln, perp(nrm)))
    for j in range(12 if not big else 40):
        W.append(("a_random", (1, 1, 2, 5)[j % 4], int(rs.randint(1 << 30)), j % 2 == 0))
    fr = 0
    for R in C24[::2]:
        for level in (1e-7, 1e-6, 1e-11):
            fr += 1
            W.append(("a_fixrigid", 3, hom(R.tolist(), 1, (1, -2, 3)), level, nseed + fr))
    for q in RATQ[:10]:
        N, n = quat_rot(q)
        for level in (1e-7, 1e-6):
            fr += 1
            W.append(("a_fixrigid", 3, about(N, n, (1, -2, 3)), level, nseed + fr))
    for c, s, d in PYTH:
        for level in (1e-7, 1e-6):
            fr += 1
            W.append(("a_fixrigid", 2, hom([[c, -s], [s, c]], d, (2, -3)), level, nseed + fr))
    # ---- is_rigid: exact rotations (with translation) are rigid, exact scalings / shears are not
    for gi, R in enumerate(C24):
        W.append(("a_isrigid", hom(R.tolist(), 1, (1, -2, 3) if gi % 2 else (0, 0, 0)), "list" if gi % 3 == 0 else "array"))
    for q in RATQ:
        N, n = quat_rot(q)
        W.append(("a_isrigid", about(N, n, (1, -2, 3)), "array"))
    nonrigid = [[[4, 1, 0], [0, 4, 0], [0, 0, 4]], [[4, 0, 0], [0, 4, 0], [0, 0, 5]], [[8, 0, 0], [0, 8, 0], [0, 0, 8]],
                [[2, 0, 0], [0, 2, 0], [0, 0, 2]], [[4, 0, 0], [1, 4, 0], [0, 0, 4]], [[4, 0, 0], [0, 4, 1], [0, 0, 4]],
                [[5, 1, 1], [1, 5, 1], [1, 1, 5]], [[4, 0, 0], [0, 0, -8], [0, 2, 0]], [[0, 0, 0], [0, 4, 0], [0, 0, 4]]]
    for L in nonrigid:
        for t in ((0, 0, 0), (1, 2, 3)):
            W.append(("a_isrigid", hom(L, 4, t), "array"))
    for R in C24[:6]:                                           # rotation times a scale slightly off one
        L = (np.array(R) * 1024 + np.array(R) * (1 if R[0][0] else -1)).tolist()
        W.append(("a_isrigid", hom(L, 1024, (0, 0, 0)), "array"))
    # ---- spherical_matrix
    for axes in AXES24:
        for th, ph in itertools.product(range(-2, 3), repeat=2):
            if big or (th + 2 * ph + len(axes) + AXES24.index(axes)) % 3 == 0:
                W.append(("a_spherical", A_k(th), A_k(ph), axes))
        for j in range(3):
            W.append(("a_spherical", A_p(*PYTH[(j + AXES24.index(axes)) % 4]), A_p(*PYTH[(2 * j + 1) % 4]), axes))
    # ---- Euler entry points: convention as encoded tuple, angle multiples up to +-8 quarter turns
    wide = (-8, -7, -5, -4, -3, 3, 4, 5, 6, 8)
    for axes in AXES24:
        trip = list(itertools.product((-2, -1, 0, 1, 2), repeat=3))
        for t in ([trip[j] for j in rs.choice(len(trip), 20, replace=False)] if not big else trip):
            W.append(("a_eulerenc", axes, [A_k(x) for x in t]))
        for _ in range(12 if not big else 60):
            t = [int(wide[j]) if rs.rand() < 0.7 else int(rs.randint(-2, 3)) for j in rs.randint(len(wide), size=3)]
            W.append(("euler", axes, [A_k(x) for x in t]))
            if _ % 3 == 0:
                W.append(("a_eulerenc", axes, [A_k(x) for x in t]))
    # ---- compose / decompose: absent factors, wider magnitudes, other presentations of the matrix
    vals = ((12, 2, 32), (4, -4, 8), [A_k(1), A_p(*PYTH[0]), A_k(-1)], (4, -8, 12))
    for given in itertools.product((0, 1), repeat=4):
        W.append(("a_composeopt", given, *vals))
        W.append(("a_composeopt", given, (1, 20, 3), (0, 12, -4), [A_p(*PYTH[2]), A_k(1), A_k(2)], (240, -100, 1)))
    wscales = [(1, 1, 1), (32, 32, 32), (1, 12, 32), (20, 3, 1), (3, 3, 3), (32, 1, 5), (12, 20, 28)]
    wshears = [(0, 0, 0), (4, -4, 8), (12, 0, -8), (1, 2, 3)]
    wtrs = [(0, 0, 0), (240, -100, 1), (-7, 9, 200)]
    wangs = [[A_k(x) for x in t] for t in ((0, 0, 0), (1, 0, 2), (0, 1, 0), (2, -1, 1), (-1, 2, 3), (1, 1, 1))]
    wangs += [[A_p(*PYTH[0]), A_p(*PYTH[2]), A_p(*PYTH[1])], [A_k(1), A_p(*PYTH[3]), A_k(0)], [A_p(*PYTH[1]), A_k(-1), A_p(*PYTH[0])]]
    k = 0
    for s4 in wscales:
        for sh4 in wshears:
            for ang in wangs:
                k += 1
                if big or k % 2 == 0:
                    W.append(("compose", s4, sh4, ang, wtrs[k % 3]))
                if big or k % 4 == 1:
                    W.append(("a_decvar", s4, sh4, ang, wtrs[(k + 1) % 3]))
    # ---- transform_points: containers / dtypes / layouts and long arrays
    mats = [(3, hom(C24[7].tolist(), 1, (1, -2, 3))), (3, hom([[4, 2, 0], [0, 2, -2], [0, 0, 1]], 2, (1, 1, -1))),
            (3, about(*quat_rot(RATQ[0]), (1, -2, 3))), (2, hom([[0, -1], [1, 0]], 1, (2, -3))),
            (2, hom([[3, -4], [4, 3]], 5, (-1, 2))), (2, hom([[2, 1], [0, 1]], 1, (0, 4)))]
    for dim, M in mats:
        pts = [tuple(int(x) for x in p) for p in rs.randint(-9, 10, size=(6, dim))]
        for variant in ("int", "int32", "float32", "list", "fortran", "strided", "tracked", "readonly"):
            for tr in (True, False):
                W.append(("a_pointsvar", dim, M, pts, tr, variant))
        long = [tuple(int(x) for x in p) for p in rs.randint(-9, 10, size=(400 if not big else 2000, dim))]
        W.append(("a_pointsvar", dim, M, long, True, "int"))
        W.append(("a_pointsvar", dim, M, long, False, "fortran"))
    return W


NEED = {"transform_points_ni": 150, "euler_roundtrip_m": 1500, "rotation_roundtrip_q": 50, "scale_and_translate": 30,
        "kwargs_to_matrix": 100, "quaternion_slerp": 300, "align_g": 200, "plane_transform": 60, "random_rotation": 10,
        "fix_rigid": 50, "is_rigid": 60, "spherical_matrix": 200}


NEED_SUB = {"euler_roundtrip_m.noise=ulp": 500, "euler_roundtrip_m.noise=chain": 500,
            "euler_roundtrip_m.noisy_gimbal_locked": 300, "euler_roundtrip_m.enc=tuple": 100,
            "euler_roundtrip_m.container=intlist": 100, "euler_roundtrip_m.container=3x3": 100,
            "euler_roundtrip_m.container=list": 100, "transform_points_ni.within_1e-8_of_identity": 100,
            "rotation_roundtrip_q.angle_below_1.4e-4": 40, "compose_matrix.absent_factor": 25,
            "decompose_matrix.src=list": 20, "decompose_matrix.src=hom2": 20, "decompose_matrix.src=twice": 20,
            "decompose_matrix.src=fortran": 20, "transform_points.variant=int": 10, "transform_points.variant=list": 10,
            "transform_points.variant=tracked": 10, "transform_points.variant=float32": 10,
            "transform_points.variant=strided": 10, "euler_matrix.enc=tuple": 400, "euler_from_quaternion.enc=tuple": 400,
            "scale_and_translate.smode=none": 5, "kwargs_to_matrix.kind=quat": 40, "kwargs_to_matrix.kind=axis": 40}


def gimbal_for(axes, M):
    """is the exact rotation M (record {"n","d"}) gimbal-locked for the convention?  (attribution only)"""
    idx = {"x": 0, "y": 1, "z": 2}
    first, last = idx[axes[1]], idx[axes[3]]
    n, d = M["n"], M["d"]
    if axes[1] == axes[3]:
        return abs(n[first][first]) == d
    i, k = (first, last) if axes[0] == "s" else (last, first)
    return abs(n[k][i]) == d


def deviation_of_audit(c):
    """Deviation id for a rejected record of the audit families, decided on the INPUT only."""
    fn = c["fn"]
    if fn == "transform_points_ni":
        return "TransformPointsNearIdentityShortcut"
    if fn == "rotation_roundtrip_q":
        w, x, y, z = c["q"]
        n = w * w + x * x + y * y + z * z
        if 2.0 * (x * x + y * y + z * z) / n < 1.0e-8:       # 1 - cos(angle) < 1e-8
            return "RotationFromMatrixSmallAngle"
    if fn == "euler_roundtrip_m" and c.get("noise") in ("ulp", "chain") and gimbal_for(c["axes"], c["M"]):
        return "EulerFromMatrixNoisyGimbal"
    if fn == "scale_and_translate" and c.get("smode") == "none":
        return "ScaleAndTranslateDefaultScale"
    return None
