"""C10 - scene-level quantities equal explicit placement of every instance.

Reference: spec/ScenePlace.tla (placed vertices of every instancing node carried up the chain of exact
rational edge maps x -> (l.x + t)/d, then through the STEPS an operation history is specified to
apply: affine maps and re-zeroings, optionally scoped to one operand of a sum; bounds, triangle bag,
6*volume, 2*area, the convex hull (as a certificate: closed, convex, vertices among the placed points,
every placed point inside), 24*first moment and 120*inertia about the base frame as functions of the
placed instances).
The harness enumerates small forests x exact edge transforms (cube rotations, 3-4-5 / 1-2-2 rational
rotations, uniform scales 2 and 1/2, integer translations, the whole scene at magnitudes 2^-24..2^30)
x geometry assignments (0, 1 or several instances; closed mesh, open sheet, point cloud, 2D and 3D
path, geometries present but not instanced) x operation histories (single operations, two- and
three-operation sequences, operations after a re-zeroing renamed the base frame), builds the real
Scene, performs the operations, snaps what the scene reports to integers (residual test) and records
it; TLC validates every record against the specification (code -> spec).  The source scene is
re-observed after each derived-scene operation (SourceUnmodified).
"""
import itertools
import math
import sys
from fractions import Fraction

import numpy as np

from harness import tlc
from harness.common import (MachineryError, Verdict, import_trimesh, pmap, seed,
                            tier_from_args)

PROP = "C10"
CFG = "INIT Init\nNEXT Next\nINVARIANT Report\nCHECK_DEADLOCK FALSE\n"

RZ = [[0, -1, 0], [1, 0, 0], [0, 0, 1]]
RX = [[1, 0, 0], [0, 0, -1], [0, 1, 0]]
RY = [[0, 0, 1], [0, 1, 0], [-1, 0, 0]]
I3 = [[1, 0, 0], [0, 1, 0], [0, 0, 1]]


def sc(L, s):
    return [[s * x for x in r] for r in L]


def mm(A, B):
    return (np.array(A) @ np.array(B)).tolist()


def E(l, t, d=1):
    """the affine map x -> (l.x + t) / d with integer l, t, d"""
    return {"l": l, "t": t, "d": d}


GENS = [
    E(I3, [0, 0, 0]),
    E(RZ, [4, 0, 0]),
    E(RX, [0, 2, 0]),
    E(sc(I3, 2), [0, 0, 2]),
    E(I3, [2, 2, 0]),
    E(sc(RZ, 2), [-2, 0, 4]),
    E(mm(RY, RZ), [0, -4, 2]),
]
# rational rotations (not axis aligned: the box of a rotated box is not the rotated box), scale 1/2
R345Z = [[3, -4, 0], [4, 3, 0], [0, 0, 5]]
R345X = [[5, 0, 0], [0, 3, -4], [0, 4, 3]]
R122 = [[1, -2, 2], [2, -1, -2], [2, 2, 1]]
RGENS = [
    E(R345Z, [10, 0, 5], 5),
    E(R345X, [0, -5, 0], 5),
    E(R122, [3, 0, 6], 3),
    E(I3, [0, 2, 0], 2),
    E(sc(R345Z, 2), [0, 0, 10], 5),
]
# small maps for the mass-property records (coordinates must stay <= 12 for 32-bit TLC integers)
MGENS = [
    E(I3, [0, 0, 0]),
    E(RZ, [2, 0, 0]),
    E(RX, [0, 1, 0]),
    E(I3, [1, 1, 0]),
    E(sc(I3, 2), [0, 0, 1]),
    E(mm(RY, RZ), [0, -2, 1]),
    E(sc(RZ, 2), [-1, 0, 0]),
]
# mirrors (improper similarities: a left-hand and a right-hand copy of one part), small for the mass records
MIRGENS = [
    E([[-1, 0, 0], [0, 1, 0], [0, 0, 1]], [2, 0, 0]),
    E([[0, 1, 0], [1, 0, 0], [0, 0, 1]], [0, 1, 0]),
    E([[2, 0, 0], [0, 2, 0], [0, 0, -2]], [0, 0, 1]),
    E([[0, 0, -1], [0, 1, 0], [-1, 0, 0]], [1, 0, -1]),
]
IDM = E(I3, [0, 0, 0])


def is_mirror(e):
    return float(np.linalg.det(np.array(e["l"], dtype=float))) < 0


def to4(e, K=1.0):
    M = np.eye(4)
    M[:3, :3] = np.array(e["l"], dtype=float) / e["d"]
    M[:3, 3] = np.array(e["t"], dtype=float) / e["d"] * K
    return M


def is_rotated(e):
    """linear part is not a multiple of the identity"""
    L = np.array(e["l"])
    return bool((L != np.eye(3, dtype=int) * L[0, 0]).any())


def geoms_lib(tm):
    """name -> dict(make(K) -> object, v integer vertices (3D), f faces (0-based), a2, kind)"""
    box = tm.creation.box(extents=[2, 4, 2])
    bv = np.round(np.array(box.vertices) + [1, 2, 1]).astype(int)          # [0,2]x[0,4]x[0,2]
    bf = np.array(box.faces)
    tv = np.array([[0, 0, 0], [2, 0, 0], [0, 4, 0], [0, 0, 2]])
    tf = np.array([[0, 2, 1], [0, 1, 3], [1, 2, 3], [2, 0, 3]])
    cv = np.array([[0, 0, 0], [2, 2, 0], [0, 4, 2], [-2, 0, 2]])
    sv = np.array([[0, 0, 0], [2, 0, 0], [2, 2, 0], [0, 2, 0]])               # open square sheet
    sf = np.array([[0, 1, 2], [0, 2, 3]])
    rect = np.array([[0, 0], [2, 0], [2, 4], [0, 4], [0, 0]])                 # closed 2D polyline
    pl3 = np.array([[0, 0, 0], [2, 0, 0], [2, 4, 2]])                         # open 3D polyline
    nof = np.zeros((0, 3), dtype=int)
    vv = np.array([[0, 0, 0], [2, 2, 0], [0, 4, 2], [-2, 0, 2], [1, 1, 1]])    # a mesh with vertices but no faces

    def path_vertices(obj):
        v = np.round(np.array(obj.vertices)).astype(int)
        return v if v.shape[1] == 3 else np.column_stack([v, np.zeros(len(v), dtype=int)])
    lib = {
        "box": dict(make=lambda K=1.0: tm.Trimesh(bv * K, bf, process=False), v=bv, f=bf, a2=2 * 2 * (2 * 4 + 4 * 2 + 2 * 2), kind="solid"),
        "tet": dict(make=lambda K=1.0: tm.Trimesh(tv * K, tf, process=False), v=tv, f=tf, a2=0, kind="solid"),
        "cloud": dict(make=lambda K=1.0: tm.PointCloud(cv * K), v=cv, f=nof, a2=0, kind="cloud"),
        "sheet": dict(make=lambda K=1.0: tm.Trimesh(sv * K, sf, process=False), v=sv, f=sf, a2=2 * 4, kind="sheet"),
        "vmesh": dict(make=lambda K=1.0: tm.Trimesh(vv * K, nof.copy(), process=False), v=vv, f=nof, a2=0, kind="vmesh"),
        "rect": dict(make=lambda K=1.0: tm.load_path(rect * K), v=path_vertices(tm.load_path(rect * 1.0)), f=nof, a2=0, kind="path2"),
        "pl3": dict(make=lambda K=1.0: tm.load_path(pl3 * K), v=path_vertices(tm.load_path(pl3 * 1.0)), f=nof, a2=0, kind="path3"),
    }
    return lib


class OffLattice(Exception):
    pass


def snap(x, what):
    a = np.asarray(x, dtype=float)
    r = np.round(a)
    if a.size and not np.isfinite(a).all():
        raise OffLattice(what + "_not_finite")
    if a.size and np.abs(a - r).max() > 1e-6 * max(1.0, float(np.abs(r).max()) * 1e-3):
        raise OffLattice(what)
    if a.size and np.abs(r).max() >= 2 ** 31 - 1:
        raise MachineryError("integer beyond 32 bits in a record: " + what)
    return r.astype(int).tolist()


NOHULL = {"has": False, "exc": "", "v": [], "f": []}
NOMASS = {"has": False, "exc": "", "cm_on": True, "cm24": [0, 0, 0], "in_on": True, "in120": [0, 0, 0, 0, 0, 0]}


def observe_dummy():
    return {"empty": True, "bounds": [[0, 0, 0], [0, 0, 0]], "has_tris": False, "tris": [], "tris_unoriented": False, "has_vol": False,
            "vol6": 0, "vol_exc": "", "has_area": False, "area2": 0, "area_exc": "", "hull": dict(NOHULL), "mass": dict(NOMASS)}


HULL_EXTENT = 500     # |cross| * |p - a| must stay below 2^31 in TLC
MASS_COORD = 12


def observe(scene, u, closed_only=True, area_ok=True, want_hull=False, want_mass=False, light=False, unoriented=False):
    """What the scene reports, snapped to integers.  u: units dict(F, K, FV, FA): coordinates are multiplied
    by F / K, 6 * volume by FV / K^3, 2 * area by FA / K^2."""
    obs = observe_dummy()
    if scene.is_empty or scene.bounds is None:
        return obs
    cf = u["F"] / u["K"]
    obs["empty"] = False
    obs["tris_unoriented"] = bool(unoriented)
    obs["bounds"] = snap(np.array(scene.bounds) * cf, "bounds")
    # extents and centroid are functions of bounds by definition: checked here as integers against bounds
    ext = snap(np.array(scene.extents) * cf, "extents")
    cen2 = snap(np.array(scene.centroid) * 2 * cf, "centroid")
    b = np.array(obs["bounds"])
    if ext != (b[1] - b[0]).tolist() or cen2 != (b[0] + b[1]).tolist():
        raise OffLattice("extents_or_centroid_inconsistent_with_bounds")
    try:
        obs["tris"] = snap(np.array(scene.triangles) * cf, "triangles")
        obs["has_tris"] = True
    except ValueError:
        obs["has_tris"] = False  # no triangle geometry at all (vstack of nothing)
    if light:
        return obs
    if closed_only:
        obs["has_vol"] = True
        try:
            obs["vol6"] = snap(np.array(float(scene.volume)) * 6 * u["FV"] / u["K"] ** 3, "volume")
        except OffLattice:
            raise
        except BaseException as e:  # noqa
            obs["vol_exc"] = type(e).__name__ + ":" + str(e)[:60]
    if area_ok:
        obs["has_area"] = True
        try:
            obs["area2"] = snap(np.array(float(scene.area)) * 2 * u["FA"] / u["K"] ** 2, "area")
        except OffLattice:
            raise
        except BaseException as e:  # noqa
            obs["area_exc"] = type(e).__name__ + ":" + str(e)[:60]
    if want_hull and (b[1] - b[0]).max() <= HULL_EXTENT and (b[1] - b[0]).min() > 0:
        h = {"has": True, "exc": "", "v": [], "f": []}
        try:
            hull = scene.convex_hull
            h["v"] = snap(np.array(hull.vertices) * cf, "hull")
            h["f"] = (np.array(hull.faces) + 1).tolist()
        except OffLattice as e:
            h["exc"] = "offlattice:" + str(e)
        except BaseException as e:  # noqa
            h["exc"] = type(e).__name__ + ":" + str(e)[:60]
        obs["hull"] = h
    if (want_mass and closed_only and not obs["vol_exc"] and u["F"] == 1 and u["K"] == 1.0 and u["FV"] == 1
            and obs["has_tris"] and obs["vol6"] > 0 and np.abs(b).max() <= MASS_COORD):
        m = {"has": True, "exc": "", "cm_on": True, "cm24": [0, 0, 0], "in_on": True, "in120": [0, 0, 0, 0, 0, 0]}
        try:
            cm = np.array(scene.center_mass, dtype=float)
            try:
                m["cm24"] = snap(cm * 4 * obs["vol6"], "center_mass")
            except OffLattice:
                m["cm_on"] = False
            inr = np.array(scene.moment_inertia_frame(np.eye(4)), dtype=float) * 120
            try:
                m["in120"] = snap([inr[0, 0], inr[1, 1], inr[2, 2], inr[0, 1], inr[0, 2], inr[1, 2]], "inertia")
            except OffLattice:
                m["in_on"] = False
        except MachineryError:
            raise
        except BaseException as e:  # noqa
            m["exc"] = type(e).__name__ + ":" + str(e)[:60]
        obs["mass"] = m
    return obs


def build(tm, lib, cfg):
    K = float(cfg.get("K", 1.0))
    s = tm.Scene()
    names = ["n%d" % (k + 1) for k in range(len(cfg["parent"]))]
    objs = {}
    for k, (p, e, g) in enumerate(zip(cfg["parent"], cfg["edge"], cfg["geom"])):
        parent = None if p == 0 else names[p - 1]
        if g:
            gname = cfg["gnames"][g - 1]
            if gname not in objs:
                objs[gname] = lib[gname]["make"](K)
                s.add_geometry(objs[gname], node_name=names[k], geom_name=gname, parent_node_name=parent, transform=to4(e, K))
            else:
                # a further instance of a geometry already in the scene: a node referencing it by name
                s.graph.update(frame_to=names[k], frame_from=parent, matrix=to4(e, K), geometry=gname)
        else:
            s.graph.update(frame_to=names[k], frame_from=parent, matrix=to4(e, K))
    if cfg.get("orphan"):
        # a geometry that is in the scene but instanced zero times (far away and large: it must not count)
        o = lib["box"]["make"](K * 64.0)
        s.geometry["orphan"] = o
    if cfg.get("strip"):
        # every geometry instanced zero times: the nodes lose their geometry reference
        s.graph.remove_geometries(list(s.geometry.keys()))
    return s, names


def spec_geoms(lib, gnames, edits=None):
    out = []
    for g in gnames:
        v = np.array(lib[g]["v"])
        if edits and g in edits:
            v = v.copy()
            for idx, newv in edits[g]:
                v[idx] = newv
        out.append({"v": v.tolist(), "f": (np.array(lib[g]["f"]) + 1).tolist(), "a2": int(lib[g]["a2"])})
    return out


def spec_cfg(cfg):
    geom = [0] * len(cfg["geom"]) if cfg.get("strip") else cfg["geom"]
    return {"parent": cfg["parent"], "geom": geom, "edge": [{"l": e["l"], "t": e["t"], "d": e["d"]} for e in cfg["edge"]]}


def flags(cfg, lib):
    used = [lib[cfg["gnames"][g - 1]]["kind"] for g in cfg["geom"] if g]
    closed = all(u != "sheet" for u in used)       # open sheets have no meaningful volume
    # area: only for meshes whose faces stay axis aligned or clouds; a path's `area` is the area it encloses
    area_ok = all((u == "solid" and lib[n]["a2"] > 0) or u in ("cloud", "sheet", "vmesh") for u, n in
                  zip(used, [cfg["gnames"][g - 1] for g in cfg["geom"] if g]))
    solid = any(u == "solid" for u in used)
    return closed, area_ok, solid


def m_step(e, lo=0, hi=0):
    return {"k": "m", "l": e["l"], "t": e["t"], "d": e["d"], "lo": lo, "hi": hi}


def rz_step(lo=0, hi=0):
    return {"k": "rezero", "l": I3, "t": [0, 0, 0], "d": 1, "lo": lo, "hi": hi}


def _lcm(a, b):
    return a * b // math.gcd(a, b)


def units_for(cfg, steps, sub, K):
    """F, FV, FA clearing every denominator of the record (units only: the spec re-checks exactness)."""
    n = len(cfg["parent"])
    F, FV, FA = 1, 1, 1
    for k in range(n):
        if not cfg["geom"][k]:
            continue
        node = k + 1
        d, vf, af = 1, Fraction(1), Fraction(1)
        cur, ok = node, sub == 0
        while cur != 0 and cur != sub:
            e = cfg["edge"][cur - 1]
            d *= e["d"]
            vf *= Fraction(abs(int(round(np.linalg.det(np.array(e["l"], dtype=float))))), e["d"] ** 3)
            af *= Fraction(int(np.dot(e["l"][0], e["l"][0])), e["d"] ** 2)
            cur = cfg["parent"][cur - 1]
        if cur == sub:
            ok = True
        if not ok:
            continue
        for st in steps:
            if st["hi"] and not (st["lo"] <= node <= st["hi"]):
                continue
            if st["k"] == "m":
                d *= st["d"]
                vf *= Fraction(abs(int(round(np.linalg.det(np.array(st["l"], dtype=float))))), st["d"] ** 3)
                af *= Fraction(int(np.dot(st["l"][0], st["l"][0])), st["d"] ** 2)
        F, FV, FA = _lcm(F, d), _lcm(FV, vf.denominator), _lcm(FA, af.denominator)
    F *= 2 ** sum(1 for st in steps if st["k"] == "rezero")
    return {"F": F, "FV": FV, "FA": FA, "K": float(K)}


def merge_cfgs(cfgs):
    merged = {"parent": [], "edge": [], "geom": [], "gnames": []}
    ranges = []
    for c_ in cfgs:
        n0, g0 = len(merged["parent"]), len(merged["gnames"])
        merged["parent"] += [p_ + n0 if p_ else 0 for p_ in c_["parent"]]
        merged["edge"] += c_["edge"]
        merged["geom"] += [0 if c_.get("strip") else (g_ + g0 if g_ else 0) for g_ in c_["geom"]]
        merged["gnames"] += c_["gnames"]
        ranges.append((n0 + 1, n0 + len(c_["parent"])))
    return merged, ranges


def scale_map(k):
    """scale argument of Scene.scaled -> (argument for trimesh, affine map, uniform?)"""
    if isinstance(k, tuple):          # rational uniform factor num / den
        return k[0] / k[1], E(sc(I3, k[0]), [0, 0, 0], k[1]), True
    if isinstance(k, list):
        return k, E([[k[0], 0, 0], [0, k[1], 0], [0, 0, k[2]]], [0, 0, 0]), len(set(k)) == 1
    return k, E(sc(I3, k), [0, 0, 0]), True


UNITS = {("cm", "mm"): E(sc(I3, 10), [0, 0, 0]), ("mm", "cm"): E(I3, [0, 0, 0], 10), ("m", "cm"): E(sc(I3, 100), [0, 0, 0])}
MESH_KINDS = ("solid", "sheet", "vmesh")


def run_config(tm, lib, cfg, ops, out):
    """Build the scene, run each operation history, append records to out."""
    K = float(cfg.get("K", 1.0))
    fam = cfg.get("fam", "base")

    def emit(op, scene_fn, c=None, steps=(), sub=0, area=True, edits=None, hull=None, mass=None, novol=False, **kw):
        c = c or cfg
        cl, ar, so = flags(c, lib)
        steps = list(steps)
        u = units_for(c if not c.get("strip") else dict(c, geom=[0] * len(c["geom"])), steps, sub, K)
        similar = all(st["k"] != "m" or is_rot_only(st) for st in steps)
        r = {"op": op, "fam": fam, "cfg": spec_cfg(c), "geoms": spec_geoms(lib, c["gnames"], edits), "steps": steps, "sub": sub,
             "F": u["F"], "FV": u["FV"], "FA": u["FA"], "exc": "",
             "desc": {"parent": c["parent"], "geom": c["geom"], "gnames": c["gnames"], "K": K, "orphan": bool(cfg.get("orphan")),
                      "strip": bool(cfg.get("strip")), **kw}}
        so = sel_has_solid(c, sub, lib)     # the placed points are then certainly not coplanar
        want_hull = (cfg.get("hull", False) if hull is None else hull) and so
        want_mass = (cl and so and similar) if mass is None else mass
        if sub and c["geom"][sub - 1]:
            # as built the subscene leaves out the geometry of its own root (attributed in the spec by comparing
            # with the strict descendants): keep that comparison to bounds / triangles / volume / area
            want_hull = want_mass = False
        # a mirror among the maps: Scene.triangles is not re-wound, the baked copies are (see ScenePlace.tla)
        mirrored = any(is_mirror(e) for e in c["edge"]) or any(st["k"] == "m" and is_mirror(st) for st in steps)
        unoriented = mirrored and op not in ("to_mesh", "dump", "to_geometry", "dump_concatenate")
        try:
            sc_ = scene_fn()
            r["obs"] = observe(sc_, u, closed_only=cl and not novol, area_ok=ar and area and similar and not edits,
                               want_hull=want_hull, want_mass=want_mass, unoriented=unoriented)
        except OffLattice as e:
            r["exc"] = "offlattice:" + str(e)
            r["obs"] = observe_dummy()
        except MachineryError:
            raise
        except BaseException as e:  # noqa
            r["exc"] = type(e).__name__ + ":" + str(e)[:60]
            r["obs"] = observe_dummy()
        out.append(r)

    def warm(s):
        try:
            observe(s, {"F": 1, "K": K, "FV": 1, "FA": 1}, light=True)
        except BaseException:  # noqa
            pass

    for op in ops:
        s, names = build(tm, lib, cfg)
        kind = op[0]
        if kind == "read":
            emit("read", lambda: s)
        elif kind == "copy":
            emit("copy", lambda: s.copy())
            emit("source_after_copy", lambda: s)
        elif kind == "scaled":
            arg, m, uniform = scale_map(op[1])
            warm(s)  # warm the caches of the source first
            dev = "uniform" if uniform else "per_axis"
            if isinstance(op[1], list) and uniform:
                dev = "per_axis"        # a list argument, equal factors (kept under the old record name)
            emit("scaled_" + dev, lambda: s.scaled(arg), steps=[m_step(m)], scale=str(op[1]), per_axis=not uniform)
            emit("source_after_scaled", lambda: s)
        elif kind == "apply_transform":
            g = op[1]
            warm(s)
            emit("apply_transform", lambda: s.apply_transform(to4(g, K)), steps=[m_step(g)])
        elif kind == "rezero":
            warm(s)

            def f():
                s.rezero()
                return s
            emit("rezero", f, steps=[rz_step()])
        elif kind in ("to_mesh", "to_geometry", "dumpc"):
            kinds = {lib[cfg["gnames"][g - 1]]["kind"] for g in cfg["geom"] if g}
            if kind == "to_mesh":
                if not kinds:
                    continue
                # to_mesh drops non-mesh geometry by contract: compare on the mesh-only configuration
                c2 = dict(cfg)
                c2["geom"] = [g if g and lib[cfg["gnames"][g - 1]]["kind"] in MESH_KINDS else 0 for g in cfg["geom"]]
                emit("to_mesh", lambda: tm.Scene(s.to_mesh()), c=c2)
            elif kinds and (kinds <= set(MESH_KINDS) or kinds <= {"path2", "path3"}):
                # concatenation of like-typed geometry keeps every instance
                if kind == "to_geometry":
                    emit("to_geometry", lambda: tm.Scene(s.to_geometry()))
                else:
                    emit("dump_concatenate", lambda: tm.Scene(s.dump(concatenate=True)))
        elif kind == "dump":
            emit("dump", lambda: tm.Scene(s.dump()))
        elif kind == "subscene":
            node = op[1]
            if node <= len(names):
                emit("subscene", lambda: s.subscene(names[node - 1]), sub=node)
                emit("source_after_subscene", lambda: s)
        elif kind == "add":
            cfg2 = op[1]
            s2, _ = build(tm, lib, dict(cfg2, K=K))
            # renaming the second scene's nodes / geometries apart is the library's job; spec: union of placements
            merged, _ = merge_cfgs([cfg, cfg2])
            emit("add", lambda: s + s2, c=merged)
            emit("source_after_add", lambda: s)
        elif kind == "append3":
            cfgs3 = [cfg, op[1], op[2]]
            scenes3 = [s] + [build(tm, lib, dict(c_, K=K))[0] for c_ in cfgs3[1:]]
            merged, _ = merge_cfgs(cfgs3)

            def f():
                from trimesh.scene.scene import append_scenes
                return append_scenes(scenes3)
            emit("append3", f, c=merged)
        elif kind == "units":
            src, dst = op[1], op[2]
            warm(s)

            def f():
                s.units = src
                d_ = s.convert_units(dst)
                if d_.units != dst or s.units != src:
                    raise ValueError("units tag: result %r source %r" % (d_.units, s.units))
                return d_
            emit("convert_units", f, steps=[m_step(UNITS[(src, dst)])], units=src + "->" + dst)
            emit("source_after_convert_units", lambda: s)
        elif kind == "copy_edit":
            # edit the COPY in every way the API offers, then re-measure the source through a cold route
            warm(s)
            c_ = s.copy()
            how = op[1]
            try:
                if how == "delete_geometry":
                    c_.delete_geometry(cfg["gnames"][0])
                elif how == "edit_geometry":
                    for g_ in c_.geometry.values():
                        g_.vertices[0] += 3.0 * K
                elif how == "update_edge":
                    for n_ in list(c_.graph.nodes_geometry):
                        c_.graph.update(frame_to=n_, matrix=to4(GENS[3], K))
                elif how == "scaled_per_axis":
                    s.scaled([1, 2, 3])
                elif how == "scaled":
                    s.scaled(2.0)
                elif how == "subscene_delete":
                    sub_ = s.subscene(names[0])
                    for n_ in list(sub_.graph.nodes_geometry):
                        sub_.graph.update(frame_to=n_, matrix=to4(GENS[5], K))
            except BaseException:  # noqa
                pass
            emit("source_cold_after_" + how, lambda: s.copy())
            emit("source_warm_after_" + how, lambda: s)
        elif kind == "edit_geometry":
            # warm caches, edit a vertex of a (possibly shared) geometry in place, read again
            warm(s)
            gname = op[1]
            if gname in s.geometry:
                newv = [6, 0, 0]

                def f():
                    nv = np.array(newv, dtype=float) * K
                    s.geometry[gname].vertices[1] = nv[:s.geometry[gname].vertices.shape[1]]
                    return s
                # the edited shape has no integer area: compare points, triangles and the signed volume
                emit("edit_geometry", f, edits={gname: [(1, newv)]}, mass=False, edited=gname)
        elif kind == "edit_edge":
            warm(s)
            node, g = op[1], op[2]
            if node <= len(names):
                c2 = dict(cfg)
                c2["edge"] = list(cfg["edge"])
                c2["edge"][node - 1] = g
                parent = None if cfg["parent"][node - 1] == 0 else names[cfg["parent"][node - 1] - 1]

                def f():
                    s.graph.update(frame_to=names[node - 1], frame_from=parent, matrix=to4(g, K))
                    return s
                emit("edit_edge", f, c=c2, node=node)
        elif kind == "seq":
            run_seq(tm, lib, cfg, s, names, op[1], emit, warm, K, do_warm=op[2])


def sel_has_solid(c, sub, lib):
    """is a solid instanced in the selected part of the configuration (whole scene, or the subtree of `sub`)"""
    if c.get("strip"):
        return False
    for k, g in enumerate(c["geom"]):
        if not g or lib[c["gnames"][g - 1]]["kind"] != "solid":
            continue
        cur = k + 1
        while cur != 0 and cur != sub:
            cur = c["parent"][cur - 1]
        if cur == sub:
            return True
    return False


def selected(scfg, sub):
    """nodes with geometry in the selected part of a spec configuration"""
    out = []
    for k, g in enumerate(scfg["geom"]):
        cur = k + 1
        while g and cur != 0 and cur != sub:
            cur = scfg["parent"][cur - 1]
        if g and cur == sub:
            out.append(k + 1)
    return out


def per_axis_step(st):
    """an affine step whose linear part is diagonal with unequal factors"""
    L = np.array(st["l"])
    return st["k"] == "m" and not (L - np.diag(np.diag(L))).any() and len(set(np.diag(L).tolist())) > 1


def is_rot_only(st):
    """a step whose linear part is a similarity (rows of equal norm, orthogonal)"""
    L = np.array(st["l"], dtype=float)
    G = L @ L.T
    return bool(np.allclose(G, np.eye(3) * G[0, 0]))


def run_seq(tm, lib, cfg, s, names, prims, emit, warm, K, do_warm):
    """A sequence of operations; in-place ones act on the current scene, the others derive a new scene."""
    cur, c, steps, sub = s, cfg, [], 0
    src_steps, derived, label, per_axis = [], False, [], False
    try:
        for pr in prims:
            if do_warm:
                warm(cur)
            kind = pr[0]
            label.append(kind)
            st = None
            if kind == "rezero":
                cur.rezero()
                st = rz_step()
            elif kind == "apply":
                cur.apply_transform(to4(pr[1], K))
                st = m_step(pr[1])
            elif kind == "scaled":
                arg, m, uniform = scale_map(pr[1])
                per_axis = per_axis or not uniform
                cur, derived = cur.scaled(arg), True
                st = m_step(m)
            elif kind == "copy":
                cur, derived = cur.copy(), True
            elif kind == "units":
                cur.units = pr[1]
                cur, derived = cur.convert_units(pr[2]), True
                st = m_step(UNITS[(pr[1], pr[2])])
            elif kind == "delgeom":
                # a graph / geometry edit in place: every instance of one geometry goes away
                gi = 1 + pr[1] % len(c["gnames"])
                cur.delete_geometry(c["gnames"][gi - 1])
                c = dict(c, geom=[0 if g_ == gi else g_ for g_ in c["geom"]])
                if not derived:
                    cfg = c
            elif kind == "replace":
                # the geometry behind a name is replaced by another object (every instance follows)
                gi = 1 + pr[1] % len(c["gnames"])
                new = "tet" if c["gnames"][gi - 1] != "tet" else "box"
                if c["gnames"][gi - 1] not in cur.geometry:
                    return
                cur.geometry[c["gnames"][gi - 1]] = lib[new]["make"](K)
                c = dict(c, gnames=[new if k_ == gi - 1 else g_ for k_, g_ in enumerate(c["gnames"])])
                if not derived:
                    cfg = c
            elif kind == "rmleaf":
                # a graph edit in place: a leaf frame (and its instance) is removed
                if len(c["parent"]) != len(names) or derived:
                    return
                leaves = [k_ + 1 for k_ in range(len(names)) if (k_ + 1) not in c["parent"] and c["geom"][k_]]
                if not leaves:
                    return
                leaf = leaves[pr[1] % len(leaves)]
                cur.graph.transforms.remove_node(names[leaf - 1])
                c = dict(c, geom=[0 if k_ == leaf - 1 else g_ for k_, g_ in enumerate(c["geom"])])
                cfg = c
            elif kind == "sub":
                if len(c["parent"]) != len(names) or pr[1] > len(names):
                    return
                if sub:
                    # a subscene of a subscene: only below the current root
                    up = pr[1]
                    while up != 0 and up != sub:
                        up = c["parent"][up - 1]
                    if up != sub or pr[1] == sub:
                        return
                cur, derived = cur.subscene(names[pr[1] - 1]), True
                steps, sub = [], pr[1]
            elif kind in ("add", "radd", "addself", "addmesh", "addgeom"):
                if sub:
                    return
                if kind == "addself":
                    other_cfg, other = c, cur
                elif kind == "addmesh":
                    other_cfg = {"parent": [0], "edge": [IDM], "geom": [1], "gnames": ["box"]}
                    other = lib["box"]["make"](K)
                else:
                    other_cfg = pr[1]
                    other = build(tm, lib, dict(other_cfg, K=K))[0]
                order = [other_cfg, c] if kind == "radd" else [c, other_cfg]
                merged, ranges = merge_cfgs(order)
                lo, hi = ranges[1] if kind == "radd" else ranges[0]
                # what was done so far concerns only the instances that came from the current scene
                steps = [dict(st_, lo=(lo if not st_["hi"] else st_["lo"] + lo - 1), hi=(hi if not st_["hi"] else st_["hi"] + lo - 1))
                         for st_ in steps]
                if kind == "addgeom":
                    cur.add_geometry(other)          # in place: the current scene becomes the sum
                    if not derived:
                        src_steps = list(steps)
                        cfg = merged                 # the source itself is now the sum
                elif kind == "radd":
                    cur, derived = other + cur, True
                else:
                    cur, derived = cur + other, True
                c = merged
            if st is not None:
                steps.append(st)
                if not derived:
                    src_steps.append(st)
    except BaseException as e:  # noqa
        exc = type(e).__name__ + ":" + str(e)[:60]

        def boom():
            raise RuntimeError("sequence raised " + exc)
        emit("seq:" + "+".join(label), boom, c=c, steps=steps, sub=sub, seq=label, per_axis=per_axis)
        return
    emit("seq:" + "+".join(label), lambda: cur, c=c, steps=steps, sub=sub, seq=label, per_axis=per_axis)
    if derived:
        emit("source_after_seq:" + "+".join(label), lambda: s, c=cfg, steps=src_steps, seq=label)


def _chunk(args):
    tm = import_trimesh()
    lib = geoms_lib(tm)
    out = []
    for cfg, ops in args:
        run_config(tm, lib, cfg, ops, out)
    return out


# ------------------------------------------------------------------ composition layer (SceneCache.tla)
SC_CFG = """CONSTANTS
  Geoms <- G2
  Quantities <- Q3
  MaxDepth = {depth}
  GraphForgetsDirty = {forget}
SPECIFICATION Spec
{view}
{invs}
CHECK_DEADLOCK FALSE
"""


def _shadow_scene(tm, geoms, edges):
    """Fresh scene from shadow data: geoms name -> (v, f); edges: list of (parent, node, matrix, geom or None)."""
    s = tm.Scene()
    objs = {n: tm.Trimesh(v.copy(), f.copy(), process=False) for n, (v, f) in geoms.items()}
    added = set()
    for parent, node, M, g in edges:
        if g is not None and g in objs and g not in added:
            s.add_geometry(objs[g], node_name=node, geom_name=g, parent_node_name=parent, transform=M.copy())
            added.add(g)
        elif g is not None and g in objs:
            s.graph.update(frame_to=node, frame_from=parent, matrix=M.copy(), geometry=g)
        else:
            s.graph.update(frame_to=node, frame_from=parent, matrix=M.copy())
    return s


def _quant(s, q):
    if s.is_empty or len(s.graph.nodes_geometry) == 0:
        return ("empty",)
    if q == "bounds":
        return ("b", np.round(np.array(s.bounds), 9).tolist())
    if q == "triangles":
        t = np.round(np.array(s.triangles).reshape(-1, 9), 9)
        return ("t", sorted(map(tuple, t.tolist())))
    return ("m", round(float(s.area), 9), round(float(s.volume), 9), np.round(np.array(s.centroid), 9).tolist())


def replay_scene_history(tm, h, rot):
    b = tm.creation.box(extents=[2, 4, 2])
    geoms = {"box": (np.array(b.vertices) + [1, 2, 1], np.array(b.faces)),
             "tet": (np.array([[0, 0, 0], [2, 0, 0], [0, 4, 0], [0, 0, 2]], dtype=float), np.array([[0, 2, 1], [0, 1, 3], [1, 2, 3], [2, 0, 3]]))}
    edges = [("world", "a", to4(GENS[1]), "box"), ("a", "b", to4(GENS[4]), "box"), ("b", "c", to4(GENS[2]), "tet")]
    s = _shadow_scene(tm, geoms, edges)
    nxt = 0
    steps = []
    for j, st in enumerate(h):
        op = st["op"]
        steps.append(op + (":" + st.get("q", st.get("g", "")) if ("q" in st or "g" in st) else ""))
        try:
            if op == "read":
                want = _quant(_shadow_scene(tm, geoms, edges), st["q"])
                got = _quant(s, st["q"])
                if got != want:
                    return {"clause": "NoStaleSceneRead:" + st["q"], "step": j, "steps": steps, "got": str(got)[:160], "want": str(want)[:160]}
            elif op == "edit_geometry":
                g = st["g"]
                if g in geoms:
                    d = np.array([0.5, 0.25, 1.0]) * (1 + (rot + j) % 3)
                    s.geometry[g].vertices[1] += d
                    geoms[g][0][1] += d
            elif op == "update_edge":
                k = (rot + j) % len(edges)
                parent, node, _, g = edges[k]
                M = to4(GENS[(rot + j * 3) % len(GENS)])
                s.graph.update(frame_to=node, frame_from=parent, matrix=M)
                edges[k] = (parent, node, M, g)
            elif op == "add_instance":
                name = "extra%d" % nxt
                nxt += 1
                g = "box" if "box" in geoms else ("tet" if "tet" in geoms else None)
                M = to4(GENS[(rot + j) % len(GENS)])
                if g is not None:
                    s.graph.update(frame_to=name, frame_from="a", matrix=M, geometry=g)
                    edges.append(("a", name, M, g))
            elif op == "reparent":
                k = len(edges) - 1 if len(edges) > 3 else 2
                parent, node, M, g = edges[k]
                newp = "world" if parent != "world" else "a"
                s.graph.update(frame_to=node, frame_from=newp, matrix=M)
                edges[k] = (newp, node, M, g)
            elif op == "delete_geometry":
                g = st["g"]
                if g in geoms:
                    s.delete_geometry(g)
                    del geoms[g]
                    edges = [(p_, n_, M_, (None if g_ == g else g_)) for p_, n_, M_, g_ in edges]
        except BaseException as e:  # noqa
            return {"clause": "scene_operation_raises", "step": j, "steps": steps, "exc": type(e).__name__ + ": " + str(e)[:80]}
    return None


def _scene_chunk(args):
    tm = import_trimesh()
    out = []
    for idx, h in args:
        f = replay_scene_history(tm, h, idx + seed())
        if f:
            out.append(f)
    return out, len(args)



def scene_cache_layer(V, tier):
    """composition layer: scene cache over shared geometry and the graph's dirty memo"""
    d = tlc.prepare("c10/scenecache")
    r = tlc.must(tlc.run(d, "SceneCache", SC_CFG.format(depth=7, forget="FALSE", view="VIEW View", invs="INVARIANT NoStaleSceneRead")), "scenecache")
    rr = tlc.run(d, "SceneCache", SC_CFG.format(depth=7, forget="TRUE", view="VIEW View", invs="INVARIANT NoStaleSceneRead"))
    if rr.violated != "NoStaleSceneRead":
        raise MachineryError("SceneCache self-test: forgetting the graph dirty flag was not reported")
    depth = 4 if tier == "quick" else 5
    r2 = tlc.must(tlc.run(d, "SceneCache", SC_CFG.format(depth=depth, forget="FALSE", view="", invs="INVARIANT EmitLeaf"), workers=1, timeout=900), "scenecache-emit")
    hs = [h for h in r2.printed if any(x["op"] == "read" for x in h[1:])]
    if tier == "quick" and len(hs) > 2500:
        sel = np.random.RandomState(seed()).permutation(len(hs))[:2500]
        hs = [hs[k] for k in sorted(sel)]
    if len(hs) < 500:
        raise MachineryError("too few scene-cache histories")
    res3 = pmap(_scene_chunk, list(enumerate(hs)), chunk=60)
    n_sc = sum(x[1] for x in res3)
    for x in res3:
        for f in x[0]:
            V.violation(f["clause"], f)
    return r.distinct + r2.distinct, r.generated, n_sc


SHAPES = [[0], [0, 0], [0, 1], [0, 0, 0], [0, 0, 1], [0, 1, 1], [0, 1, 2], [0, 0, 2]]


def configs(rs, per, gsets, gens, fam, shapes=SHAPES, max_rational=None):
    out = []
    for shape in shapes:
        n = len(shape)
        for gnames in gsets:
            # geometry assignment: every node gets 0..len(gnames); instancing arises naturally
            assigns = list(itertools.product(range(len(gnames) + 1), repeat=n))
            for _ in range(per):
                geom = list(assigns[rs.randint(len(assigns))])
                if not any(geom):
                    geom[rs.randint(n)] = 1
                edges = [gens[rs.randint(len(gens))] for _ in range(n)]
                if max_rational is not None:
                    # at most max_rational edges with a denominator (units stay small), at least one
                    rat = [k for k, e in enumerate(edges) if e["d"] != 1]
                    for k in rat[max_rational:]:
                        edges[k] = GENS[rs.randint(len(GENS))]
                    if not rat:
                        edges[rs.randint(n)] = RGENS[rs.randint(len(RGENS))]
                out.append({"parent": shape, "edge": edges, "geom": geom, "gnames": gnames, "fam": fam})
    return out


def big_configs(rs, count):
    """Wide-then-deep forests (a chain attached before several leaf siblings) for subscene / successors."""
    out = []
    shapes = [[0, 1, 2, 3, 1, 1, 1, 1, 1], [0, 1, 2, 3, 4, 0, 0, 0, 0, 0], [0, 1, 1, 2, 4, 5, 1, 1, 1, 1, 1], [0, 0, 0, 3, 4, 5, 0, 0, 0, 0]]
    for k in range(count):
        shape = shapes[k % len(shapes)]
        n = len(shape)
        geom = [int(rs.randint(0, 3)) for _ in range(n)]
        geom[3] = 1
        geom[-1] = 2
        edges = [GENS[rs.randint(len(GENS))] if rs.randint(3) else GENS[0] for _ in range(n)]
        out.append({"parent": shape, "edge": edges, "geom": geom, "gnames": ["box", "tet"], "fam": "big"})
    return out


def sequences(ci, cfg, other, third, gens):
    """Operation sequences for configuration number ci (a rotating selection)."""
    n = len(cfg["parent"])
    g1, g2 = gens[1 + ci % (len(gens) - 1)], gens[1 + (ci * 5 + 2) % (len(gens) - 1)]
    node = 1 + ci % n
    child = next((k + 1 for k, p in enumerate(cfg["parent"]) if p == node), node)
    allseq = [
        [("rezero",), ("copy",)],
        [("rezero",), ("scaled", 2)],
        [("rezero",), ("scaled", [2, 2, 1])],
        [("rezero",), ("sub", node)],
        [("rezero",), ("add", other)],
        [("rezero",), ("radd", other)],
        [("rezero",), ("apply", g1), ("rezero",)],
        [("rezero",), ("addgeom", other)],
        [("rezero",), ("units", "cm", "mm")],
        [("scaled", 2), ("scaled", 3)],
        [("scaled", 2), ("scaled", (1, 2))],
        [("scaled", (1, 2)), ("rezero",)],
        [("copy",), ("copy",)],
        [("apply", g1), ("apply", g2)],
        [("apply", g1), ("scaled", 2)],
        [("scaled", 2), ("apply", g1)],
        [("apply", g1), ("sub", node)],
        [("sub", node), ("sub", child)],
        [("sub", node), ("scaled", 2)],
        [("sub", node), ("rezero",)],
        [("sub", node), ("copy",), ("apply", g2)],
        [("add", other), ("add", third)],
        [("add", other), ("rezero",)],
        [("add", other), ("scaled", 2)],
        [("addself",)],
        [("addmesh",)],
        [("addgeom", other)],
        [("addgeom", other), ("rezero",), ("add", third)],
        [("copy",), ("rezero",), ("radd", other)],
        [("units", "mm", "cm"), ("units", "cm", "mm")],
        [("scaled", [1, 2, 2]), ("rezero",)],
        [("delgeom", ci), ("scaled", [1, 2, 2])],
        [("delgeom", ci), ("scaled", 2)],
        [("delgeom", ci), ("copy",), ("rezero",)],
        [("delgeom", ci), ("add", other)],
        [("delgeom", ci), ("sub", node)],
        [("replace", ci)],
        [("replace", ci), ("scaled", 2)],
        [("replace", ci), ("add", other)],
        [("rmleaf", ci)],
        [("rmleaf", ci), ("copy",)],
        [("rmleaf", ci), ("scaled", [2, 2, 1])],
    ]
    pick = 6
    return [("seq", allseq[(ci * pick + j) % len(allseq)], bool((ci + j) % 2)) for j in range(pick)]


def plan(tier, rs):
    """(cfg, ops) work items of every family."""
    quick = tier == "quick"
    work = []
    # ---- base family: integer maps, all single operations, sequences, orphans, hull on a third
    base_g = [["box"], ["tet"], ["box", "tet"], ["box", "cloud"], ["sheet", "box"], ["cloud"], ["vmesh", "box"]]
    cfgs = configs(rs, 8 if quick else 32, base_g, GENS, "base")
    for ci, cfg in enumerate(cfgs):
        n = len(cfg["parent"])
        other, third = cfgs[(ci * 7 + 3) % len(cfgs)], cfgs[(ci * 11 + 5) % len(cfgs)]
        cfg["hull"] = ci % 3 == 0
        if ci % 4 == 1:
            cfg["orphan"] = True
        ops = [("read",), ("copy",), ("scaled", 2), ("scaled", [2, 2, 2]), ("scaled", [1, 2, 3]), ("apply_transform", GENS[1 + ci % (len(GENS) - 1)]),
               ("rezero",), ("to_mesh",), ("dump",), ("subscene", 1 + ci % n), ("add", other),
               ("edit_geometry", cfg["gnames"][ci % len(cfg["gnames"])]), ("edit_edge", 1 + (ci // 2) % n, GENS[(ci * 3) % len(GENS)]),
               ("append3", other, third),
               ("copy_edit", ["delete_geometry", "edit_geometry", "update_edge", "scaled_per_axis", "scaled", "subscene_delete"][ci % 6]),
               ("scaled", (1, 2)), ("units",) + [("cm", "mm"), ("mm", "cm")][ci % 2], [("to_geometry",), ("dumpc",)][ci % 2]]
        ops += sequences(ci, cfg, other, third, GENS)
        work.append((cfg, ops))
    for k, cfg in enumerate(big_configs(rs, 24 if quick else 200)):
        n = len(cfg["parent"])
        work.append((cfg, [("read",), ("subscene", 1), ("subscene", 1 + k % n), ("subscene", 1 + (k * 5) % n), ("to_mesh",), ("copy",)]))
    # ---- rational family: rotations that are not axis aligned, scale 1/2
    rat_g = [["box"], ["tet"], ["box", "tet"], ["tet", "cloud"], ["sheet", "tet"]]
    rcfgs = configs(rs, 3 if quick else 12, rat_g, GENS + RGENS + RGENS, "rational", max_rational=2)
    for ci, cfg in enumerate(rcfgs):
        n = len(cfg["parent"])
        other = rcfgs[(ci * 7 + 3) % len(rcfgs)]
        cfg["hull"] = ci % 2 == 0
        rg = RGENS[ci % len(RGENS)]
        ops = [("read",), ("copy",), ("scaled", 2), ("scaled", (1, 2)), ("apply_transform", rg), ("rezero",), ("to_mesh",), ("dump",),
               ("subscene", 1 + ci % n), ("add", other), ("edit_edge", 1 + (ci // 2) % n, RGENS[(ci * 3) % len(RGENS)]),
               ("seq", [("rezero",), ("radd", other)], True), ("seq", [("apply", rg), ("apply", GENS[1 + ci % 6])], False)]
        work.append((cfg, ops))
    # ---- magnitude family: the whole scene (vertices and translations) at 2^k
    mags = [2.0 ** -20, 2.0 ** -10, 2.0 ** 10, 2.0 ** 20] + ([] if quick else [2.0 ** 30, 2.0 ** -16])
    mcfgs = configs(rs, 2 if quick else 8, [["box"], ["tet"], ["box", "tet"], ["box", "cloud"]], GENS, "magnitude")
    for ci, cfg in enumerate(mcfgs):
        n = len(cfg["parent"])
        cfg["K"] = mags[ci % len(mags)]
        cfg["hull"] = True
        other = mcfgs[(ci * 7 + 3) % len(mcfgs)]
        ops = [("read",), ("copy",), ("scaled", 2), ("scaled", [2, 2, 2]), ("apply_transform", GENS[1 + ci % 6]), ("rezero",), ("to_mesh",),
               ("dump",), ("subscene", 1 + ci % n), ("add", other), ("edit_geometry", cfg["gnames"][0]),
               ("edit_edge", 1 + ci % n, GENS[(ci * 3) % len(GENS)]), ("seq", [("rezero",), ("add", other)], True)]
        work.append((cfg, ops))
    # microscopic scenes: only the hull is known to go wrong there (absolute tolerances in convex.py)
    for ci, cfg in enumerate(configs(rs, 1, [["box"], ["box", "tet"]], GENS, "microhull", shapes=SHAPES[:4] if quick else SHAPES)):
        cfg["K"] = 2.0 ** -24
        cfg["hull"] = True
        work.append((cfg, [("read",)]))
    # ---- kinds family: 2D / 3D paths next to meshes and clouds
    kind_g = [["rect"], ["rect", "box"], ["pl3", "box"], ["rect", "pl3"], ["pl3", "cloud"], ["rect", "tet"], ["vmesh", "tet"], ["vmesh"]]
    kcfgs = configs(rs, 2 if quick else 8, kind_g, GENS, "kinds")
    for ci, cfg in enumerate(kcfgs):
        n = len(cfg["parent"])
        other = kcfgs[(ci * 7 + 3) % len(kcfgs)]
        cfg["hull"] = ci % 2 == 0
        ops = [("read",), ("copy",), ("scaled", 2), ("scaled", [2, 2, 2]), ("scaled", [1, 2, 3]), ("scaled", (1, 2)),
               ("apply_transform", GENS[1 + ci % 6]), ("rezero",), ("to_mesh",), ("dump",), ("subscene", 1 + ci % n), ("add", other),
               ("edit_geometry", cfg["gnames"][ci % len(cfg["gnames"])]), ("edit_edge", 1 + ci % n, GENS[(ci * 3) % len(GENS)]),
               ("units", "cm", "mm"), [("to_geometry",), ("dumpc",)][ci % 2], ("seq", [("rezero",), ("scaled", 2)], True)]
        work.append((cfg, ops))
    # ---- scenes whose geometries are all instanced zero times
    scfgs = configs(rs, 1, [["box"], ["box", "tet"]], GENS, "noinstance", shapes=SHAPES[:4])
    for ci, cfg in enumerate(scfgs):
        cfg["strip"] = True
        other = cfgs[(ci * 7 + 3) % len(cfgs)]
        work.append((cfg, [("read",), ("copy",), ("scaled", 2), ("scaled", [1, 2, 3]), ("rezero",), ("apply_transform", GENS[1]), ("to_mesh",),
                           ("dump",), ("add", other), ("subscene", 1)]))
    # ---- mass family: small coordinates, closed solids (centre of mass, inertia about the base frame)
    mass_g = [["box"], ["tet"], ["box", "tet"], ["box", "cloud"]]
    macfgs = configs(rs, 4 if quick else 15, mass_g, MGENS, "mass", shapes=SHAPES[:6])
    for ci, cfg in enumerate(macfgs):
        n = len(cfg["parent"])
        other = macfgs[(ci * 7 + 3) % len(macfgs)]
        ops = [("read",), ("copy",), ("apply_transform", MGENS[1 + ci % 6]), ("edit_edge", 1 + ci % n, MGENS[(ci * 3) % len(MGENS)]),
               ("add", other), ("subscene", 1 + ci % n), ("dump",), ("seq", [("apply", MGENS[1 + ci % 6]), ("copy",)], True)]
        work.append((cfg, ops))
    # ---- mirror family: instances placed through maps of negative determinant (small: mass records)
    mir_g = [["box"], ["tet"], ["box", "tet"], ["tet", "cloud"]]
    micfgs = configs(rs, 3 if quick else 12, mir_g, MGENS + MIRGENS + MIRGENS, "mirror", shapes=SHAPES[:6])
    for ci, cfg in enumerate(micfgs):
        n = len(cfg["parent"])
        if not any(is_mirror(e) for e in cfg["edge"]):
            cfg["edge"] = list(cfg["edge"])
            cfg["edge"][ci % n] = MIRGENS[ci % len(MIRGENS)]
        cfg["hull"] = ci % 2 == 0
        other = micfgs[(ci * 7 + 3) % len(micfgs)]
        mg = MIRGENS[(ci * 3 + 1) % len(MIRGENS)]
        ops = [("read",), ("copy",), ("scaled", 2), ("apply_transform", mg), ("rezero",), ("to_mesh",), ("dump",), ("subscene", 1 + ci % n),
               ("add", other), ("edit_edge", 1 + ci % n, mg), [("to_geometry",), ("dumpc",)][ci % 2],
               ("seq", [("apply", mg), ("copy",)], True), ("seq", [("scaled", 2), ("apply", mg)], False)]
        work.append((cfg, ops))
    return work, len(cfgs)


GUARDS_QUICK = {"hull_observed": 2000, "mass_observed": 3000, "mass": 300, "rational": 300, "magnitude": 250, "kinds": 400, "mirror": 300, "vmesh": 400, "noinstance": 40, "microhull": 6,
                "seq": 1500, "subscene_own": 150, "orphan": 1500, "rezero_then": 400, "units": 300}


def main(argv):
    tier = tier_from_args(argv)
    V = Verdict(PROP, tier)
    import_trimesh()
    rs = np.random.RandomState(seed() + 5)
    work, n_base = plan(tier, rs)
    res = pmap(_chunk, work, chunk=4)
    cases = [c for r in res for c in r]
    for k, c in enumerate(cases):
        c["id"] = k
    descs = [c.pop("desc") for c in cases]
    fams = [c.pop("fam") for c in cases]
    if len(cases) < 1000:
        raise MachineryError("too few cases")
    # coverage of the families (no vacuity): count what the records really exercise
    fam_cov = {}
    for c, d, f in zip(cases, descs, fams):
        keys = [f]
        if c["obs"]["hull"]["has"]:
            keys.append("hull_observed")
        if c["obs"]["mass"]["has"]:
            keys.append("mass_observed")
        if c["op"].startswith("seq:"):
            keys.append("seq")
            if c["op"].startswith("seq:rezero+"):
                keys.append("rezero_then")
        if c["op"] == "subscene" and c["sub"] and c["cfg"]["geom"][c["sub"] - 1]:
            keys.append("subscene_own")
        if d.get("orphan"):
            keys.append("orphan")
        if "vmesh" in d["gnames"] and c["op"] in ("to_mesh", "to_geometry", "dump_concatenate", "dump", "add", "append3", "read"):
            keys.append("vmesh")
        if "units" in c["op"]:
            keys.append("units")
        for k_ in keys:
            fam_cov[k_] = fam_cov.get(k_, 0) + 1
    # a family that came out nearly empty must not yield a clean verdict; when the tree under test makes the
    # observations themselves fail (everything raises) the violations are reported instead, see below
    short = {k_: (fam_cov.get(k_, 0), need) for k_, need in GUARDS_QUICK.items() if fam_cov.get(k_, 0) < need}
    rejects, states, wall = tlc.validate_batches("c10", "ScenePlace", cases, CFG, timeout=2400)
    byop = {}
    for c in cases:
        key = c["op"] if not c["op"].startswith(("seq:", "source_after_seq:")) else c["op"].split(":")[0]
        byop[key] = byop.get(key, 0) + 1
    for cid, clause in sorted(rejects.items()):
        c = cases[cid]
        d = descs[cid]
        if clause == "inexact":
            raise MachineryError("record %d: the units chosen by the harness do not clear a denominator: %r" % (cid, {k: c[k] for k in ("op", "cfg", "steps", "F", "FV", "FA")}))
        detail = {"op": c["op"], "family": fams[cid], "config": d, "edges": c["cfg"]["edge"], "steps": c["steps"], "sub": c["sub"], "exc": c["exc"],
                  "observed_bounds": c["obs"]["bounds"], "observed_vol6": c["obs"]["vol6"], "observed_area2": c["obs"]["area2"],
                  "units": [c["F"], c["FV"], c["FA"]], "hull_exc": c["obs"]["hull"]["exc"], "mass_exc": c["obs"]["mass"]["exc"],
                  "vol_exc": c["obs"]["vol_exc"]}
        dev = None
        nonuniform = any(per_axis_step(st) for st in c["steps"])
        if nonuniform and clause in ("bounds", "triangles", "volume", "area", "raised", "hull", "hull_raised", "center_mass", "inertia"):
            # per-axis scaling of translations in local frames: wrong as soon as an ancestor edge rotates
            if any(is_rotated(e) for e in c["cfg"]["edge"]):
                dev = "ScaledPerAxisUnderRotatedParent"
        elif clause == "subscene_drops_own_geometry":
            dev = "SubsceneDropsNodeGeometry"
        elif clause == "raised" and not selected(c["cfg"], c["sub"]):
            # an operation on a scene without a single instance raised instead of doing nothing
            dev = "NoInstanceSceneRaises"
        elif (c["op"] in ("to_mesh", "to_geometry", "dump_concatenate") and clause in ("volume_raised", "area_raised", "raised")
              and not any(len(c["geoms"][g - 1]["f"]) for g in c["cfg"]["geom"] if g)):
            # util.concatenate of meshes none of which has a face returns faces of shape (0,): its area / volume raise
            dev = "ConcatenateFacelessMeshes"
        elif fams[cid] == "microhull" and clause in ("hull", "hull_raised"):
            dev = "HullOfMicroscopicScene"
        V.violation(f"{c['op'].split(':')[0] if c['op'].startswith('source_after_seq') else c['op']}:{clause}", detail, dev)
    sc_states, sc_gen, n_sc = scene_cache_layer(V, tier)
    states += sc_states
    if short and not V.violations:
        raise MachineryError("families came out nearly empty (have, need): %r; all: %r" % (short, fam_cov))
    cov = {"states": states, "transitions": states + sc_gen, "traces_validated_against_impl": len(cases) + n_sc,
           "scene_cache_histories_replayed": n_sc,
           "configurations": len(work), "cases_per_operation": byop, "records_per_family": fam_cov, "families_below_guard": {k_: list(v_) for k_, v_ in short.items()}, "rejected": len(rejects),
           "tlc_wall_s": round(wall, 1),
           "samples": [{k: cases[len(cases) // 3][k] for k in ("op", "cfg", "steps", "sub")}, {k: cases[-1][k] for k in ("op", "cfg", "steps", "sub")}]}
    return V.finish("model_checking", cov, assumptions=[
        "edge transforms: cube rotations, 3-4-5 and 1-2-2 rational rotations x uniform scale 2 or 1/2 x integer translations "
        "(exact in TLC; rational entries are rounded doubles in the real scene, observations are snapped with a residual test)",
        "forests of at most 3 frames below the base (11 for subscene / copy / to_mesh); geometries: closed box, closed tetrahedron, "
        "open sheet, point cloud, closed 2D polyline, open 3D polyline, mesh with vertices but no faces; whole scenes at magnitudes 2^-20 .. 2^20 (2^30 thorough)",
        "triangles compared as a bag of oriented triangles up to cyclic rotation; area only for similarity maps and meshes with "
        "axis-aligned faces; volume only without open sheets; mirrored instances (det < 0) are the re-wound copy, their "
        "triangles are compared without orientation unless the operation baked them",
        "convex hull judged by a certificate (closed, convex, vertices among the placed points, every placed point inside), only "
        "when the placed points are not coplanar; centre of mass and inertia (unit density, about the base frame) only for "
        "coordinates up to 12",
    ])


if __name__ == "__main__":
    try:
        sys.exit(main(sys.argv[1:]))
    except MachineryError as e:
        print("MACHINERY-ERROR:", e)
        sys.exit(2)
