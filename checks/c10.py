"""C10 - scene-level quantities equal explicit placement of every instance.

Reference: spec/ScenePlace.tla (World(n) as the product of exact edge transforms, Placed as the
geometry of every instancing node moved by it; bounds, triangle bag, 6*volume, 2*area as
functions of Placed; copy / scaled / rezero / apply_transform / + / subscene / to_mesh and
geometry or graph edits specified by their effect on Placed).
The harness enumerates small forests x exact edge transforms (cube rotations, integer uniform
scale, integer translations) x geometry assignments (0, 1 or several instances; mesh, closed
mesh, point cloud) x operation histories, builds the real Scene, performs the operations,
snaps what the scene reports to integers (residual test) and records it; TLC validates every
record against the specification (code -> spec).  The source scene is re-observed after each
derived-scene operation (SourceUnmodified).
"""
import itertools
import sys

import numpy as np

from harness import tlc
from harness.common import (MachineryError, Verdict, import_trimesh, pmap, seed,
                            tier_from_args)

PROP = "C10"
CFG = "INIT Init\nNEXT Next\nINVARIANT Report\nCHECK_DEADLOCK FALSE\n"

RZ = [[0, -1, 0], [1, 0, 0], [0, 0, 1]]
RX = [[1, 0, 0], [0, 0, -1], [0, 1, 0]]
RY = [[0, 0, 1], [0, 1, 0], [-1, 0, 0]]
I3 = [[1, 0, 0], [0, 1, 0], [0, 0, 1]]


def sc(L, s):
    return [[s * x for x in r] for r in L]


def mm(A, B):
    return (np.array(A) @ np.array(B)).tolist()


GENS = [
    {"l": I3, "t": [0, 0, 0]},
    {"l": RZ, "t": [4, 0, 0]},
    {"l": RX, "t": [0, 2, 0]},
    {"l": sc(I3, 2), "t": [0, 0, 2]},
    {"l": I3, "t": [2, 2, 0]},
    {"l": sc(RZ, 2), "t": [-2, 0, 4]},
    {"l": mm(RY, RZ), "t": [0, -4, 2]},
]


def to4(e):
    M = np.eye(4)
    M[:3, :3] = e["l"]
    M[:3, 3] = e["t"]
    return M


def geoms_lib(tm):
    """name -> (object factory, integer vertices, faces(1-based), a2)"""
    box = tm.creation.box(extents=[2, 4, 2])
    bv = np.round(np.array(box.vertices) + [1, 2, 1]).astype(int)          # [0,2]x[0,4]x[0,2]
    tv = np.array([[0, 0, 0], [2, 0, 0], [0, 4, 0], [0, 0, 2]])
    tf = np.array([[0, 2, 1], [0, 1, 3], [1, 2, 3], [2, 0, 3]])
    cv = np.array([[0, 0, 0], [2, 2, 0], [0, 4, 2], [-2, 0, 2]])
    sv = np.array([[0, 0, 0], [2, 0, 0], [2, 2, 0], [0, 2, 0]])               # open square sheet
    sf = np.array([[0, 1, 2], [0, 2, 3]])
    lib = {
        "box": (lambda: tm.Trimesh(bv.astype(float), np.array(box.faces), process=False), bv, np.array(box.faces), 2 * 2 * (2 * 4 + 4 * 2 + 2 * 2)),
        "tet": (lambda: tm.Trimesh(tv.astype(float), tf, process=False), tv, tf, 0),
        "cloud": (lambda: tm.PointCloud(cv.astype(float)), cv, np.zeros((0, 3), dtype=int), 0),
        "sheet": (lambda: tm.Trimesh(sv.astype(float), sf, process=False), sv, sf, 2 * 4),
    }
    return lib


def snap(x, what):
    a = np.asarray(x, dtype=float)
    r = np.round(a)
    if a.size and np.abs(a - r).max() > 1e-6:
        raise OffLattice(what)
    return r.astype(int).tolist()


class OffLattice(Exception):
    pass


def observe(scene, factor=1, want_tris=True, closed_only=True, area_ok=True):
    """What the scene reports, snapped to integers (coordinates multiplied by `factor`)."""
    if scene.is_empty or scene.bounds is None:
        return {"empty": True, "bounds": [[0, 0, 0], [0, 0, 0]], "has_tris": False, "tris": [], "has_vol": False,
                "vol6": 0, "has_area": False, "area2": 0}
    obs = {"empty": False}
    obs["bounds"] = snap(np.array(scene.bounds) * factor, "bounds")
    # extents and centroid are functions of bounds by definition: checked here as integers against bounds
    ext = snap(np.array(scene.extents) * factor, "extents")
    cen2 = snap(np.array(scene.centroid) * 2 * factor, "centroid")
    b = np.array(obs["bounds"])
    if ext != (b[1] - b[0]).tolist() or cen2 != (b[0] + b[1]).tolist():
        raise OffLattice("extents_or_centroid_inconsistent_with_bounds")
    tris = []
    try:
        tris = snap(np.array(scene.triangles) * factor, "triangles")
        obs["has_tris"] = want_tris
    except ValueError:
        obs["has_tris"] = False  # no triangle geometry at all (vstack of nothing)
    obs["tris"] = tris if obs["has_tris"] else []
    obs["has_vol"] = bool(closed_only)
    obs["vol6"] = snap(np.array(float(scene.volume)) * 6 * factor ** 3, "volume") if closed_only else 0
    obs["has_area"] = bool(area_ok)
    obs["area2"] = snap(np.array(float(scene.area)) * 2 * factor ** 2, "area") if area_ok else 0
    return obs


def build(tm, lib, cfg):
    s = tm.Scene()
    names = ["n%d" % (k + 1) for k in range(len(cfg["parent"]))]
    objs = {}
    for k, (p, e, g) in enumerate(zip(cfg["parent"], cfg["edge"], cfg["geom"])):
        parent = None if p == 0 else names[p - 1]
        if g:
            gname = cfg["gnames"][g - 1]
            if gname not in objs:
                objs[gname] = lib[gname][0]()
                s.add_geometry(objs[gname], node_name=names[k], geom_name=gname, parent_node_name=parent, transform=to4(e))
            else:
                # a further instance of a geometry already in the scene: a node referencing it by name
                s.graph.update(frame_to=names[k], frame_from=parent, matrix=to4(e), geometry=gname)
        else:
            s.graph.update(frame_to=names[k], frame_from=parent, matrix=to4(e))
    return s, names


def spec_geoms(lib, gnames, scale=1, edits=None):
    out = []
    for g in gnames:
        v = (np.array(lib[g][1]) * scale)
        if edits and g in edits:
            v = v.copy()
            for idx, newv in edits[g]:
                v[idx] = newv
        out.append({"v": v.tolist(), "f": (np.array(lib[g][2]) + 1).tolist(), "a2": int(lib[g][3]) * scale * scale})
    return out


def spec_cfg(cfg, scale=1):
    return {"parent": cfg["parent"], "geom": cfg["geom"],
            "edge": [{"l": e["l"], "t": (np.array(e["t"]) * scale).tolist()} for e in cfg["edge"]]}


IDM = {"l": I3, "t": [0, 0, 0]}


def flags(cfg, lib):
    used = [cfg["gnames"][g - 1] for g in cfg["geom"] if g]
    closed = all(u in ("box", "tet", "cloud") for u in used)       # open sheets have no meaningful volume
    area_ok = all(lib[u][3] > 0 or u == "cloud" for u in used)
    return closed, area_ok


def run_config(tm, lib, cfg, ops, out):
    """Build the scene, run each operation history, append records to out."""
    closed, area_ok = flags(cfg, lib)
    gl = spec_geoms(lib, cfg["gnames"])

    def rec(op, scene_fn, m=IDM, sub=0, scfg=None, sgeoms=None, factor=1, area=True, **kw):
        r = {"op": op, "cfg": scfg or spec_cfg(cfg, factor), "geoms": sgeoms or spec_geoms(lib, cfg["gnames"], factor),
             "m": m, "sub": sub, "exc": "", "desc": {"parent": cfg["parent"], "geom": cfg["geom"], "gnames": cfg["gnames"], **kw}}
        try:
            sc_ = scene_fn()
            r["obs"] = observe(sc_, factor, closed_only=closed, area_ok=area_ok and area)
        except OffLattice as e:
            r["exc"] = "offlattice:" + str(e)
            r["obs"] = observe_dummy()
        except BaseException as e:  # noqa
            r["exc"] = type(e).__name__ + ":" + str(e)[:60]
            r["obs"] = observe_dummy()
        out.append(r)

    for op in ops:
        s, names = build(tm, lib, cfg)
        kind = op[0]
        if kind == "read":
            rec("read", lambda: s)
        elif kind == "copy":
            rec("copy", lambda: s.copy())
            rec("source_after_copy", lambda: s)
        elif kind == "scaled":
            k = op[1]
            observe(s, closed_only=closed, area_ok=area_ok)  # warm the caches of the source first
            dev = "per_axis" if isinstance(k, list) else "uniform"
            m = {"l": [[k[0], 0, 0], [0, k[1], 0], [0, 0, k[2]]] if isinstance(k, list) else sc(I3, k), "t": [0, 0, 0]}
            # the area law (scale^2) only holds for similarity maps: not demanded for non-uniform factors
            uniform = not isinstance(k, list) or len(set(k)) == 1
            rec("scaled_" + dev, lambda: s.scaled(k), m=m, area=uniform, scale=k)
            rec("source_after_scaled", lambda: s)
        elif kind == "apply_transform":
            g = GENS[op[1]]
            observe(s, closed_only=closed, area_ok=area_ok)
            rec("apply_transform", lambda: s.apply_transform(to4(g)), m=g)
        elif kind == "rezero":
            observe(s, closed_only=closed, area_ok=area_ok)

            def f():
                s.rezero()
                return s
            rec("rezero", f, factor=2)
        elif kind == "to_mesh":
            def f():
                return tm.Scene(s.to_mesh())
            if any(cfg["gnames"][g - 1] != "cloud" for g in cfg["geom"] if g):
                # to_mesh drops non-mesh geometry by contract: compare on the mesh-only configuration
                c2 = dict(cfg)
                c2["geom"] = [g if g and cfg["gnames"][g - 1] != "cloud" else 0 for g in cfg["geom"]]
                rec("to_mesh", f, scfg=spec_cfg(c2))
        elif kind == "dump":
            def f():
                return tm.Scene(s.dump())
            rec("dump", f)
        elif kind == "subscene":
            node = op[1]
            if node <= len(names):
                rec("subscene", lambda: s.subscene(names[node - 1]), sub=node)
                rec("source_after_subscene", lambda: s)
        elif kind == "add":
            cfg2 = op[1]
            s2, _ = build(tm, lib, cfg2)
            # rename second scene's nodes/geometries apart is the library's job; spec: union of placements
            n1 = len(cfg["parent"])
            merged = {"parent": cfg["parent"] + [p + n1 if p else 0 for p in cfg2["parent"]],
                      "edge": cfg["edge"] + cfg2["edge"],
                      "geom": cfg["geom"] + [g + len(cfg["gnames"]) if g else 0 for g in cfg2["geom"]],
                      "gnames": cfg["gnames"] + cfg2["gnames"]}
            cl2, ar2 = flags(merged, lib)
            r = {"op": "add", "cfg": spec_cfg(merged), "geoms": spec_geoms(lib, merged["gnames"]), "m": IDM, "sub": 0, "exc": "",
                 "desc": {"parent": merged["parent"], "geom": merged["geom"], "gnames": merged["gnames"]}}
            try:
                r["obs"] = observe(s + s2, closed_only=cl2, area_ok=ar2)
            except OffLattice as e:
                r["exc"], r["obs"] = "offlattice:" + str(e), observe_dummy()
            except BaseException as e:  # noqa
                r["exc"], r["obs"] = type(e).__name__ + ":" + str(e)[:60], observe_dummy()
            out.append(r)
            rec("source_after_add", lambda: s)
        elif kind == "append3":
            cfgs3 = [cfg, op[1], op[2]]
            scenes3 = [s] + [build(tm, lib, c_)[0] for c_ in cfgs3[1:]]
            merged = {"parent": [], "edge": [], "geom": [], "gnames": []}
            for c_ in cfgs3:
                n0, g0 = len(merged["parent"]), len(merged["gnames"])
                merged["parent"] += [p_ + n0 if p_ else 0 for p_ in c_["parent"]]
                merged["edge"] += c_["edge"]
                merged["geom"] += [g_ + g0 if g_ else 0 for g_ in c_["geom"]]
                merged["gnames"] += c_["gnames"]
            cl3, ar3 = flags(merged, lib)
            r = {"op": "append3", "cfg": spec_cfg(merged), "geoms": spec_geoms(lib, merged["gnames"]), "m": IDM, "sub": 0, "exc": "",
                 "desc": {"parent": merged["parent"], "geom": merged["geom"], "gnames": merged["gnames"]}}
            try:
                from trimesh.scene.scene import append_scenes
                r["obs"] = observe(append_scenes(scenes3), closed_only=cl3, area_ok=ar3)
            except OffLattice as e:
                r["exc"], r["obs"] = "offlattice:" + str(e), observe_dummy()
            except BaseException as e:  # noqa
                r["exc"], r["obs"] = type(e).__name__ + ":" + str(e)[:60], observe_dummy()
            out.append(r)
        elif kind == "copy_edit":
            # edit the COPY in every way the API offers, then re-measure the source through a cold route
            observe(s, closed_only=closed, area_ok=area_ok)
            c_ = s.copy()
            how = op[1]
            try:
                if how == "delete_geometry":
                    c_.delete_geometry(cfg["gnames"][0])
                elif how == "edit_geometry":
                    for g_ in c_.geometry.values():
                        g_.vertices[0] += 3.0
                elif how == "update_edge":
                    for n_ in list(c_.graph.nodes_geometry):
                        c_.graph.update(frame_to=n_, matrix=to4(GENS[3]))
                elif how == "scaled_per_axis":
                    s.scaled([1, 2, 3])
                elif how == "scaled":
                    s.scaled(2.0)
                elif how == "subscene_delete":
                    sub_ = s.subscene(names[0])
                    for n_ in list(sub_.graph.nodes_geometry):
                        sub_.graph.update(frame_to=n_, matrix=to4(GENS[5]))
            except BaseException:
                pass
            rec("source_cold_after_" + how, lambda: s.copy())
            rec("source_warm_after_" + how, lambda: s)
        elif kind == "edit_geometry":
            # warm caches, edit a vertex of a (possibly shared) geometry in place, read again
            observe(s, closed_only=closed, area_ok=area_ok)
            gname = op[1]
            if gname in s.geometry:
                newv = [6, 0, 0]

                def f():
                    s.geometry[gname].vertices[1] = newv
                    return s
                # the edited shape has no integer area / is no longer the closed solid: compare points only
                rec("edit_geometry", f, sgeoms=spec_geoms(lib, cfg["gnames"], edits={gname: [(1, newv)]}), area=False, edited=gname)
        elif kind == "edit_edge":
            observe(s, closed_only=closed, area_ok=area_ok)
            node, gi = op[1], op[2]
            if node <= len(names):
                c2 = dict(cfg)
                c2["edge"] = list(cfg["edge"])
                c2["edge"][node - 1] = GENS[gi]
                parent = None if cfg["parent"][node - 1] == 0 else names[cfg["parent"][node - 1] - 1]

                def f():
                    s.graph.update(frame_to=names[node - 1], frame_from=parent, matrix=to4(GENS[gi]))
                    return s
                rec("edit_edge", f, scfg=spec_cfg(c2), node=node, gen=gi)


def observe_dummy():
    return {"empty": True, "bounds": [[0, 0, 0], [0, 0, 0]], "has_tris": False, "tris": [], "has_vol": False, "vol6": 0,
            "has_area": False, "area2": 0}


def _chunk(args):
    tm = import_trimesh()
    lib = geoms_lib(tm)
    out = []
    for cfg, ops in args:
        run_config(tm, lib, cfg, ops, out)
    return out


# ------------------------------------------------------------------ composition layer (SceneCache.tla)
SC_CFG = """CONSTANTS
  Geoms <- G2
  Quantities <- Q3
  MaxDepth = {depth}
  GraphForgetsDirty = {forget}
SPECIFICATION Spec
{view}
{invs}
CHECK_DEADLOCK FALSE
"""


def _shadow_scene(tm, geoms, edges):
    """Fresh scene from shadow data: geoms name -> (v, f); edges: list of (parent, node, matrix, geom or None)."""
    s = tm.Scene()
    objs = {n: tm.Trimesh(v.copy(), f.copy(), process=False) for n, (v, f) in geoms.items()}
    added = set()
    for parent, node, M, g in edges:
        if g is not None and g in objs and g not in added:
            s.add_geometry(objs[g], node_name=node, geom_name=g, parent_node_name=parent, transform=M.copy())
            added.add(g)
        elif g is not None and g in objs:
            s.graph.update(frame_to=node, frame_from=parent, matrix=M.copy(), geometry=g)
        else:
            s.graph.update(frame_to=node, frame_from=parent, matrix=M.copy())
    return s


def _quant(s, q):
    if s.is_empty or len(s.graph.nodes_geometry) == 0:
        return ("empty",)
    if q == "bounds":
        return ("b", np.round(np.array(s.bounds), 9).tolist())
    if q == "triangles":
        t = np.round(np.array(s.triangles).reshape(-1, 9), 9)
        return ("t", sorted(map(tuple, t.tolist())))
    return ("m", round(float(s.area), 9), round(float(s.volume), 9), np.round(np.array(s.centroid), 9).tolist())


def replay_scene_history(tm, h, rot):
    b = tm.creation.box(extents=[2, 4, 2])
    geoms = {"box": (np.array(b.vertices) + [1, 2, 1], np.array(b.faces)),
             "tet": (np.array([[0, 0, 0], [2, 0, 0], [0, 4, 0], [0, 0, 2]], dtype=float), np.array([[0, 2, 1], [0, 1, 3], [1, 2, 3], [2, 0, 3]]))}
    edges = [("world", "a", to4(GENS[1]), "box"), ("a", "b", to4(GENS[4]), "box"), ("b", "c", to4(GENS[2]), "tet")]
    s = _shadow_scene(tm, geoms, edges)
    nxt = 0
    steps = []
    for j, st in enumerate(h):
        op = st["op"]
        steps.append(op + (":" + st.get("q", st.get("g", "")) if ("q" in st or "g" in st) else ""))
        try:
            if op == "read":
                want = _quant(_shadow_scene(tm, geoms, edges), st["q"])
                got = _quant(s, st["q"])
                if got != want:
                    return {"clause": "NoStaleSceneRead:" + st["q"], "step": j, "steps": steps, "got": str(got)[:160], "want": str(want)[:160]}
            elif op == "edit_geometry":
                g = st["g"]
                if g in geoms:
                    d = np.array([0.5, 0.25, 1.0]) * (1 + (rot + j) % 3)
                    s.geometry[g].vertices[1] += d
                    geoms[g][0][1] += d
            elif op == "update_edge":
                k = (rot + j) % len(edges)
                parent, node, _, g = edges[k]
                M = to4(GENS[(rot + j * 3) % len(GENS)])
                s.graph.update(frame_to=node, frame_from=parent, matrix=M)
                edges[k] = (parent, node, M, g)
            elif op == "add_instance":
                name = "extra%d" % nxt
                nxt += 1
                g = "box" if "box" in geoms else ("tet" if "tet" in geoms else None)
                M = to4(GENS[(rot + j) % len(GENS)])
                if g is not None:
                    s.graph.update(frame_to=name, frame_from="a", matrix=M, geometry=g)
                    edges.append(("a", name, M, g))
            elif op == "reparent":
                k = len(edges) - 1 if len(edges) > 3 else 2
                parent, node, M, g = edges[k]
                newp = "world" if parent != "world" else "a"
                s.graph.update(frame_to=node, frame_from=newp, matrix=M)
                edges[k] = (newp, node, M, g)
            elif op == "delete_geometry":
                g = st["g"]
                if g in geoms:
                    s.delete_geometry(g)
                    del geoms[g]
                    edges = [(p_, n_, M_, (None if g_ == g else g_)) for p_, n_, M_, g_ in edges]
        except BaseException as e:  # noqa
            return {"clause": "scene_operation_raises", "step": j, "steps": steps, "exc": type(e).__name__ + ": " + str(e)[:80]}
    return None


def _scene_chunk(args):
    tm = import_trimesh()
    out = []
    for idx, h in args:
        f = replay_scene_history(tm, h, idx + seed())
        if f:
            out.append(f)
    return out, len(args)


def configs(tier, rs):
    shapes = [[0], [0, 0], [0, 1], [0, 0, 0], [0, 0, 1], [0, 1, 1], [0, 1, 2], [0, 0, 2]]
    gsets = [["box"], ["tet"], ["box", "tet"], ["box", "cloud"], ["sheet", "box"], ["cloud"]]
    out = []
    per = 10 if tier == "quick" else 60
    for shape in shapes:
        n = len(shape)
        for gnames in gsets:
            # geometry assignment: every node gets 0..len(gnames); instancing arises naturally
            assigns = list(itertools.product(range(len(gnames) + 1), repeat=n))
            for _ in range(per):
                geom = list(assigns[rs.randint(len(assigns))])
                if not any(geom):
                    geom[rs.randint(n)] = 1
                edges = [GENS[rs.randint(len(GENS))] for _ in range(n)]
                out.append({"parent": shape, "edge": edges, "geom": geom, "gnames": gnames})
    return out


def big_configs(rs, count):
    """Wide-then-deep forests (a chain attached before several leaf siblings) for subscene / successors."""
    out = []
    shapes = [[0, 1, 2, 3, 1, 1, 1, 1, 1], [0, 1, 2, 3, 4, 0, 0, 0, 0, 0], [0, 1, 1, 2, 4, 5, 1, 1, 1, 1, 1], [0, 0, 0, 3, 4, 5, 0, 0, 0, 0]]
    for k in range(count):
        shape = shapes[k % len(shapes)]
        n = len(shape)
        geom = [int(rs.randint(0, 3)) for _ in range(n)]
        geom[3] = 1
        geom[-1] = 2
        edges = [GENS[rs.randint(len(GENS))] if rs.randint(3) else GENS[0] for _ in range(n)]
        out.append({"parent": shape, "edge": edges, "geom": geom, "gnames": ["box", "tet"]})
    return out


def main(argv):
    tier = tier_from_args(argv)
    V = Verdict(PROP, tier)
    import_trimesh()
    rs = np.random.RandomState(seed() + 5)
    cfgs = configs(tier, rs)
    work = []
    for ci, cfg in enumerate(cfgs):
        n = len(cfg["parent"])
        other = cfgs[(ci * 7 + 3) % len(cfgs)]
        ops = [("read",), ("copy",), ("scaled", 2), ("scaled", [2, 2, 2]), ("scaled", [1, 2, 3]), ("apply_transform", 1 + ci % (len(GENS) - 1)),
               ("rezero",), ("to_mesh",), ("dump",), ("subscene", 1 + ci % n), ("add", other),
               ("edit_geometry", cfg["gnames"][ci % len(cfg["gnames"])]), ("edit_edge", 1 + (ci // 2) % n, (ci * 3) % len(GENS)),
               ("append3", other, cfgs[(ci * 11 + 5) % len(cfgs)]),
               ("copy_edit", ["delete_geometry", "edit_geometry", "update_edge", "scaled_per_axis", "scaled", "subscene_delete"][ci % 6])]
        work.append((cfg, ops))
    for k, cfg in enumerate(big_configs(rs, 24 if tier == "quick" else 200)):
        n = len(cfg["parent"])
        work.append((cfg, [("read",), ("subscene", 1), ("subscene", 1 + k % n), ("subscene", 1 + (k * 5) % n), ("to_mesh",), ("copy",)]))
    res = pmap(_chunk, work, chunk=8)
    cases = [c for r in res for c in r]
    for k, c in enumerate(cases):
        c["id"] = k
    descs = [c.pop("desc") for c in cases]
    if len(cases) < 1000:
        raise MachineryError("too few cases")
    rejects, states, wall = tlc.validate_batches("c10", "ScenePlace", cases, CFG, timeout=1500)
    byop = {}
    for c in cases:
        byop[c["op"]] = byop.get(c["op"], 0) + 1
    for cid, clause in sorted(rejects.items()):
        c = cases[cid]
        d = descs[cid]
        detail = {"op": c["op"], "config": d, "edges": c["cfg"]["edge"], "outer": c["m"], "sub": c["sub"], "exc": c["exc"],
                  "observed_bounds": c["obs"]["bounds"], "observed_vol6": c["obs"]["vol6"], "observed_area2": c["obs"]["area2"]}
        dev = None
        if c["op"] == "scaled_per_axis" and clause in ("bounds", "triangles", "volume", "area", "raised"):
            # per-axis scaling of translations in local frames: wrong as soon as an ancestor edge rotates
            rotated = any(e["l"] != I3 and e["l"] != sc(I3, 2) for e in c["cfg"]["edge"])
            nonuniform = len(set(np.diag(np.array(c["m"]["l"])).tolist())) > 1
            if rotated and nonuniform:
                dev = "ScaledPerAxisUnderRotatedParent"
        V.violation(f"{c['op']}:{clause}", detail, dev)
    # composition layer: scene cache over shared geometry and the graph's dirty memo
    d = tlc.prepare("c10/scenecache")
    r = tlc.must(tlc.run(d, "SceneCache", SC_CFG.format(depth=7, forget="FALSE", view="VIEW View", invs="INVARIANT NoStaleSceneRead")), "scenecache")
    rr = tlc.run(d, "SceneCache", SC_CFG.format(depth=7, forget="TRUE", view="VIEW View", invs="INVARIANT NoStaleSceneRead"))
    if rr.violated != "NoStaleSceneRead":
        raise MachineryError("SceneCache self-test: forgetting the graph dirty flag was not reported")
    depth = 4 if tier == "quick" else 5
    r2 = tlc.must(tlc.run(d, "SceneCache", SC_CFG.format(depth=depth, forget="FALSE", view="", invs="INVARIANT EmitLeaf"), workers=1, timeout=900), "scenecache-emit")
    hs = [h for h in r2.printed if any(x["op"] == "read" for x in h[1:])]
    if tier == "quick" and len(hs) > 2500:
        sel = np.random.RandomState(seed()).permutation(len(hs))[:2500]
        hs = [hs[k] for k in sorted(sel)]
    if len(hs) < 500:
        raise MachineryError("too few scene-cache histories")
    res3 = pmap(_scene_chunk, list(enumerate(hs)), chunk=60)
    n_sc = sum(x[1] for x in res3)
    for x in res3:
        for f in x[0]:
            V.violation(f["clause"], f)
    states += r.distinct + r2.distinct
    cov = {"states": states, "transitions": states + r.generated, "traces_validated_against_impl": len(cases) + n_sc,
           "scene_cache_histories_replayed": n_sc,
           "configurations": len(cfgs), "cases_per_operation": byop, "rejected": len(rejects),
           "tlc_wall_s": round(wall, 1),
           "samples": [{k: cases[len(cases) // 3][k] for k in ("op", "cfg", "m", "sub")}, {k: cases[-1][k] for k in ("op", "cfg", "m", "sub")}]}
    return V.finish("model_checking", cov, assumptions=[
        "edge transforms: cube rotations x integer uniform scale x integer translations (exact in doubles and in TLC)",
        "forests of at most 3 frames below the base; geometries: closed box, closed tetrahedron, open sheet, point cloud",
        "triangles compared as a bag of oriented triangles up to cyclic rotation; area only for geometries with axis-aligned faces",
    ])


if __name__ == "__main__":
    try:
        sys.exit(main(sys.argv[1:]))
    except MachineryError as e:
        print("MACHINERY-ERROR:", e)
        sys.exit(2)
