"""C12 - accelerated ray and proximity queries equal exhaustive evaluation.

Reference semantics: spec/RayProx.tla ("test every triangle" in exact integer arithmetic: Cramer
formulation of ray / triangle with one shared denominator, general position by a rational margin,
first hit = least t, containment by exact parity along a direction the spec chooses, distance to
the surface as the minimum over triangles of plane / segment distances, closest point judged by the
variational characterisation of the projection on the reported triangle, sign of the signed
distance positive inside).

Pure-function pattern: this harness enumerates lattice meshes (tetrahedron, cube, non-convex
L-prism, two disjoint bodies, a far triangle / far flat body next to a small tetrahedron), rays
(origins {-2..5}^3, the half-odd points {-3/2..9/2}^3 and odd-quarter points, directions {-2..2}^3 \\ 0, axis-aligned
ones included) and query points (quarter lattice), calls the real code
  both engines  trimesh.ray.ray_triangle.RayMeshIntersector, trimesh.ray.ray_pyembree.RayMeshIntersector
                intersects_location(multiple_hits=True / False), intersects_id(multiple_hits=True / False),
                intersects_first, intersects_any, contains_points
  proximity     mesh.nearest.on_surface, trimesh.proximity.closest_point, closest_point_naive,
                mesh.nearest.signed_distance, mesh.nearest.vertex
in batches of many rays / points per call (so that index_ray bookkeeping is exercised), projects every
float to an exact fraction (Fraction.limit_denominator with a residual test; a value that does not
snap travels as "offlattice" and is rejected) and has TLC validate every record in batch.
Python computes no expected value: which rays / points are in general position, which triangles are
crossed, which hit is first, inside / outside and every distance are decided by TLC.
Records outside the property's quantifier come back as SKIP_ clauses and are only counted.

Placements: part of the rays / points is run again with the whole scene (mesh vertices, ray origins, query
points) translated far from the origin by an exact integer offset ((5e5, 4.1e6, 120) and 2^20 on each axis:
absolute coordinates ~1e6 times the size of the mesh).  The offset is subtracted exactly from every returned
coordinate before snapping and TLC judges in the lattice frame; rejections there carry "@<placement>".

Audit round (coverage of the quantifier "all meshes, all rays"; see CONFIGS and mesh_table):
  configurations  seeded disjoint shares of the sample are run again (a) with the whole scene scaled by 2^-6 and
                  2^10, (b) with the direction vector multiplied by 2^-20 .. 2^20, (c) through the other entry points
                  (Trimesh(use_embree=False).ray / .contains / signed distance with native containment, the function
                  ray_triangle_id without tree and normals, embree with scale_to_box=False, lists / int64 arrays as
                  input), (d) after a history: queries first, then apply_translation / `vertices +=` / apply_scale,
                  then the same intersector objects (native instance, mesh.ray, mesh.nearest) queried with the
                  caller's own arrays handed to every call.  All are exact maps of the lattice scene (power-of-two
                  scale, integer offset), undone exactly before snapping; TLC judges in the lattice frame and the
                  clause carries "@<configuration>".
  meshes          a cube with vertices no face refers to (nearest.vertex answers over mesh.vertices; the surface
                  queries must ignore them) and a row of eleven tetrahedra (a ray along the row crosses 22 triangles).
  Named deviation EmbreeMultiHitCap (RayProx.tla, Truncated): a ray crossing more than 20 triangles for which
  exactly the 20 nearest crossings are reported.

Named deviation (RayProx.tla, EngClause): CoplanarRayPhantomHit - a first-hit query names a triangle
whose supporting plane contains the ray although the ray is clear of the triangle.  Observed on the
pinned tree with the float32 embree engine (intersects_first / intersects_any / intersects_id(
multiple_hits=False) report the triangle, intersects_location reports nothing).  Such rejections are
handed to the Verdict under that deviation id: listed in known_findings.jsonl they are reported as
KNOWN-FINDING, otherwise they are violations.  The quick tier always includes the rays lying in the
plane of an oblique face, so the observation does not depend on the seed.
"""
import itertools
import json
import math
import os
import sys
import time
from concurrent.futures import ThreadPoolExecutor
from fractions import Fraction

import numpy as np

from harness import tlc
from harness.common import (NCPU, MachineryError, Verdict, import_trimesh, pmap, seed,
                            tier_from_args)

PROP = "C12"
CFG = "INIT Init\nNEXT Next\nINVARIANT Report\nINVARIANT InputSane\nINVARIANT RefSane\nCHECK_DEADLOCK FALSE\n"

# snapping: largest denominator tried / largest common denominator accepted, residual
SNAP_RAY = 64          # hit locations (exact denominators divide k (d . n'), see MeshSane in RayProx.tla)
SNAP_RAY_QMAX = 4096   # common denominator of the three coordinates of a (possibly wrong) location
SNAP_PT = 256          # closest points
SNAP_D2 = 1024         # squared distances
RESID = {"native": 1e-9, "embree": 1e-4}     # embree traces in float32
RESID_PROX = 1e-9
# Placements: the same lattice scene translated by an exact integer offset T (mesh vertices, ray origins and
# query points alike).  Results are brought back to the lattice frame by subtracting T (exact in float64)
# before snapping; TLC judges in the lattice frame.  A float64 result near T cannot be closer to the exact
# value than a few units in the last place of |T|, so the 1e-9 residual of the float64 routes grows by
# 64 ulp(max |T|) (6e-8 at 4.1e6); the embree residual stays 1e-4 (the wrapper subtracts the scene origin in
# float64 before going to float32, so far placements must not cost any accuracy).
PLACEMENTS = [("origin", (0, 0, 0)), ("far_5e5_4.1e6_120", (500000, 4100000, 120)),
              ("far_2^20", (2 ** 20, 2 ** 20, 2 ** 20))]
# Configurations (audit round): every configuration maps the lattice scene x to the world S x + T with an exact
# S = 2^e and an exact integer T, so that (y - T) / S brings every returned coordinate (and dist / S every
# distance) back to the lattice frame without rounding; TLC judges in the lattice frame.
#   base / far   the placements above
#   scale        the whole scene (mesh, origins, query points; directions unchanged) scaled by 2^-6 / 2^10:
#                a mesh a few hundredths / a few thousand units across - no answer may change
#   dirlen       the direction vector multiplied by 2^-20, 2^-10, 2^10, 2^20 (the same ray): rays only
#   entry        other entry points reaching the same code: Trimesh(use_embree=False).ray / .contains /
#                .nearest.signed_distance (native containment), the function ray_triangle_id without a tree and
#                without normals, the embree intersector with scale_to_box=False; origins / points passed as
#                nested lists, directions as int64 arrays
#   hist         the queries are made first (r-tree, kd-tree, embree scene, normals cached), then the mesh is
#                moved with apply_translation / `vertices +=` / apply_scale and the SAME intersector objects
#                (native class instance, mesh.ray, mesh.nearest) are queried in the new frame
# `share` = (quick, thorough) fraction of the base sample run again in that configuration.
CONFIGS = [
    {"name": n, "T": T, "e": 0, "fam": "base" if i == 0 else "far", "share": (1, 1) if i == 0 else (1 / 10, 1 / 32)}
    for i, (n, T) in enumerate(PLACEMENTS)] + [
    {"name": "scale_2^-6", "T": (0, 0, 0), "e": -6, "fam": "scale", "share": (1 / 10, 1 / 64)},
    {"name": "scale_2^10", "T": (0, 0, 0), "e": 10, "fam": "scale", "share": (1 / 10, 1 / 64)},
    {"name": "dirlen", "T": (0, 0, 0), "e": 0, "fam": "dirlen", "share": (1 / 12, 1 / 64)},
    {"name": "entry", "T": (0, 0, 0), "e": 0, "fam": "entry", "share": (1 / 12, 1 / 64)},
    {"name": "hist_apply_translation", "T": (64, -32, 16), "e": 0, "fam": "hist", "share": (1 / 24, 1 / 128)},
    {"name": "hist_vertices_iadd", "T": (-16, 48, 32), "e": 0, "fam": "hist", "share": (1 / 24, 1 / 128)},
    {"name": "hist_apply_scale", "T": (0, 0, 0), "e": 10, "fam": "hist", "share": (1 / 24, 1 / 128)},
]
DIRLEN_EXP = (-20, -10, 10, 20)


def far_slack(T):
    return 64 * 2.0 ** -52 * max(abs(x) for x in T)


def cfg_label(c):
    """name of the configuration of a record (the direction-length exponent is part of it)"""
    cf = CONFIGS[c["pl"]]
    return cf["name"] + ("_2^%d" % c["de"] if cf["fam"] == "dirlen" else "")
CHUNK = 256
MAX_HITS_KEPT = 64      # hits per ray and query written to a record (a ray cannot cross more triangles here)

MEANING = {
    "hit_location_offlattice": "a reported hit location is not within the residual of any lattice fraction",
    "hit_face_index_out_of_range": "a reported triangle index is not a face of the mesh",
    "hit_not_on_ray_ahead_of_origin": "a reported hit location is not o + t d with t > 0",
    "hit_not_on_reported_triangle": "a reported hit location is not in the closed reported triangle",
    "crossed_triangle_missed": "a triangle crossed through its interior (by the margin) is not reported",
    "crossed_triangles_missed_beyond_the_first_20": "the ray crosses more than 20 triangles and exactly the 20 "
                                                    "nearest crossings are reported",
    "hit_count_differs_from_crossings": "more hits reported than triangles crossed",
    "hit_without_crossing": "a first hit is reported for a ray that crosses nothing",
    "more_than_one_hit_for_one_ray": "multiple_hits=False returned several hits for one ray",
    "hit_is_not_the_nearest": "the first hit is not the crossing of least t",
    "faces_differ_from_crossings": "intersects_id(multiple_hits=True) faces are not the crossed triangles",
    "first_is_not_the_nearest": "intersects_id(multiple_hits=False) is not the crossing of least t",
    "not_the_nearest": "intersects_first is not the crossing of least t (-1 when none)",
    "wrong": "intersects_any differs from 'some triangle is crossed'",
    "phantom_hit_coplanar_triangle": "a first-hit query names a triangle whose plane contains the ray although the "
                                     "ray is clear of the triangle (and intersects_location reports no such hit)",
    "point_is_not_nearest_point_of_reported_triangle":
        "the closest point is not the point of the reported triangle nearest to the query",
    "reported_triangle_is_not_a_nearest_one": "another triangle is strictly nearer than the reported one",
    "distance_is_not_the_minimum": "distance^2 is not the minimum over all triangles",
    "magnitude_is_not_the_minimum": "signed distance^2 is not the minimum over all triangles",
    "sign": "signed distance must be positive inside, negative outside (docstring of proximity.signed_distance)",
    "is_not_a_nearest_one": "the reported vertex is not a vertex of least distance",
    "distance": "the reported vertex distance^2 is not the least squared vertex distance",
    "contains_points_wrong": "contains_points differs from the exact parity classification",
}


# ------------------------------------------------------------------ meshes (lattice, wound outward)
def index_mesh(tris):
    index, verts, faces = {}, [], []
    for t in tris:
        row = []
        for p in t:
            key = tuple(int(x) for x in p)
            if key not in index:
                index[key] = len(verts)
                verts.append(list(key))
            row.append(index[key])
        faces.append(row)
    return verts, faces


def tet(a, b, c, d):
    """Outward faces of the tetrahedron; (b - a, c - a, d - a) must be positively oriented."""
    m = np.array([np.subtract(b, a), np.subtract(c, a), np.subtract(d, a)], dtype=np.int64)
    if round(np.linalg.det(m.astype(float))) <= 0:
        raise MachineryError("tet(): negatively oriented corner order")
    return [[a, c, b], [a, b, d], [a, d, c], [b, c, d]]


def prism(poly, tris, z0, z1):
    """Extrusion of a counter-clockwise polygon (triangulated by `tris`) from z0 to z1."""
    out = []
    for i, j, k in tris:
        out.append([poly[i] + (z1,), poly[j] + (z1,), poly[k] + (z1,)])
        out.append([poly[k] + (z0,), poly[j] + (z0,), poly[i] + (z0,)])
    n = len(poly)
    for i in range(n):
        p, q = poly[i], poly[(i + 1) % n]
        out.append([p + (z0,), q + (z0,), q + (z1,)])
        out.append([p + (z0,), q + (z1,), p + (z1,)])
    return out


def box(lo, hi):
    poly = [(lo[0], lo[1]), (hi[0], lo[1]), (hi[0], hi[1]), (lo[0], hi[1])]
    return prism(poly, [(0, 1, 2), (0, 2, 3)], lo[2], hi[2])


def transform(tris, perm, signs, shift):
    """Signed permutation of the axes followed by a translation; winding flipped under a mirror."""
    par = sum(1 for a in range(3) for b in range(a) if perm[b] > perm[a]) % 2
    det = (-1) ** par * signs[0] * signs[1] * signs[2]
    out = []
    for t in tris:
        q = [tuple(signs[r] * p[perm[r]] + shift[r] for r in range(3)) for p in t]
        out.append(q if det > 0 else [q[0], q[2], q[1]])
    return out


def mesh_table(tier):
    L = [(0, 0), (3, 0), (3, 1), (1, 1), (1, 3), (0, 3)]
    ltri = [(0, 1, 2), (0, 2, 3), (0, 3, 4), (0, 4, 5)]
    small = tet((1, 1, 1), (2, 1, 1), (1, 2, 1), (1, 1, 2))
    far_t = [[(-4, -4, -1), (8, -4, -1), (-4, 8, -1)]]
    # flat tetrahedron whose large top face z = -1 has every vertex far from the query region
    far_body = tet((-4, -4, -1), (-4, 8, -1), (8, -4, -1), (0, 0, -3))
    t0 = tet((0, 0, 0), (3, 0, 0), (0, 2, 0), (0, 0, 2))
    lp = prism(L, ltri, 0, 2)
    table = [
        ("tetrahedron", t0, True),
        ("cube", box((0, 0, 0), (2, 2, 2)), True),
        ("L_prism", lp, True),
        ("two_bodies", box((0, 0, 0), (1, 1, 2)) + tet((2, 2, 0), (4, 2, 0), (2, 4, 0), (2, 2, 3)), True),
        ("far_triangle_near_tet", far_t + small, False),
        ("far_flat_body_near_tet", far_body + small, True),
    ]
    if tier == "thorough":
        table += [
            ("tetrahedron_mirrored_zxy", transform(t0, (2, 0, 1), (-1, 1, 1), (3, 1, -1)), True),
            ("L_prism_yzx_flipped", transform(lp, (1, 2, 0), (1, -1, 1), (-1, 3, 0)), True),
        ]
    out = []
    for name, tris, closed in table:
        verts, faces = index_mesh(tris)
        out.append({"name": name, "verts": verts, "faces": faces, "closed": closed,
                    "snap_ray": SNAP_RAY, "snap_pt": SNAP_PT, "snap_d2": SNAP_D2})
    # (audit round) the cube with vertices no face refers to: one in front of the vertex list (so that face
    # indices are not indices into the referenced vertices), one at the centre of the cube (much nearer to interior
    # query points than any corner), two outside.  nearest.vertex answers over all of mesh.vertices, the
    # surface queries must not let these vertices shrink their candidate radius.
    # (round 2) a flat double pyramid over the triangle (0,0) (4,0) (0,4) with apexes (2,1,+-1): long thin faces
    # with obtuse corners meeting at a sharp rim (normals of the two sides more than 90 degrees apart).  Next to
    # the rim the closest point is on an edge / vertex and the foot of the perpendicular on the plane of the
    # reported face lies outside that face: the sign of the signed distance has to come from containment there.
    # Every odd-quarter point within 3/2 of its bounding box is queried (the affected points are few).
    rim = [(0, 0), (4, 0), (0, 4)]
    flat = []
    for j in range(3):
        p, q = rim[j], rim[(j + 1) % 3]
        flat.append([p + (0,), q + (0,), (2, 1, 1)])
        flat.append([q + (0,), p + (0,), (2, 1, -1)])
    verts, faces = index_mesh(flat)
    out.append({"name": "flat_double_pyramid_sharp_rim", "verts": verts, "faces": faces, "closed": True,
                "snap_ray": SNAP_RAY, "snap_pt": SNAP_PT, "snap_d2": SNAP_D2, "sampled": 0.3, "points": "all_near"})
    # (round 2) the cube also carries a zero-area face in the MIDDLE of its face list: the T-junction sliver
    # [a, midpoint, b] lying on the edge a b of two real faces.  It cannot be crossed through its interior and is
    # never strictly nearer than the edge it lies on, so no answer may change - but every face after it has an
    # index one higher than its rank among the triangles with area.
    verts, faces = index_mesh(box((0, 0, 0), (2, 2, 2)))
    sliver = [verts.index([0, 0, 0]) + 1, len(verts) + 4, verts.index([2, 0, 0]) + 1]
    faces = [[i + 1 for i in f] for f in faces]
    out.append({"name": "cube_sliver_face_unreferenced_vertices",
                "verts": [[3, 3, 3]] + verts + [[1, 1, 1], [5, 1, 1], [-2, -2, -2], [1, 0, 0]],
                "faces": faces[:5] + [sliver] + faces[5:], "closed": True,
                "snap_ray": SNAP_RAY, "snap_pt": SNAP_PT, "snap_d2": SNAP_D2,
                "sampled": 0.6})     # 0.6 of the usual sample, thorough four times that (the plain cube has the full product)
    # (audit round) eleven corner tetrahedra in a row along x (44 faces, eleven bodies; a ray along x near the
    # axis crosses 22 triangles: more than the 20 hits the embree wrapper used to stop at).  Always sampled
    # (never the full product); origins are also taken shifted along x.
    comb = []
    for j in range(COMB_PLATES):
        comb += tet((2 * j, 0, 0), (2 * j + 1, 0, 0), (2 * j, 2, 0), (2 * j, 0, 2))
    verts, faces = index_mesh(comb)
    xmax = 2 * COMB_PLATES - 1
    always = []
    for k, qs, xs in ((4, (1, 3, 5, 7), (-7, -3)), (2, (1, 3), (-3, -1))):
        for y, z in itertools.product(qs, repeat=2):
            for x in xs:
                for dx in (1, 2):
                    always.append(((x, y, z), k, (dx, 0, 0)))
                    always.append(((k * xmax - x, y, z), k, (-dx, 0, 0)))
    out.append({"name": "comb_%d_tetrahedra" % COMB_PLATES, "verts": verts, "faces": faces, "closed": True,
                "snap_ray": SNAP_RAY, "snap_pt": SNAP_PT, "snap_d2": SNAP_D2,
                "sampled": 0.35, "xshifts": [0, 6, 12, 18], "always": always})
    return out


COMB_PLATES = 11


def referenced(me):
    ref = sorted({i for f in me["faces"] for i in f})
    return [me["verts"][i] for i in ref]


# ------------------------------------------------------------------ enumeration
DIRS = [d for d in itertools.product(range(-2, 3), repeat=3) if any(d)]
AXIS = [d for d in DIRS if sum(1 for x in d if x) == 1 and max(abs(x) for x in d) == 1]
ORIG1 = list(itertools.product(range(-2, 6), repeat=3))              # o = O,     k = 1
ORIG2 = list(itertools.product(range(-3, 10, 2), repeat=3))          # o = O / 2, k = 2 (half-odd)
ORIG4 = list(itertools.product(range(-7, 22, 2), repeat=3))          # o = O / 4, k = 4 (odd quarters)
ORIG4_THOROUGH = list(itertools.product(range(-7, 22, 4), repeat=3))  # -7/4, -3/4, 1/4, ... 21/4
PTS_ODD = list(itertools.product(range(-7, 22, 2), repeat=3))        # p = P / 4, all coordinates odd quarters
PTS_ALL = list(itertools.product(range(-7, 22), repeat=3))           # the whole quarter lattice


def through_box(O, k, d, lo, hi):
    """Exact slab test: does the ray o + t d (o = O / k, t >= 0) meet the closed box [lo, hi]?  Used only
    to aim the quick tier's sample at the mesh (a property of the input; no answer is derived from it)."""
    t0, t1 = Fraction(0), None
    for a in range(3):
        if d[a] == 0:
            if not lo[a] * k <= O[a] <= hi[a] * k:
                return False
            continue
        ta, tb = Fraction(lo[a] * k - O[a], k * d[a]), Fraction(hi[a] * k - O[a], k * d[a])
        if ta > tb:
            ta, tb = tb, ta
        t0 = max(t0, ta)
        t1 = tb if t1 is None else min(t1, tb)
    return t1 is None or t0 <= t1


def inplane_rays(me, oblique):
    """Rays lying in the supporting plane of some face (of an oblique / an axis-aligned face): a property
    of the input; whether such a ray touches the triangle (degenerate) or is clear of it is TLC's call."""
    V = np.array(me["verts"], dtype=np.int64)
    out = set()
    for k, origins in ((1, ORIG1), (2, ORIG2), (4, ORIG4)):
        O = np.array(origins, dtype=np.int64)
        for f in me["faces"]:
            a, b, c = V[f]
            n = np.cross(b - a, c - a)
            if (np.count_nonzero(n) >= 2) != oblique:
                continue
            dirs = [d for d in DIRS if int(np.dot(d, n)) == 0]
            for o in O[(O - k * a) @ n == 0].tolist():
                out.update((tuple(o), k, d) for d in dirs)
    return sorted(out)


# id in known_findings.jsonl under which the lead may list the embree coplanar phantom hit
DEVIATIONS = {"phantom_hit_coplanar_triangle": "CoplanarRayPhantomHit",
              # (audit round) the multi-hit loop of the embree wrapper stops after 20 hits per ray
              "crossed_triangles_missed_beyond_the_first_20": "EmbreeMultiHitCap"}


def ray_items(tier, mi, me, rs):
    rays = []
    sampled = me.get("sampled")
    shifts = me.get("xshifts", [0])
    mult = 1.0 if not sampled else sampled * (4 if tier == "thorough" else 1)
    if tier == "thorough" and not sampled:
        for k, origins in ((1, ORIG1), (2, ORIG2), (4, ORIG4_THOROUGH)):
            for O in origins:
                for d in DIRS:
                    rays.append((O, k, d))
    else:
        # aimed sample: most rays pass through the bounding box of the small bodies of the mesh
        # (the far triangle / far body has every vertex outside the origin range and is not aimed at)
        near = [v for v in referenced(me) if sampled or all(-2 <= x <= 5 for x in v)]
        lo, hi = np.min(near, axis=0).tolist(), np.max(near, axis=0).tolist()
        for k, origins0, nax, nob, nfree in ((1, ORIG1, 40, 600, 130), (2, ORIG2, 30, 380, 70),
                                             (4, ORIG4, 30, 560, 70)):
            nax, nob, nfree = max(4, int(nax * mult)), max(20, int(nob * mult)), max(10, int(nfree * mult))
            origins = [(O[0] + k * sh, O[1], O[2]) for sh in shifts for O in origins0]
            allrays = [(origins[a], k, DIRS[b]) for a, b in
                       zip(rs.randint(0, len(origins), 40 * nob), rs.randint(0, len(DIRS), 40 * nob))]
            aimed = [r for r in allrays if through_box(r[0], r[1], r[2], lo, hi)]
            rays += aimed[:nob] + allrays[:nfree]
            for d in AXIS:
                cand = [O for O in origins if through_box(O, k, d, lo, hi)]
                rays += [(cand[j], k, d) for j in rs.choice(len(cand), min(nax, len(cand)), replace=False)]
                rays += [(origins[j], k, d) for j in rs.choice(len(origins), 10, replace=False)]
        # rays lying in the plane of a face: all of them for oblique faces (up to 600), a sample otherwise
        for oblique, cap in ((True, 600), (False, 200)):
            fam = [] if sampled else inplane_rays(me, oblique)
            rays += [fam[j] for j in rs.choice(len(fam), min(cap, len(fam)), replace=False)] if fam else []
        rays += me.get("always", [])
        rays = sorted(set(rays))
        rs.shuffle(rays)
    return [{"kind": "ray", "mi": mi, "O": list(O), "k": k, "d": list(d)} for O, k, d in rays]


def point_items(tier, mi, me, rs):
    sampled = me.get("sampled")
    mult = 1.0 if not sampled else sampled * (4 if tier == "thorough" else 1)
    if tier == "thorough" and not sampled:
        pts = [P for P in PTS_ALL if sum(1 for x in P if x % 2) >= 2]
    else:
        near = [v for v in referenced(me) if sampled or all(-2 <= x <= 5 for x in v)]
        lo, hi = np.min(near, axis=0) * 4, np.max(near, axis=0) * 4
        odd = [(P[0] + 4 * sh, P[1], P[2]) for sh in me.get("xshifts", [0]) for P in PTS_ODD]
        inbox = [P for P in odd if all(lo[a] < P[a] < hi[a] for a in range(3))]
        # dense inside the bounding box of the near bodies (corners, reentrant edges, the gap between bodies)
        if me.get("points") == "all_near":
            pts = [P for P in odd if all(lo[a] - 6 <= P[a] <= hi[a] + 6 for a in range(3))]
        else:
            pts = [inbox[j] for j in rs.choice(len(inbox), min(int(800 * mult), len(inbox)), replace=False)]
            pts += [odd[j] for j in rs.choice(len(odd), int(500 * mult), replace=False)]
        pts = sorted(set(pts))
    return [{"kind": "pt", "mi": mi, "P": list(P), "k": 4} for P in pts]


# ------------------------------------------------------------------ projection (floats -> exact fractions)
def snap_vec(vals, maxden, resid, qmax):
    """(numerators, common denominator) or None when a value is not within `resid` (relative to
    max(1, |x|)) of a fraction with denominator <= maxden, or the common denominator exceeds qmax."""
    fr = []
    for x in vals:
        x = float(x)
        if not math.isfinite(x):
            return None
        r = round(x)
        if abs(x - r) <= 1e-12:
            f = Fraction(r)
        else:
            f = Fraction(x).limit_denominator(maxden)
        if abs(x - f.numerator / f.denominator) > resid * max(1.0, abs(x)):
            return None
        fr.append(f)
    q = 1
    for f in fr:
        q = q * f.denominator // math.gcd(q, f.denominator)
    if q > qmax:
        return None
    nums = [int(f * q) for f in fr]
    if any(abs(n) >= 2 ** 24 for n in nums):
        return None
    return nums, q


def proj_hit(face, loc, resid):
    s = snap_vec(loc, SNAP_RAY, resid, SNAP_RAY_QMAX)
    if s is None:
        return {"f": int(face), "n": [0, 0, 0], "q": 1, "offlattice": repr([float(x) for x in loc])[:60]}
    return {"f": int(face), "n": s[0], "q": s[1], "offlattice": ""}


def proj_d2(x, resid):
    """distance -> distance^2 as a fraction"""
    x = float(x)
    s = snap_vec([x * x], SNAP_D2, resid, SNAP_D2)
    if s is None:
        return None
    return s[0][0], s[1]


# ------------------------------------------------------------------ calling the real code
def build(trimesh, me, T=(0, 0, 0), S=1.0, **kw):
    m = trimesh.Trimesh(vertices=np.array(me["verts"], dtype=np.float64) * S + np.array(T, dtype=np.float64),
                        faces=np.array(me["faces"], dtype=np.int64), process=False, **kw)
    if len(m.faces) != len(me["faces"]) or len(m.vertices) != len(me["verts"]):
        raise MachineryError("Trimesh(process=False) changed the input")
    return m


def engines_for(trimesh, m):
    import trimesh.ray.ray_triangle as rt
    eng = [("native", rt.RayMeshIntersector(m))]
    try:
        import embreex  # noqa: F401
        import trimesh.ray.ray_pyembree as rp
    except BaseException:
        return eng
    eng.append(("embree", rp.RayMeshIntersector(m)))
    return eng


class Shape(Exception):
    pass


class FunctionEngine:
    """trimesh.ray.ray_triangle.ray_triangle_id called as a function on bare triangles: no r-tree and no
    normals are handed over (it builds / derives its own).  Only re-packs what the function returns."""

    def __init__(self, trimesh, m):
        import trimesh.ray.ray_triangle as rt
        self.fn = rt.ray_triangle_id
        self.tri = np.array(m.triangles, dtype=np.float64)
        # Without normals the function validates its candidates and raises ValueError("Invalid triangles!") on a
        # zero-area one by design; for a mesh that has such a face the normals are handed over (still no tree).
        self.kw = {}
        if not trimesh.triangles.nondegenerate(self.tri).all():
            self.kw = {"triangles_normal": np.array(m.face_normals, dtype=np.float64)}

    def intersects_id(self, o, d, multiple_hits=True):
        it, ir, loc = self.fn(self.tri.copy(), o, d, multiple_hits=multiple_hits, **self.kw)
        return it, ir, loc

    def intersects_location(self, o, d, multiple_hits=True):
        it, ir, loc = self.fn(self.tri.copy(), o, d, multiple_hits=multiple_hits, **self.kw)
        return loc, ir, it

    def intersects_first(self, o, d):
        it, ir, _ = self.fn(self.tri.copy(), o, d, multiple_hits=False, **self.kw)
        out = -np.ones(len(o), dtype=np.int64)
        out[np.asarray(ir, dtype=np.int64)] = it
        return out

    def intersects_any(self, o, d):
        _, ir, _ = self.fn(self.tri.copy(), o, d, multiple_hits=True, **self.kw)
        out = np.zeros(len(o), dtype=bool)
        out[np.asarray(ir, dtype=np.int64)] = True
        return out


def setup(trimesh, me, cf, warm):
    """Mesh and intersectors of one configuration.  Returns (mesh, engines, S, T): the world is S x + T.
    `warm(mesh, engines)` makes the queries of the history configurations before the mesh is moved."""
    import trimesh.ray.ray_triangle as rt
    T = np.array(cf["T"], dtype=np.float64)
    S = 2.0 ** cf["e"]
    fam = cf["fam"]
    if fam == "entry":
        m = build(trimesh, me, use_embree=False)
        if type(m.ray).__module__ != rt.__name__:
            raise MachineryError("Trimesh(use_embree=False).ray is not the native intersector")
        engines = [("native:mesh.ray", m.ray), ("native:ray_triangle_id", FunctionEngine(trimesh, m))]
        try:
            import embreex  # noqa: F401
            import trimesh.ray.ray_pyembree as rp
            engines.append(("embree:scale_to_box=False", rp.RayMeshIntersector(m, scale_to_box=False)))
        except BaseException:
            pass
        return m, engines, S, T
    if fam == "hist":
        m = build(trimesh, me)
        engines = [("native", rt.RayMeshIntersector(m))]
        if type(m.ray).__module__ != rt.__name__:
            engines.append(("embree", m.ray))           # the intersector the mesh itself carries
        warm(m, engines)
        before = np.array(m.vertices, dtype=np.float64)
        if cf["name"] == "hist_apply_translation":
            m.apply_translation(T)
        elif cf["name"] == "hist_vertices_iadd":
            m.vertices += T
        elif cf["name"] == "hist_apply_scale":
            m.apply_scale(S)
        else:
            raise MachineryError("unknown history " + cf["name"])
        if not np.array_equal(np.asarray(m.vertices), before * S + T) or len(m.faces) != len(me["faces"]):
            raise MachineryError("the mutator of %s did not move the vertices exactly" % cf["name"])
        return m, engines, S, T
    m = build(trimesh, me, T, S)
    return m, engines_for(trimesh, m), S, T


class CallersArraysModified(Exception):
    pass


def convert(fam, a, integral=False):
    """input container of a configuration: the entry family passes nested lists / int64 arrays; the history
    family hands the caller's own arrays to every call (a caller that re-uses its ray arrays), every other
    family a fresh copy per call"""
    if fam == "hist":
        return a
    if fam != "entry":
        return a.copy()
    return a.astype(np.int64) if integral else a.tolist()


def query_rays(eng, o, d, fam="base"):
    """Every ray query of one engine on a batch; per ray: dict of raw results."""
    n = len(o)
    O, D = (lambda: convert(fam, o)), (lambda: convert(fam, d, integral=True))
    keep = (o.copy(), d.copy())
    locm, irm, itm = eng.intersects_location(O(), D(), multiple_hits=True)
    loc1, ir1, it1 = eng.intersects_location(O(), D(), multiple_hits=False)
    r = eng.intersects_id(O(), D(), multiple_hits=True)
    idm_t, idm_r = r[0], r[1]
    r = eng.intersects_id(O(), D(), multiple_hits=False)
    id1_t, id1_r = r[0], r[1]
    first = np.asarray(eng.intersects_first(O(), D()))
    anyhit = np.asarray(eng.intersects_any(O(), D()))
    if first.shape != (n,) or anyhit.shape != (n,):
        raise Shape("intersects_first / intersects_any shape")
    if not (np.array_equal(keep[0], o) and np.array_equal(keep[1], d)):
        # a query overwrote the rays it was given: the later queries above answered for other rays
        raise CallersArraysModified("ray arrays of the caller were modified by a query")
    out = [{"locm": [], "loc1": [], "idm": [], "id1": [], "first": int(first[j]), "any": bool(anyhit[j])}
           for j in range(n)]
    for key, loc, ir, it in (("locm", locm, irm, itm), ("loc1", loc1, ir1, it1)):
        loc = np.asarray(loc, dtype=np.float64).reshape((-1, 3))
        ir, it = np.asarray(ir).reshape(-1), np.asarray(it).reshape(-1)
        if not (len(loc) == len(ir) == len(it)):
            raise Shape("intersects_location lengths")
        for p, j, f in zip(loc, ir.tolist(), it.tolist()):
            if not 0 <= j < n:
                raise Shape("index_ray out of range")
            out[j][key].append((f, p))
    for key, it, ir in (("idm", idm_t, idm_r), ("id1", id1_t, id1_r)):
        it, ir = np.asarray(it).reshape(-1), np.asarray(ir).reshape(-1)
        if len(it) != len(ir):
            raise Shape("intersects_id lengths")
        for f, j in zip(it.tolist(), ir.tolist()):
            if not 0 <= j < n:
                raise Shape("index_ray out of range")
            out[j][key].append(int(f))
    return out


def record_rays(chunk):
    trimesh = import_trimesh()
    np.random.seed(seed() + 1)
    mi, me, pl, items = chunk
    cf = CONFIGS[pl]
    fam = cf["fam"]
    o0 = np.array([[x / it["k"] for x in it["O"]] for it in items], dtype=np.float64)
    d = np.array([it["d"] for it in items], dtype=np.float64)
    if fam == "dirlen":
        d = d * np.array([2.0 ** it["de"] for it in items]).reshape((-1, 1))

    def warm(m, engines):
        for _, eng in engines:
            query_rays(eng, o0[:8], d[:8])
            eng.contains_points(o0[:4].copy())
        m.nearest.on_surface(o0[:4].copy())
        m.nearest.vertex(o0[:4].copy())

    m, engines, S, T = setup(trimesh, me, cf, warm)
    resid = {name: RESID[name.split(":")[0]] + (far_slack(T) if name.startswith("native") else 0.0)
             for name, _ in engines}
    o = o0 * S + T
    recs = [{"id": 0, "exc": "", "kind": "ray", "m": mi + 1, "pl": pl, "de": it.get("de", 0), "o": it["O"],
             "k": it["k"], "d": it["d"], "laws": False, "eng": []} for it in items]
    pristine = (o.copy(), d.copy())
    for name, eng in engines:
        try:
            raw = query_rays(eng, o, d, fam)
        except MachineryError:
            raise
        except Exception:  # noqa - attribute the exception to the rays that provoke it on their own
            raw = []
            for j in range(len(items)):
                o[:], d[:] = pristine
                try:
                    raw.append(query_rays(eng, o[j:j + 1], d[j:j + 1], fam)[0])
                except Exception as e:  # noqa
                    raw.append(None)
                    recs[j]["exc"] = name.replace(":", "_") + "_" + type(e).__name__
            o[:], d[:] = pristine
        for j, r in enumerate(raw):
            if r is None:
                continue
            recs[j]["eng"].append({
                "name": name,
                "locm": [proj_hit(f, (p - T) / S, resid[name]) for f, p in r["locm"][:MAX_HITS_KEPT]],
                "loc1": [proj_hit(f, (p - T) / S, resid[name]) for f, p in r["loc1"][:MAX_HITS_KEPT]],
                "nlocm": len(r["locm"]),
                "idm": r["idm"][:MAX_HITS_KEPT], "id1": r["id1"][:MAX_HITS_KEPT], "first": r["first"],
                "any": r["any"]})
    return recs


def proj_near(api, res, j, T, resid, S=1.0):
    closest, dist, tid = res
    o = {"api": api, "offlattice": "", "Q": [0, 0, 0], "qd": 1, "d2n": 0, "d2d": 1, "tid": int(np.asarray(tid)[j])}
    s = snap_vec((np.asarray(closest, dtype=np.float64)[j] - T) / S, SNAP_PT, resid, SNAP_PT)
    d2 = proj_d2(np.asarray(dist)[j] / S, resid)
    if s is None:
        o["offlattice"] = "closest_point"
    elif d2 is None:
        o["offlattice"] = "distance"
    else:
        o["Q"], o["qd"] = s
        o["d2n"], o["d2d"] = d2
    return o


def query_points(trimesh, m, engines, pts, fam="base"):
    n = len(pts)
    P = lambda: convert(fam, pts)  # noqa: E731
    cont = [(name, np.asarray(eng.contains_points(P()))) for name, eng in engines if hasattr(eng, "contains_points")]
    if fam == "entry":
        cont[0] = ("native:mesh.contains", np.asarray(m.contains(P())))       # forwards to mesh.ray.contains_points
    res = {"cont": cont,
           "near": [("on_surface", m.nearest.on_surface(P())),
                    ("closest_point", trimesh.proximity.closest_point(m, P())),
                    ("closest_point_naive", trimesh.proximity.closest_point_naive(m, P()))],
           "sd": np.asarray(m.nearest.signed_distance(P())),
           "vtx": m.nearest.vertex(P())}
    ok = all(v.shape == (n,) for _, v in res["cont"]) and res["sd"].shape == (n,) \
        and all(len(r) == 3 and len(r[0]) == n and len(r[1]) == n and len(r[2]) == n for _, r in res["near"]) \
        and len(res["vtx"]) == 2 and len(res["vtx"][0]) == n and len(res["vtx"][1]) == n
    if not ok:
        raise Shape("proximity result shapes")
    return res


def fill_point(rec, res, j, T, resid, S=1.0):
    rec["cont"] = [{"name": name, "v": bool(v[j])} for name, v in res["cont"]]
    rec["near"] = [proj_near(api, r, j, T, resid, S) for api, r in res["near"]]
    sd = float(res["sd"][j]) / S
    d2 = proj_d2(sd, resid)
    rec["sd"] = {"offlattice": "" if d2 else "distance", "d2n": d2[0] if d2 else 0, "d2d": d2[1] if d2 else 1,
                 "sign": int(np.sign(sd)) if math.isfinite(sd) else 0}
    d2 = proj_d2(res["vtx"][0][j] / S, resid)
    rec["vtx"] = {"offlattice": "" if d2 else "distance", "d2n": d2[0] if d2 else 0, "d2d": d2[1] if d2 else 1,
                  "vid": int(res["vtx"][1][j])}


def record_points(chunk):
    trimesh = import_trimesh()
    np.random.seed(seed() + 2)        # contains_points retries along a numpy-random direction
    mi, me, pl, items = chunk
    cf = CONFIGS[pl]
    fam = cf["fam"]
    pts0 = np.array([[x / it["k"] for x in it["P"]] for it in items], dtype=np.float64)

    def warm(m, engines):
        query_points(trimesh, m, engines, pts0[:6])
        for _, eng in engines:
            eng.intersects_first(pts0[:6].copy(), np.array([[1.0, 2.0, -1.0]] * len(pts0[:6])))

    m, engines, S, T = setup(trimesh, me, cf, warm)
    resid = RESID_PROX + far_slack(T)
    pts = pts0 * S + T
    recs = [{"id": 0, "exc": "", "kind": "pt", "m": mi + 1, "pl": pl, "de": 0, "p": it["P"], "k": it["k"],
             "laws": False} for it in items]
    try:
        res = query_points(trimesh, m, engines, pts, fam)
        for j in range(len(items)):
            fill_point(recs[j], res, j, T, resid, S)
    except MachineryError:
        raise
    except Exception:  # noqa
        for j in range(len(items)):
            try:
                m1, engines1, _, _ = setup(trimesh, me, cf, warm)
                fill_point(recs[j], query_points(trimesh, m1, engines1, pts[j:j + 1], fam), 0, T, resid, S)
            except Exception as e:  # noqa
                recs[j]["exc"] = type(e).__name__
    return recs


def run_chunk(chunks):
    out = []
    for c in chunks:
        out += record_rays(c) if c[3][0]["kind"] == "ray" else record_points(c)
    return out


# ------------------------------------------------------------------ TLC batch validation
def validate(name, cases, meshes, timeout):
    """Like tlc.validate_batches, with the mesh table next to every shard of cases.
    Returns ({id: clause} for REJECT tuples, states, wall)."""
    shards = max(1, min(NCPU, len(cases) // 50 + 1))
    dirs = []
    for s in range(shards):
        part = cases[s::shards]
        d = tlc.prepare(f"c12/{name}/shard{s}")
        with open(os.path.join(d, "cases.ndjson"), "w") as f:
            for c in part:
                f.write(json.dumps(c, separators=(",", ":")) + "\n")
        with open(os.path.join(d, "meshes.ndjson"), "w") as f:
            for me in meshes:
                f.write(json.dumps(me, separators=(",", ":")) + "\n")
        dirs.append((d, len(part)))
    t0 = time.time()
    with ThreadPoolExecutor(max_workers=shards) as ex:
        results = list(ex.map(lambda dn: tlc.run(dn[0], "RayProx", CFG, workers=1, timeout=timeout), dirs))
    out, states = {}, 0
    for (d, n), r in zip(dirs, results):
        tlc.must(r, f"c12 {name} batch validation")
        if r.distinct < n:
            raise MachineryError(f"c12 {name}: TLC consumed {r.distinct} of {n} cases\n" + r.stdout[-2000:])
        states += r.distinct
        for t in r.tuples:
            pr = tlc.parse_reject(t)
            if pr:
                out[pr[0]] = pr[1]
    return out, states, time.time() - t0


def meaning(clause):
    key = clause.split(":")[-1]
    if key.startswith("offlattice_"):
        return "a reported value is not within the residual of any fraction on the lattice of exact values"
    if clause.startswith("raised_") and "CallersArraysModified" in clause:
        return ("a query overwrote the ray arrays it was given (history family: the caller re-uses its arrays, so "
                "the following queries answered for other rays)")
    if clause.startswith("raised_"):
        return "the query raised on input in general position"
    return MEANING.get(key, clause)


def main(argv):
    tier = tier_from_args(argv)
    V = Verdict(PROP, tier)
    trimesh = import_trimesh()
    meshes = mesh_table(tier)
    probe = build(trimesh, meshes[0])
    engine_names = [n for n, _ in engines_for(trimesh, probe)]
    default_engine = type(probe.ray).__module__
    big = tier == "thorough"
    count = {}

    def add(key, v=1):
        count[key] = count.get(key, 0) + v

    per_mesh = {me["name"]: {} for me in meshes}
    ref_index = [{i for f in me["faces"] for i in f} for me in meshes]
    samples, block_log = [], []
    blocks = []
    for mi, me in enumerate(meshes):
        rs = np.random.RandomState(seed() * 1000 + 12 + mi)
        base = ray_items(tier, mi, me, rs) + point_items(tier, mi, me, rs)
        items = [dict(it, pl=0) for it in base]
        # the other configurations: disjoint seeded shares of the sample (of the product in thorough)
        pick = rs.randint(0, 640, size=len(base))
        de = rs.randint(0, len(DIRLEN_EXP), size=len(base))
        lo = 0
        for pl in range(1, len(CONFIGS)):
            cf = CONFIGS[pl]
            hi = lo + int(round(640 * cf["share"][1 if big else 0]))
            for it, r, e in zip(base, pick, de):
                if lo <= r < hi and not (cf["fam"] == "dirlen" and it["kind"] == "pt"):
                    items.append(dict(it, pl=pl, de=DIRLEN_EXP[e]) if cf["fam"] == "dirlen" else dict(it, pl=pl))
            lo = hi
        if lo > 640:
            raise MachineryError("configuration shares exceed the sample")
        blocks.append((me["name"], items))
    if not big:
        blocks = [("quick", [it for _, items in blocks for it in items])]
    for label, items in blocks:
        chunks = []
        for kind in ("ray", "pt"):
            for mi, me in enumerate(meshes):
                for pl in range(len(CONFIGS)):
                    sel = [it for it in items if it["kind"] == kind and it["mi"] == mi and it["pl"] == pl]
                    chunks += [(mi, me, pl, sel[a:a + CHUNK]) for a in range(0, len(sel), CHUNK)]
        cases = [c for r in pmap(run_chunk, chunks, chunk=1) for c in r]
        if len(cases) != len(items):
            raise MachineryError("records lost in block " + label)
        for n, c in enumerate(cases):
            c["id"] = n
            c["laws"] = n % 4 == 0
        verdicts, states, wall = validate(label, cases, meshes, timeout=3000)
        block_log.append({"block": label, "records": len(cases), "tlc_wall_s": round(wall, 1)})
        add("states", states)
        add("tlc_wall", wall)
        for c in cases:
            cl = verdicts.get(c["id"], "ok")
            kind = c["kind"]
            pm = per_mesh[meshes[c["m"] - 1]["name"]]
            pm[kind + "_candidates"] = pm.get(kind + "_candidates", 0) + 1
            add(kind + "_candidates")
            if cl.startswith("SKIP_"):
                add(kind + "_" + cl)
                pm[kind + "_excluded"] = pm.get(kind + "_excluded", 0) + 1
                continue
            add(kind + "_validated")
            pm[kind + "_validated"] = pm.get(kind + "_validated", 0) + 1
            plname = cfg_label(c)
            add("%s_validated@%s" % (kind, CONFIGS[c["pl"]]["name"]))
            if plname != CONFIGS[c["pl"]]["name"]:
                add("%s_validated@%s" % (kind, plname))
            if kind == "ray" and c["eng"] and c["eng"][0]["locm"]:
                add("rays_with_hits@" + CONFIGS[c["pl"]]["name"])
            if cl.startswith("NOTE_"):
                add(cl)
                cl = "ok"
            if kind == "ray":
                d = c["d"]
                axis = sum(1 for x in d if x) == 1
                add("rays_axis_aligned" if axis else "rays_oblique")
                lo = np.min(meshes[c["m"] - 1]["verts"], axis=0) * c["k"]
                hi = np.max(meshes[c["m"] - 1]["verts"], axis=0) * c["k"]
                if all(lo[a] < c["o"][a] < hi[a] for a in range(3)):
                    add("rays_origin_strictly_inside_bounds")
                add("rays_origin_denominator_%d" % c["k"])
                if c["eng"]:
                    nh = len(c["eng"][0]["locm"])        # native engine (first in every configuration)
                    add("rays_%s_hits" % ("0" if nh == 0 else "1" if nh == 1 else "2" if nh == 2 else "3plus"))
                    if nh > 20:
                        add("rays_more_than_20_hits")
                    for e in c["eng"]:
                        add("ray_observations_" + e["name"])
                        add("hit_locations_compared", len(e["locm"]) + len(e["loc1"]))
            else:
                if c.get("cont"):
                    add("points_reported_inside" if c["cont"][0]["v"] else "points_reported_outside")
                    add("containment_observations", len(c["cont"]))
                    add("closest_point_observations", len(c["near"]))
                    for e in c["cont"]:
                        add("containment_observations_" + e["name"])
                    if c["vtx"]["vid"] not in ref_index[c["m"] - 1]:
                        add("points_whose_reported_nearest_vertex_is_unreferenced")
            if cl != "ok":
                add("rejected")
                me = meshes[c["m"] - 1]
                detail = {"mesh": me["name"], "vertices": me["verts"], "faces": me["faces"],
                          "meaning": meaning(cl)}
                cf = CONFIGS[c["pl"]]
                detail["configuration"] = {"name": plname, "family": cf["fam"],
                                           "world_is_lattice_times": 2.0 ** cf["e"], "plus_offset": list(cf["T"]),
                                           "direction_multiplied_by": 2.0 ** c.get("de", 0)}
                detail.update({k: v for k, v in c.items() if k not in ("id", "m", "laws", "pl")})
                # the clause is TLC's; the configuration (an attribute of the input) is appended to it
                V.violation(cl if c["pl"] == 0 else cl + "@" + plname, detail, DEVIATIONS.get(cl.split(":")[-1]))
        for kind in ("ray", "pt"):
            pool = [c for c in cases if c["kind"] == kind and not verdicts.get(c["id"], "").startswith("SKIP_")
                    and (kind == "pt" or (c["eng"] and len(c["eng"][0]["locm"]) >= 2))]
            if pool and len(samples) < 4:
                s = dict(pool[len(pool) // 3])
                s["mesh"] = meshes[s["m"] - 1]["name"]
                samples.append(s)
    n = count
    need = {"ray_validated": 2000, "pt_validated": 500, "rays_axis_aligned": 100, "rays_oblique": 1000,
            "rays_origin_strictly_inside_bounds": 50, "rays_2_hits": 100, "rays_1_hits": 100, "rays_0_hits": 100,
            "points_reported_inside": 20, "points_reported_outside": 200, "ray_SKIP_degenerate_ray": 1}
    # every configuration must really have been exercised (rays, rays with hits, query points) ...
    floor = {"far": (1000, 200, 300), "scale": (1000, 200, 300), "dirlen": (800, 100, 0), "entry": (800, 150, 250),
             "hist": (400, 80, 120)}
    for cf in CONFIGS[1:]:
        r, h, p = floor[cf["fam"]]
        need.update({"ray_validated@" + cf["name"]: r, "rays_with_hits@" + cf["name"]: h})
        if p:
            need["pt_validated@" + cf["name"]] = p
    # ... every direction length, every extra entry point, the vertices no face refers to, the rays that cross
    # more triangles than the embree wrapper's old default cap, and the two audit meshes
    for e in DIRLEN_EXP:
        need["ray_validated@dirlen_2^%d" % e] = 120
    for name in ("native:mesh.ray", "native:ray_triangle_id") + (
            ("embree:scale_to_box=False",) if "embree" in engine_names else ()):
        need["ray_observations_" + name] = 800
    need["containment_observations_native:mesh.contains"] = 250
    need["points_whose_reported_nearest_vertex_is_unreferenced"] = 40
    need["rays_more_than_20_hits"] = 8
    for me in meshes[-3:]:
        if per_mesh[me["name"]].get("ray_validated", 0) < 300 or per_mesh[me["name"]].get("pt_validated", 0) < 100:
            need["records_of_" + me["name"]] = 1          # never counted: reports the mesh as short
    short = {k: n.get(k, 0) for k, v in need.items() if n.get(k, 0) < v}
    if short and not V.violations:
        raise MachineryError("enumeration degenerate: %s" % short)
    cov = {
        "states": n["states"], "transitions": n["states"],
        "traces_validated_against_impl": n.get("ray_validated", 0) + n.get("pt_validated", 0),
        "engines": engine_names,
        "default_engine_of_mesh_ray": default_engine,
        "meshes": [{"name": me["name"], "faces": len(me["faces"]), "closed": me["closed"]} for me in meshes],
        "ray_candidates": n.get("ray_candidates", 0),
        "rays_excluded_as_degenerate": n.get("ray_SKIP_degenerate_ray", 0),
        "rays_validated": n.get("ray_validated", 0),
        "rays_axis_aligned": n.get("rays_axis_aligned", 0), "rays_oblique": n.get("rays_oblique", 0),
        "rays_origin_strictly_inside_bounds": n.get("rays_origin_strictly_inside_bounds", 0),
        "rays_by_origin_denominator": {str(k): n.get("rays_origin_denominator_%d" % k, 0) for k in (1, 2, 4)},
        "rays_by_hit_count": {k: n.get("rays_%s_hits" % k, 0) for k in ("0", "1", "2", "3plus")},
        "ray_observations_per_engine": {k[len("ray_observations_"):]: v for k, v in sorted(n.items())
                                        if k.startswith("ray_observations_")},
        "containment_observations_per_entry_point": {k[len("containment_observations_"):]: v
                                                     for k, v in sorted(n.items())
                                                     if k.startswith("containment_observations_")},
        "rays_crossing_more_than_20_triangles": n.get("rays_more_than_20_hits", 0),
        "points_whose_reported_nearest_vertex_is_unreferenced":
            n.get("points_whose_reported_nearest_vertex_is_unreferenced", 0),
        "rays_by_direction_length": {"2^%d" % e: n.get("ray_validated@dirlen_2^%d" % e, 0) for e in DIRLEN_EXP},
        "hit_locations_compared": n.get("hit_locations_compared", 0),
        "point_candidates": n.get("pt_candidates", 0),
        "points_excluded_within_margin_of_surface": n.get("pt_SKIP_point_within_margin_of_surface", 0),
        "points_validated": n.get("pt_validated", 0),
        "points_reported_inside": n.get("points_reported_inside", 0),
        "points_reported_outside": n.get("points_reported_outside", 0),
        "points_without_parity_direction": n.get("NOTE_no_parity_direction_in_general_position", 0),
        "containment_observations": n.get("containment_observations", 0),
        "closest_point_observations": n.get("closest_point_observations", 0),
        "placements": [{"name": cf["name"], "family": cf["fam"], "offset": list(cf["T"]), "scale": 2.0 ** cf["e"],
                        "rays_validated": n.get("ray_validated@" + cf["name"], 0),
                        "rays_with_hits": n.get("rays_with_hits@" + cf["name"], 0),
                        "points_validated": n.get("pt_validated@" + cf["name"], 0)} for cf in CONFIGS],
        "per_mesh": per_mesh,
        "rejected": n.get("rejected", 0),
        "blocks": block_log,
        "exhaustive": bool(big),
        "enumerated": (
            "thorough: per mesh every ray (origin, direction) with origin in {-2..5}^3, the half-odd points "
            "{-3/2..9/2}^3 or the quarter points {-7/4, -3/4, .. 21/4}^3 and direction in {-2..2}^3 \\ 0, and "
            "every quarter-lattice point of {-7/4..21/4}^3 "
            "with at least two odd-quarter coordinates (the cube with unreferenced vertices and the comb mesh: four "
            "times the quick sample instead); a seeded "
            "1/32 of these rays and points again at each of the two far placements, 1/64 at each scale, with other "
            "direction lengths and through the other entry points, 1/128 after each history" if big else
            "quick: per mesh a seeded sample of rays (origins {-2..5}^3, half-odd {-3/2..9/2}^3 and odd-quarter "
            "{-7/4..21/4}^3, directions {-2..2}^3 \\ 0): ~1800 random (origin, direction) pairs aimed through the "
            "bounding box of the near bodies, 310 unaimed ones, all six axis directions x up to 130 origins, up to "
            "800 rays lying in the plane of a face (all of those in the plane of an oblique face, up to 600); and "
            "up to 1500 of the 3375 "
            "odd-quarter points of {-7/4..21/4}^3 (up to 800 of them inside the bounding box of the near bodies); the "
            "comb mesh: 0.35 of these counts with origins also shifted along x, plus the axial rays through all the "
            "tetrahedra from outside.  Seeded disjoint shares of this sample again in the other configurations: 1/10 "
            "at each far placement and at each scale (2^-6, 2^10), 1/12 with the direction vector multiplied by "
            "2^-20 / 2^-10 / 2^10 / 2^20, 1/12 through the other entry points (mesh.ray / mesh.contains / signed "
            "distance of Trimesh(use_embree=False), ray_triangle_id as a function, embree with scale_to_box=False; "
            "lists and int64 arrays as input), 1/24 after each history (queries, then apply_translation / "
            "vertices += / apply_scale, then the same intersector objects queried)"),
        "snapping": ("hit locations: Fraction.limit_denominator(%d), residual 1e-9 (native engine) / 1e-4 (embree "
                     "engine, float32 tracing); closest points: denominator <= %d, squared distances: denominator "
                     "<= %d, residual 1e-9; residuals relative to max(1, |x|).  Far placements: the exact integer "
                     "offset is subtracted (exactly) before snapping; the float64 residual 1e-9 grows by 64 ulp of "
                     "the largest offset component (6e-8 at 4.1e6, the resolution of a double there), the embree "
                     "residual stays 1e-4" % (SNAP_RAY, SNAP_PT, SNAP_D2)),
        "general_position": "decided by TLC (RayProx.tla): margin 1/64 on t and on the barycentric coordinates of "
                            "every triangle (two-sided), no two crossings at one t; query points at least 1/8 off "
                            "the surface",
        "tlc_wall_s": round(n["tlc_wall"], 1),
        "samples": samples[:4],
    }
    return V.finish("model_checking", cov, assumptions=[
        "lattice meshes (integer vertices in {-4..8}, the comb up to 21); lattice / half-odd ray origins, integer directions, quarter-"
        "lattice query points: exact answers are fractions with small denominators (bounds checked by TLC, MeshSane)",
        "a returned float is accepted when within the residual of the exact fraction (1e-9; 1e-4 for hit locations "
        "of the float32 embree engine)",
        "agreement of the two engines is implied: both are compared with the same exact reference",
        "translation by an exact integer offset, scaling of the scene by a power of two and the length of the "
        "direction vector do not change any answer: those configurations are judged by TLC in the lattice frame "
        "(offset subtracted and scale divided out exactly before snapping)",
        "a zero-area face lying on an edge of a face with area (T-junction sliver) is crossed by no ray in general "
        "position and is the segment of its corners for the distance queries (ties with the real faces accepted)",
        "vertices no face refers to are vertices for nearest.vertex (it answers over mesh.vertices) and are not "
        "part of the surface for every other query",
        "rays / points not in general position (decided by TLC) are excluded, as the property's quantifier does",
        "containment and the sign of the signed distance are judged on closed, outward-wound meshes only "
        "(closedness and orientation checked by TLC); on the open far-triangle mesh only rays, closest point, "
        "distances and nearest vertex are judged",
        "ties between faces or equidistant closest points are all accepted",
    ])


if __name__ == "__main__":
    try:
        sys.exit(main(sys.argv[1:]))
    except MachineryError as e:
        print("MACHINERY-ERROR:", e)
        sys.exit(2)
