"""C12 - accelerated ray and proximity queries equal exhaustive evaluation.

Reference semantics: spec/RayProx.tla ("test every triangle" in exact integer arithmetic: Cramer
formulation of ray / triangle with one shared denominator, general position by a rational margin,
first hit = least t, containment by exact parity along a direction the spec chooses, distance to
the surface as the minimum over triangles of plane / segment distances, closest point judged by the
variational characterisation of the projection on the reported triangle, sign of the signed
distance positive inside).

Pure-function pattern: this harness enumerates lattice meshes (tetrahedron, cube, non-convex
L-prism, two disjoint bodies, a far triangle / far flat body next to a small tetrahedron), rays
(origins {-2..5}^3, the half-odd points {-3/2..9/2}^3 and odd-quarter points, directions {-2..2}^3 \\ 0, axis-aligned
ones included) and query points (quarter lattice), calls the real code
  both engines  trimesh.ray.ray_triangle.RayMeshIntersector, trimesh.ray.ray_pyembree.RayMeshIntersector
                intersects_location(multiple_hits=True / False), intersects_id(multiple_hits=True / False),
                intersects_first, intersects_any, contains_points
  proximity     mesh.nearest.on_surface, trimesh.proximity.closest_point, closest_point_naive,
                mesh.nearest.signed_distance, mesh.nearest.vertex
in batches of many rays / points per call (so that index_ray bookkeeping is exercised), projects every
float to an exact fraction (Fraction.limit_denominator with a residual test; a value that does not
snap travels as "offlattice" and is rejected) and has TLC validate every record in batch.
Python computes no expected value: which rays / points are in general position, which triangles are
crossed, which hit is first, inside / outside and every distance are decided by TLC.
Records outside the property's quantifier come back as SKIP_ clauses and are only counted.

Placements: part of the rays / points is run again with the whole scene (mesh vertices, ray origins, query
points) translated far from the origin by an exact integer offset ((5e5, 4.1e6, 120) and 2^20 on each axis:
absolute coordinates ~1e6 times the size of the mesh).  The offset is subtracted exactly from every returned
coordinate before snapping and TLC judges in the lattice frame; rejections there carry "@<placement>".

Named deviation (RayProx.tla, EngClause): CoplanarRayPhantomHit - a first-hit query names a triangle
whose supporting plane contains the ray although the ray is clear of the triangle.  Observed on the
pinned tree with the float32 embree engine (intersects_first / intersects_any / intersects_id(
multiple_hits=False) report the triangle, intersects_location reports nothing).  Such rejections are
handed to the Verdict under that deviation id: listed in known_findings.jsonl they are reported as
KNOWN-FINDING, otherwise they are violations.  The quick tier always includes the rays lying in the
plane of an oblique face, so the observation does not depend on the seed.
"""
import itertools
import json
import math
import os
import sys
import time
from concurrent.futures import ThreadPoolExecutor
from fractions import Fraction

import numpy as np

from harness import tlc
from harness.common import (NCPU, MachineryError, Verdict, import_trimesh, pmap, seed,
                            tier_from_args)

PROP = "C12"
CFG = "INIT Init\nNEXT Next\nINVARIANT Report\nINVARIANT InputSane\nINVARIANT RefSane\nCHECK_DEADLOCK FALSE\n"

# snapping: largest denominator tried / largest common denominator accepted, residual
SNAP_RAY = 64          # hit locations (exact denominators divide k (d . n'), see MeshSane in RayProx.tla)
SNAP_RAY_QMAX = 4096   # common denominator of the three coordinates of a (possibly wrong) location
SNAP_PT = 256          # closest points
SNAP_D2 = 1024         # squared distances
RESID = {"native": 1e-9, "embree": 1e-4}     # embree traces in float32
RESID_PROX = 1e-9
# Placements: the same lattice scene translated by an exact integer offset T (mesh vertices, ray origins and
# query points alike).  Results are brought back to the lattice frame by subtracting T (exact in float64)
# before snapping; TLC judges in the lattice frame.  A float64 result near T cannot be closer to the exact
# value than a few units in the last place of |T|, so the 1e-9 residual of the float64 routes grows by
# 64 ulp(max |T|) (6e-8 at 4.1e6); the embree residual stays 1e-4 (the wrapper subtracts the scene origin in
# float64 before going to float32, so far placements must not cost any accuracy).
PLACEMENTS = [("origin", (0, 0, 0)), ("far_5e5_4.1e6_120", (500000, 4100000, 120)),
              ("far_2^20", (2 ** 20, 2 ** 20, 2 ** 20))]


def far_slack(T):
    return 64 * 2.0 ** -52 * max(abs(x) for x in T)
CHUNK = 256

MEANING = {
    "hit_location_offlattice": "a reported hit location is not within the residual of any lattice fraction",
    "hit_face_index_out_of_range": "a reported triangle index is not a face of the mesh",
    "hit_not_on_ray_ahead_of_origin": "a reported hit location is not o + t d with t > 0",
    "hit_not_on_reported_triangle": "a reported hit location is not in the closed reported triangle",
    "crossed_triangle_missed": "a triangle crossed through its interior (by the margin) is not reported",
    "hit_count_differs_from_crossings": "more hits reported than triangles crossed",
    "hit_without_crossing": "a first hit is reported for a ray that crosses nothing",
    "more_than_one_hit_for_one_ray": "multiple_hits=False returned several hits for one ray",
    "hit_is_not_the_nearest": "the first hit is not the crossing of least t",
    "faces_differ_from_crossings": "intersects_id(multiple_hits=True) faces are not the crossed triangles",
    "first_is_not_the_nearest": "intersects_id(multiple_hits=False) is not the crossing of least t",
    "not_the_nearest": "intersects_first is not the crossing of least t (-1 when none)",
    "wrong": "intersects_any differs from 'some triangle is crossed'",
    "phantom_hit_coplanar_triangle": "a first-hit query names a triangle whose plane contains the ray although the "
                                     "ray is clear of the triangle (and intersects_location reports no such hit)",
    "point_is_not_nearest_point_of_reported_triangle":
        "the closest point is not the point of the reported triangle nearest to the query",
    "reported_triangle_is_not_a_nearest_one": "another triangle is strictly nearer than the reported one",
    "distance_is_not_the_minimum": "distance^2 is not the minimum over all triangles",
    "magnitude_is_not_the_minimum": "signed distance^2 is not the minimum over all triangles",
    "sign": "signed distance must be positive inside, negative outside (docstring of proximity.signed_distance)",
    "is_not_a_nearest_one": "the reported vertex is not a vertex of least distance",
    "distance": "the reported vertex distance^2 is not the least squared vertex distance",
    "contains_points_wrong": "contains_points differs from the exact parity classification",
}


# ------------------------------------------------------------------ meshes (lattice, wound outward)
def index_mesh(tris):
    index, verts, faces = {}, [], []
    for t in tris:
        row = []
        for p in t:
            key = tuple(int(x) for x in p)
            if key not in index:
                index[key] = len(verts)
                verts.append(list(key))
            row.append(index[key])
        faces.append(row)
    return verts, faces


def tet(a, b, c, d):
    """Outward faces of the tetrahedron; (b - a, c - a, d - a) must be positively oriented."""
    m = np.array([np.subtract(b, a), np.subtract(c, a), np.subtract(d, a)], dtype=np.int64)
    if round(np.linalg.det(m.astype(float))) <= 0:
        raise MachineryError("tet(): negatively oriented corner order")
    return [[a, c, b], [a, b, d], [a, d, c], [b, c, d]]


def prism(poly, tris, z0, z1):
    """Extrusion of a counter-clockwise polygon (triangulated by `tris`) from z0 to z1."""
    out = []
    for i, j, k in tris:
        out.append([poly[i] + (z1,), poly[j] + (z1,), poly[k] + (z1,)])
        out.append([poly[k] + (z0,), poly[j] + (z0,), poly[i] + (z0,)])
    n = len(poly)
    for i in range(n):
        p, q = poly[i], poly[(i + 1) % n]
        out.append([p + (z0,), q + (z0,), q + (z1,)])
        out.append([p + (z0,), q + (z1,), p + (z1,)])
    return out


def box(lo, hi):
    poly = [(lo[0], lo[1]), (hi[0], lo[1]), (hi[0], hi[1]), (lo[0], hi[1])]
    return prism(poly, [(0, 1, 2), (0, 2, 3)], lo[2], hi[2])


def transform(tris, perm, signs, shift):
    """Signed permutation of the axes followed by a translation; winding flipped under a mirror."""
    par = sum(1 for a in range(3) for b in range(a) if perm[b] > perm[a]) % 2
    det = (-1) ** par * signs[0] * signs[1] * signs[2]
    out = []
    for t in tris:
        q = [tuple(signs[r] * p[perm[r]] + shift[r] for r in range(3)) for p in t]
        out.append(q if det > 0 else [q[0], q[2], q[1]])
    return out


def mesh_table(tier):
    L = [(0, 0), (3, 0), (3, 1), (1, 1), (1, 3), (0, 3)]
    ltri = [(0, 1, 2), (0, 2, 3), (0, 3, 4), (0, 4, 5)]
    small = tet((1, 1, 1), (2, 1, 1), (1, 2, 1), (1, 1, 2))
    far_t = [[(-4, -4, -1), (8, -4, -1), (-4, 8, -1)]]
    # flat tetrahedron whose large top face z = -1 has every vertex far from the query region
    far_body = tet((-4, -4, -1), (-4, 8, -1), (8, -4, -1), (0, 0, -3))
    t0 = tet((0, 0, 0), (3, 0, 0), (0, 2, 0), (0, 0, 2))
    lp = prism(L, ltri, 0, 2)
    table = [
        ("tetrahedron", t0, True),
        ("cube", box((0, 0, 0), (2, 2, 2)), True),
        ("L_prism", lp, True),
        ("two_bodies", box((0, 0, 0), (1, 1, 2)) + tet((2, 2, 0), (4, 2, 0), (2, 4, 0), (2, 2, 3)), True),
        ("far_triangle_near_tet", far_t + small, False),
        ("far_flat_body_near_tet", far_body + small, True),
    ]
    if tier == "thorough":
        table += [
            ("tetrahedron_mirrored_zxy", transform(t0, (2, 0, 1), (-1, 1, 1), (3, 1, -1)), True),
            ("L_prism_yzx_flipped", transform(lp, (1, 2, 0), (1, -1, 1), (-1, 3, 0)), True),
        ]
    out = []
    for name, tris, closed in table:
        verts, faces = index_mesh(tris)
        out.append({"name": name, "verts": verts, "faces": faces, "closed": closed,
                    "snap_ray": SNAP_RAY, "snap_pt": SNAP_PT, "snap_d2": SNAP_D2})
    return out


# ------------------------------------------------------------------ enumeration
DIRS = [d for d in itertools.product(range(-2, 3), repeat=3) if any(d)]
AXIS = [d for d in DIRS if sum(1 for x in d if x) == 1 and max(abs(x) for x in d) == 1]
ORIG1 = list(itertools.product(range(-2, 6), repeat=3))              # o = O,     k = 1
ORIG2 = list(itertools.product(range(-3, 10, 2), repeat=3))          # o = O / 2, k = 2 (half-odd)
ORIG4 = list(itertools.product(range(-7, 22, 2), repeat=3))          # o = O / 4, k = 4 (odd quarters)
ORIG4_THOROUGH = list(itertools.product(range(-7, 22, 4), repeat=3))  # -7/4, -3/4, 1/4, ... 21/4
PTS_ODD = list(itertools.product(range(-7, 22, 2), repeat=3))        # p = P / 4, all coordinates odd quarters
PTS_ALL = list(itertools.product(range(-7, 22), repeat=3))           # the whole quarter lattice


def through_box(O, k, d, lo, hi):
    """Exact slab test: does the ray o + t d (o = O / k, t >= 0) meet the closed box [lo, hi]?  Used only
    to aim the quick tier's sample at the mesh (a property of the input; no answer is derived from it)."""
    t0, t1 = Fraction(0), None
    for a in range(3):
        if d[a] == 0:
            if not lo[a] * k <= O[a] <= hi[a] * k:
                return False
            continue
        ta, tb = Fraction(lo[a] * k - O[a], k * d[a]), Fraction(hi[a] * k - O[a], k * d[a])
        if ta > tb:
            ta, tb = tb, ta
        t0 = max(t0, ta)
        t1 = tb if t1 is None else min(t1, tb)
    return t1 is None or t0 <= t1


def inplane_rays(me, oblique):
    """Rays lying in the supporting plane of some face (of an oblique / an axis-aligned face): a property
    of the input; whether such a ray touches the triangle (degenerate) or is clear of it is TLC's call."""
    V = np.array(me["verts"], dtype=np.int64)
    out = set()
    for k, origins in ((1, ORIG1), (2, ORIG2), (4, ORIG4)):
        O = np.array(origins, dtype=np.int64)
        for f in me["faces"]:
            a, b, c = V[f]
            n = np.cross(b - a, c - a)
            if (np.count_nonzero(n) >= 2) != oblique:
                continue
            dirs = [d for d in DIRS if int(np.dot(d, n)) == 0]
            for o in O[(O - k * a) @ n == 0].tolist():
                out.update((tuple(o), k, d) for d in dirs)
    return sorted(out)


# id in known_findings.jsonl under which the lead may list the embree coplanar phantom hit
DEVIATIONS = {"phantom_hit_coplanar_triangle": "CoplanarRayPhantomHit"}


def ray_items(tier, mi, me, rs):
    rays = []
    if tier == "thorough":
        for k, origins in ((1, ORIG1), (2, ORIG2), (4, ORIG4_THOROUGH)):
            for O in origins:
                for d in DIRS:
                    rays.append((O, k, d))
    else:
        # aimed sample: most rays pass through the bounding box of the small bodies of the mesh
        # (the far triangle / far body has every vertex outside the origin range and is not aimed at)
        near = [v for v in me["verts"] if all(-2 <= x <= 5 for x in v)]
        lo, hi = np.min(near, axis=0).tolist(), np.max(near, axis=0).tolist()
        for k, origins, nax, nob, nfree in ((1, ORIG1, 40, 700, 150), (2, ORIG2, 30, 450, 80),
                                            (4, ORIG4, 30, 650, 80)):
            allrays = [(origins[a], k, DIRS[b]) for a, b in
                       zip(rs.randint(0, len(origins), 40 * nob), rs.randint(0, len(DIRS), 40 * nob))]
            aimed = [r for r in allrays if through_box(r[0], r[1], r[2], lo, hi)]
            rays += aimed[:nob] + allrays[:nfree]
            for d in AXIS:
                cand = [O for O in origins if through_box(O, k, d, lo, hi)]
                rays += [(cand[j], k, d) for j in rs.choice(len(cand), min(nax, len(cand)), replace=False)]
                rays += [(origins[j], k, d) for j in rs.choice(len(origins), 10, replace=False)]
        # rays lying in the plane of a face: all of them for oblique faces (up to 600), a sample otherwise
        for oblique, cap in ((True, 600), (False, 200)):
            fam = inplane_rays(me, oblique)
            rays += [fam[j] for j in rs.choice(len(fam), min(cap, len(fam)), replace=False)] if fam else []
        rays = sorted(set(rays))
        rs.shuffle(rays)
    return [{"kind": "ray", "mi": mi, "O": list(O), "k": k, "d": list(d)} for O, k, d in rays]


def point_items(tier, mi, me, rs):
    if tier == "thorough":
        pts = [P for P in PTS_ALL if sum(1 for x in P if x % 2) >= 2]
    else:
        near = [v for v in me["verts"] if all(-2 <= x <= 5 for x in v)]
        lo, hi = np.min(near, axis=0) * 4, np.max(near, axis=0) * 4
        inbox = [P for P in PTS_ODD if all(lo[a] < P[a] < hi[a] for a in range(3))]
        # dense inside the bounding box of the near bodies (corners, reentrant edges, the gap between bodies)
        pts = [inbox[j] for j in rs.choice(len(inbox), min(900, len(inbox)), replace=False)]
        pts += [PTS_ODD[j] for j in rs.choice(len(PTS_ODD), 600, replace=False)]
        pts = sorted(set(pts))
    return [{"kind": "pt", "mi": mi, "P": list(P), "k": 4} for P in pts]


# ------------------------------------------------------------------ projection (floats -> exact fractions)
def snap_vec(vals, maxden, resid, qmax):
    """(numerators, common denominator) or None when a value is not within `resid` (relative to
    max(1, |x|)) of a fraction with denominator <= maxden, or the common denominator exceeds qmax."""
    fr = []
    for x in vals:
        x = float(x)
        if not math.isfinite(x):
            return None
        r = round(x)
        if abs(x - r) <= 1e-12:
            f = Fraction(r)
        else:
            f = Fraction(x).limit_denominator(maxden)
        if abs(x - f.numerator / f.denominator) > resid * max(1.0, abs(x)):
            return None
        fr.append(f)
    q = 1
    for f in fr:
        q = q * f.denominator // math.gcd(q, f.denominator)
    if q > qmax:
        return None
    nums = [int(f * q) for f in fr]
    if any(abs(n) >= 2 ** 24 for n in nums):
        return None
    return nums, q


def proj_hit(face, loc, resid):
    s = snap_vec(loc, SNAP_RAY, resid, SNAP_RAY_QMAX)
    if s is None:
        return {"f": int(face), "n": [0, 0, 0], "q": 1, "offlattice": repr([float(x) for x in loc])[:60]}
    return {"f": int(face), "n": s[0], "q": s[1], "offlattice": ""}


def proj_d2(x, resid):
    """distance -> distance^2 as a fraction"""
    x = float(x)
    s = snap_vec([x * x], SNAP_D2, resid, SNAP_D2)
    if s is None:
        return None
    return s[0][0], s[1]


# ------------------------------------------------------------------ calling the real code
def build(trimesh, me, T=(0, 0, 0)):
    m = trimesh.Trimesh(vertices=np.array(me["verts"], dtype=np.float64) + np.array(T, dtype=np.float64),
                        faces=np.array(me["faces"], dtype=np.int64), process=False)
    if len(m.faces) != len(me["faces"]) or len(m.vertices) != len(me["verts"]):
        raise MachineryError("Trimesh(process=False) changed the input")
    return m


def engines_for(trimesh, m):
    import trimesh.ray.ray_triangle as rt
    eng = [("native", rt.RayMeshIntersector(m))]
    try:
        import embreex  # noqa: F401
        import trimesh.ray.ray_pyembree as rp
    except BaseException:
        return eng
    eng.append(("embree", rp.RayMeshIntersector(m)))
    return eng


class Shape(Exception):
    pass


def query_rays(eng, o, d):
    """Every ray query of one engine on a batch; per ray: dict of raw results."""
    n = len(o)
    locm, irm, itm = eng.intersects_location(o.copy(), d.copy(), multiple_hits=True)
    loc1, ir1, it1 = eng.intersects_location(o.copy(), d.copy(), multiple_hits=False)
    r = eng.intersects_id(o.copy(), d.copy(), multiple_hits=True)
    idm_t, idm_r = r[0], r[1]
    r = eng.intersects_id(o.copy(), d.copy(), multiple_hits=False)
    id1_t, id1_r = r[0], r[1]
    first = np.asarray(eng.intersects_first(o.copy(), d.copy()))
    anyhit = np.asarray(eng.intersects_any(o.copy(), d.copy()))
    if first.shape != (n,) or anyhit.shape != (n,):
        raise Shape("intersects_first / intersects_any shape")
    out = [{"locm": [], "loc1": [], "idm": [], "id1": [], "first": int(first[j]), "any": bool(anyhit[j])}
           for j in range(n)]
    for key, loc, ir, it in (("locm", locm, irm, itm), ("loc1", loc1, ir1, it1)):
        loc = np.asarray(loc, dtype=np.float64).reshape((-1, 3))
        ir, it = np.asarray(ir).reshape(-1), np.asarray(it).reshape(-1)
        if not (len(loc) == len(ir) == len(it)):
            raise Shape("intersects_location lengths")
        for p, j, f in zip(loc, ir.tolist(), it.tolist()):
            if not 0 <= j < n:
                raise Shape("index_ray out of range")
            out[j][key].append((f, p))
    for key, it, ir in (("idm", idm_t, idm_r), ("id1", id1_t, id1_r)):
        it, ir = np.asarray(it).reshape(-1), np.asarray(ir).reshape(-1)
        if len(it) != len(ir):
            raise Shape("intersects_id lengths")
        for f, j in zip(it.tolist(), ir.tolist()):
            if not 0 <= j < n:
                raise Shape("index_ray out of range")
            out[j][key].append(int(f))
    return out


def record_rays(chunk):
    trimesh = import_trimesh()
    np.random.seed(seed() + 1)
    mi, me, pl, items = chunk
    T = np.array(PLACEMENTS[pl][1], dtype=np.float64)
    resid = {name: r + (far_slack(T) if name == "native" else 0.0) for name, r in RESID.items()}
    m = build(trimesh, me, T)
    engines = engines_for(trimesh, m)
    o = np.array([[x / it["k"] for x in it["O"]] for it in items], dtype=np.float64) + T
    d = np.array([it["d"] for it in items], dtype=np.float64)
    recs = [{"id": 0, "exc": "", "kind": "ray", "m": mi + 1, "pl": pl, "o": it["O"], "k": it["k"], "d": it["d"],
             "laws": False, "eng": []} for it in items]
    for name, eng in engines:
        try:
            raw = query_rays(eng, o, d)
        except MachineryError:
            raise
        except Exception:  # noqa - attribute the exception to the rays that provoke it on their own
            raw = []
            for j in range(len(items)):
                try:
                    raw.append(query_rays(eng, o[j:j + 1], d[j:j + 1])[0])
                except Exception as e:  # noqa
                    raw.append(None)
                    recs[j]["exc"] = name + "_" + type(e).__name__
        for j, r in enumerate(raw):
            if r is None:
                continue
            recs[j]["eng"].append({
                "name": name,
                "locm": [proj_hit(f, p - T, resid[name]) for f, p in r["locm"]],
                "loc1": [proj_hit(f, p - T, resid[name]) for f, p in r["loc1"]],
                "idm": r["idm"], "id1": r["id1"], "first": r["first"], "any": r["any"]})
    return recs


def proj_near(api, res, j, T, resid):
    closest, dist, tid = res
    o = {"api": api, "offlattice": "", "Q": [0, 0, 0], "qd": 1, "d2n": 0, "d2d": 1, "tid": int(np.asarray(tid)[j])}
    s = snap_vec(np.asarray(closest, dtype=np.float64)[j] - T, SNAP_PT, resid, SNAP_PT)
    d2 = proj_d2(np.asarray(dist)[j], resid)
    if s is None:
        o["offlattice"] = "closest_point"
    elif d2 is None:
        o["offlattice"] = "distance"
    else:
        o["Q"], o["qd"] = s
        o["d2n"], o["d2d"] = d2
    return o


def query_points(trimesh, m, engines, pts):
    n = len(pts)
    res = {"cont": [(name, np.asarray(eng.contains_points(pts.copy()))) for name, eng in engines],
           "near": [("on_surface", m.nearest.on_surface(pts.copy())),
                    ("closest_point", trimesh.proximity.closest_point(m, pts.copy())),
                    ("closest_point_naive", trimesh.proximity.closest_point_naive(m, pts.copy()))],
           "sd": np.asarray(m.nearest.signed_distance(pts.copy())),
           "vtx": m.nearest.vertex(pts.copy())}
    ok = all(v.shape == (n,) for _, v in res["cont"]) and res["sd"].shape == (n,) \
        and all(len(r) == 3 and len(r[0]) == n and len(r[1]) == n and len(r[2]) == n for _, r in res["near"]) \
        and len(res["vtx"]) == 2 and len(res["vtx"][0]) == n and len(res["vtx"][1]) == n
    if not ok:
        raise Shape("proximity result shapes")
    return res


def fill_point(rec, res, j, T, resid):
    rec["cont"] = [{"name": name, "v": bool(v[j])} for name, v in res["cont"]]
    rec["near"] = [proj_near(api, r, j, T, resid) for api, r in res["near"]]
    sd = float(res["sd"][j])
    d2 = proj_d2(sd, resid)
    rec["sd"] = {"offlattice": "" if d2 else "distance", "d2n": d2[0] if d2 else 0, "d2d": d2[1] if d2 else 1,
                 "sign": int(np.sign(sd)) if math.isfinite(sd) else 0}
    d2 = proj_d2(res["vtx"][0][j], resid)
    rec["vtx"] = {"offlattice": "" if d2 else "distance", "d2n": d2[0] if d2 else 0, "d2d": d2[1] if d2 else 1,
                  "vid": int(res["vtx"][1][j])}


def record_points(chunk):
    trimesh = import_trimesh()
    np.random.seed(seed() + 2)        # contains_points retries along a numpy-random direction
    mi, me, pl, items = chunk
    T = np.array(PLACEMENTS[pl][1], dtype=np.float64)
    resid = RESID_PROX + far_slack(T)
    m = build(trimesh, me, T)
    engines = engines_for(trimesh, m)
    pts = np.array([[x / it["k"] for x in it["P"]] for it in items], dtype=np.float64) + T
    recs = [{"id": 0, "exc": "", "kind": "pt", "m": mi + 1, "pl": pl, "p": it["P"], "k": it["k"], "laws": False}
            for it in items]
    try:
        res = query_points(trimesh, m, engines, pts)
        for j in range(len(items)):
            fill_point(recs[j], res, j, T, resid)
    except MachineryError:
        raise
    except Exception:  # noqa
        for j in range(len(items)):
            try:
                m1 = build(trimesh, me, T)
                fill_point(recs[j], query_points(trimesh, m1, engines_for(trimesh, m1), pts[j:j + 1]), 0, T, resid)
            except Exception as e:  # noqa
                recs[j]["exc"] = type(e).__name__
    return recs


def run_chunk(chunks):
    out = []
    for c in chunks:
        out += record_rays(c) if c[3][0]["kind"] == "ray" else record_points(c)
    return out


# ------------------------------------------------------------------ TLC batch validation
def validate(name, cases, meshes, timeout):
    """Like tlc.validate_batches, with the mesh table next to every shard of cases.
    Returns ({id: clause} for REJECT tuples, states, wall)."""
    shards = max(1, min(NCPU, len(cases) // 50 + 1))
    dirs = []
    for s in range(shards):
        part = cases[s::shards]
        d = tlc.prepare(f"c12/{name}/shard{s}")
        with open(os.path.join(d, "cases.ndjson"), "w") as f:
            for c in part:
                f.write(json.dumps(c, separators=(",", ":")) + "\n")
        with open(os.path.join(d, "meshes.ndjson"), "w") as f:
            for me in meshes:
                f.write(json.dumps(me, separators=(",", ":")) + "\n")
        dirs.append((d, len(part)))
    t0 = time.time()
    with ThreadPoolExecutor(max_workers=shards) as ex:
        results = list(ex.map(lambda dn: tlc.run(dn[0], "RayProx", CFG, workers=1, timeout=timeout), dirs))
    out, states = {}, 0
    for (d, n), r in zip(dirs, results):
        tlc.must(r, f"c12 {name} batch validation")
        if r.distinct < n:
            raise MachineryError(f"c12 {name}: TLC consumed {r.distinct} of {n} cases\n" + r.stdout[-2000:])
        states += r.distinct
        for t in r.tuples:
            pr = tlc.parse_reject(t)
            if pr:
                out[pr[0]] = pr[1]
    return out, states, time.time() - t0


def meaning(clause):
    key = clause.split(":")[-1]
    if key.startswith("offlattice_"):
        return "a reported value is not within the residual of any fraction on the lattice of exact values"
    if clause.startswith("raised_"):
        return "the query raised on input in general position"
    return MEANING.get(key, clause)


def main(argv):
    tier = tier_from_args(argv)
    V = Verdict(PROP, tier)
    trimesh = import_trimesh()
    meshes = mesh_table(tier)
    probe = build(trimesh, meshes[0])
    engine_names = [n for n, _ in engines_for(trimesh, probe)]
    default_engine = type(probe.ray).__module__
    big = tier == "thorough"
    count = {}

    def add(key, v=1):
        count[key] = count.get(key, 0) + v

    per_mesh = {me["name"]: {} for me in meshes}
    samples, block_log = [], []
    blocks = []
    for mi, me in enumerate(meshes):
        rs = np.random.RandomState(seed() * 1000 + 12 + mi)
        base = ray_items(tier, mi, me, rs) + point_items(tier, mi, me, rs)
        items = [dict(it, pl=0) for it in base]
        # far placements: a sixth of the quick sample each / a seeded sixteenth of the thorough product each
        pick = rs.randint(0, 16 if big else 6, size=len(base))
        for pl in range(1, len(PLACEMENTS)):
            items += [dict(it, pl=pl) for it, r in zip(base, pick) if r == pl - 1]
        blocks.append((me["name"], items))
    if not big:
        blocks = [("quick", [it for _, items in blocks for it in items])]
    for label, items in blocks:
        chunks = []
        for kind in ("ray", "pt"):
            for mi, me in enumerate(meshes):
                for pl in range(len(PLACEMENTS)):
                    sel = [it for it in items if it["kind"] == kind and it["mi"] == mi and it["pl"] == pl]
                    chunks += [(mi, me, pl, sel[a:a + CHUNK]) for a in range(0, len(sel), CHUNK)]
        cases = [c for r in pmap(run_chunk, chunks, chunk=1) for c in r]
        if len(cases) != len(items):
            raise MachineryError("records lost in block " + label)
        for n, c in enumerate(cases):
            c["id"] = n
            c["laws"] = n % 4 == 0
        verdicts, states, wall = validate(label, cases, meshes, timeout=3000)
        block_log.append({"block": label, "records": len(cases), "tlc_wall_s": round(wall, 1)})
        add("states", states)
        add("tlc_wall", wall)
        for c in cases:
            cl = verdicts.get(c["id"], "ok")
            kind = c["kind"]
            pm = per_mesh[meshes[c["m"] - 1]["name"]]
            pm[kind + "_candidates"] = pm.get(kind + "_candidates", 0) + 1
            add(kind + "_candidates")
            if cl.startswith("SKIP_"):
                add(kind + "_" + cl)
                pm[kind + "_excluded"] = pm.get(kind + "_excluded", 0) + 1
                continue
            add(kind + "_validated")
            pm[kind + "_validated"] = pm.get(kind + "_validated", 0) + 1
            plname = PLACEMENTS[c["pl"]][0]
            add("%s_validated@%s" % (kind, plname))
            if kind == "ray" and c["eng"] and c["eng"][0]["locm"]:
                add("rays_with_hits@" + plname)
            if cl.startswith("NOTE_"):
                add(cl)
                cl = "ok"
            if kind == "ray":
                d = c["d"]
                axis = sum(1 for x in d if x) == 1
                add("rays_axis_aligned" if axis else "rays_oblique")
                lo = np.min(meshes[c["m"] - 1]["verts"], axis=0) * c["k"]
                hi = np.max(meshes[c["m"] - 1]["verts"], axis=0) * c["k"]
                if all(lo[a] < c["o"][a] < hi[a] for a in range(3)):
                    add("rays_origin_strictly_inside_bounds")
                add("rays_origin_denominator_%d" % c["k"])
                if c["eng"]:
                    nh = len(c["eng"][0]["locm"])
                    add("rays_%s_hits" % ("0" if nh == 0 else "1" if nh == 1 else "2" if nh == 2 else "3plus"))
                    for e in c["eng"]:
                        add("ray_observations_" + e["name"])
                        add("hit_locations_compared", len(e["locm"]) + len(e["loc1"]))
            else:
                if c.get("cont"):
                    add("points_reported_inside" if c["cont"][0]["v"] else "points_reported_outside")
                    add("containment_observations", len(c["cont"]))
                    add("closest_point_observations", len(c["near"]))
            if cl != "ok":
                add("rejected")
                me = meshes[c["m"] - 1]
                detail = {"mesh": me["name"], "vertices": me["verts"], "faces": me["faces"],
                          "meaning": meaning(cl)}
                detail["placement"] = {"name": plname, "offset_added_to_mesh_rays_points": list(PLACEMENTS[c["pl"]][1])}
                detail.update({k: v for k, v in c.items() if k not in ("id", "m", "laws", "pl")})
                # the clause is TLC's; the placement (an attribute of the input) is appended for far placements
                V.violation(cl if c["pl"] == 0 else cl + "@" + plname, detail, DEVIATIONS.get(cl.split(":")[-1]))
        for kind in ("ray", "pt"):
            pool = [c for c in cases if c["kind"] == kind and not verdicts.get(c["id"], "").startswith("SKIP_")
                    and (kind == "pt" or (c["eng"] and len(c["eng"][0]["locm"]) >= 2))]
            if pool and len(samples) < 4:
                s = dict(pool[len(pool) // 3])
                s["mesh"] = meshes[s["m"] - 1]["name"]
                samples.append(s)
    n = count
    need = {"ray_validated": 2000, "pt_validated": 500, "rays_axis_aligned": 100, "rays_oblique": 1000,
            "rays_origin_strictly_inside_bounds": 50, "rays_2_hits": 100, "rays_1_hits": 100, "rays_0_hits": 100,
            "points_reported_inside": 20, "points_reported_outside": 200, "ray_SKIP_degenerate_ray": 1}
    for plname, _ in PLACEMENTS[1:]:
        need.update({"ray_validated@" + plname: 1000, "rays_with_hits@" + plname: 200, "pt_validated@" + plname: 300})
    short = {k: n.get(k, 0) for k, v in need.items() if n.get(k, 0) < v}
    if short and not V.violations:
        raise MachineryError("enumeration degenerate: %s" % short)
    cov = {
        "states": n["states"], "transitions": n["states"],
        "traces_validated_against_impl": n.get("ray_validated", 0) + n.get("pt_validated", 0),
        "engines": engine_names,
        "default_engine_of_mesh_ray": default_engine,
        "meshes": [{"name": me["name"], "faces": len(me["faces"]), "closed": me["closed"]} for me in meshes],
        "ray_candidates": n.get("ray_candidates", 0),
        "rays_excluded_as_degenerate": n.get("ray_SKIP_degenerate_ray", 0),
        "rays_validated": n.get("ray_validated", 0),
        "rays_axis_aligned": n.get("rays_axis_aligned", 0), "rays_oblique": n.get("rays_oblique", 0),
        "rays_origin_strictly_inside_bounds": n.get("rays_origin_strictly_inside_bounds", 0),
        "rays_by_origin_denominator": {str(k): n.get("rays_origin_denominator_%d" % k, 0) for k in (1, 2, 4)},
        "rays_by_hit_count": {k: n.get("rays_%s_hits" % k, 0) for k in ("0", "1", "2", "3plus")},
        "ray_observations_per_engine": {e: n.get("ray_observations_" + e, 0) for e in engine_names},
        "hit_locations_compared": n.get("hit_locations_compared", 0),
        "point_candidates": n.get("pt_candidates", 0),
        "points_excluded_within_margin_of_surface": n.get("pt_SKIP_point_within_margin_of_surface", 0),
        "points_validated": n.get("pt_validated", 0),
        "points_reported_inside": n.get("points_reported_inside", 0),
        "points_reported_outside": n.get("points_reported_outside", 0),
        "points_without_parity_direction": n.get("NOTE_no_parity_direction_in_general_position", 0),
        "containment_observations": n.get("containment_observations", 0),
        "closest_point_observations": n.get("closest_point_observations", 0),
        "placements": [{"name": nm, "offset": list(T), "rays_validated": n.get("ray_validated@" + nm, 0),
                        "rays_with_hits": n.get("rays_with_hits@" + nm, 0),
                        "points_validated": n.get("pt_validated@" + nm, 0)} for nm, T in PLACEMENTS],
        "per_mesh": per_mesh,
        "rejected": n.get("rejected", 0),
        "blocks": block_log,
        "exhaustive": bool(big),
        "enumerated": (
            "thorough: per mesh every ray (origin, direction) with origin in {-2..5}^3, the half-odd points "
            "{-3/2..9/2}^3 or the quarter points {-7/4, -3/4, .. 21/4}^3 and direction in {-2..2}^3 \\ 0, and "
            "every quarter-lattice point of {-7/4..21/4}^3 "
            "with at least two odd-quarter coordinates; a seeded sixteenth of these rays and points again at each of "
            "the two far placements" if big else
            "quick: per mesh a seeded sample of rays (origins {-2..5}^3, half-odd {-3/2..9/2}^3 and odd-quarter "
            "{-7/4..21/4}^3, directions {-2..2}^3 \\ 0): ~1800 random (origin, direction) pairs aimed through the "
            "bounding box of the near bodies, 310 unaimed ones, all six axis directions x up to 130 origins, up to "
            "800 rays lying in the plane of a face (all of those in the plane of an oblique face, up to 600); and "
            "up to 1500 of the 3375 "
            "odd-quarter points of {-7/4..21/4}^3 (up to 900 of them inside the bounding box of the near bodies); a sixth of these rays and points again at "
            "each of the two far placements"),
        "snapping": ("hit locations: Fraction.limit_denominator(%d), residual 1e-9 (native engine) / 1e-4 (embree "
                     "engine, float32 tracing); closest points: denominator <= %d, squared distances: denominator "
                     "<= %d, residual 1e-9; residuals relative to max(1, |x|).  Far placements: the exact integer "
                     "offset is subtracted (exactly) before snapping; the float64 residual 1e-9 grows by 64 ulp of "
                     "the largest offset component (6e-8 at 4.1e6, the resolution of a double there), the embree "
                     "residual stays 1e-4" % (SNAP_RAY, SNAP_PT, SNAP_D2)),
        "general_position": "decided by TLC (RayProx.tla): margin 1/64 on t and on the barycentric coordinates of "
                            "every triangle (two-sided), no two crossings at one t; query points at least 1/8 off "
                            "the surface",
        "tlc_wall_s": round(n["tlc_wall"], 1),
        "samples": samples[:4],
    }
    return V.finish("model_checking", cov, assumptions=[
        "lattice meshes (integer vertices in {-4..8}); lattice / half-odd ray origins, integer directions, quarter-"
        "lattice query points: exact answers are fractions with small denominators (bounds checked by TLC, MeshSane)",
        "a returned float is accepted when within the residual of the exact fraction (1e-9; 1e-4 for hit locations "
        "of the float32 embree engine)",
        "agreement of the two engines is implied: both are compared with the same exact reference",
        "translation by an exact integer offset does not change any answer: far placements are judged by TLC in "
        "the untranslated lattice frame",
        "rays / points not in general position (decided by TLC) are excluded, as the property's quantifier does",
        "containment and the sign of the signed distance are judged on closed, outward-wound meshes only "
        "(closedness and orientation checked by TLC); on the open far-triangle mesh only rays, closest point, "
        "distances and nearest vertex are judged",
        "ties between faces or equidistant closest points are all accepted",
    ])


if __name__ == "__main__":
    try:
        sys.exit(main(sys.argv[1:]))
    except MachineryError as e:
        print("MACHINERY-ERROR:", e)
        sys.exit(2)
