"""X02 - resolvers are key -> bytes stores (trimesh/resolvers.py: FilePathResolver, ZipResolver,
the Resolver interface; trimesh.util.compress / decompress; assets found by the OBJ loader).

spec -> code: TLC model-checks spec/Resolvers.tla (property level + implementation-shaped layer in
lock step), demonstrates every property on a deviation / mutant switched on, and emits behaviours
(all histories to a depth, a state cover, simulated long ones).  Each behaviour is replayed into real
ZipResolver / FilePathResolver objects; every returned value and, after every step, the projected
state of every live resolver object (prefix, content of the store behind it; file system under and
around the root) is compared with the value TLC computed for the property level.  An observation that
contradicts the property level but equals the as-built prediction is attributed to the named
deviation that fired (a candidate / known finding); anything else is an unexplained violation.
Which deviations the tree under test has is observed by seven probes and handed to TLC as `Dev`.
"""
import builtins
import io
import json
import os
import shutil
import sys
import time
from concurrent.futures import ThreadPoolExecutor

from harness import tlc
from harness.common import (VERIF, MachineryError, Verdict, import_trimesh, pmap, seed,
                            tier_from_args)

PROP = "X02"
SBX = os.path.join(VERIF, ".work", "x02", "sbx-%d" % os.getpid())

CFG = """CONSTANTS
  Kind = "{kind}"
  Names <- {names}
  NSs = {{"t"}}
  Toks = {toks}
  WForms = {wforms}
  LoadRefs <- {refs}
  MaxV = {maxv}
  MaxPre = 2
  MaxDepth = {depth}
  NoneArchive = {none}
  Dirs0 <- {dirs0}
  Dev = {dev}
  Mut = "{mut}"
  Snap = {snap}
SPECIFICATION Spec
{view}
{invs}
CHECK_DEADLOCK FALSE
"""
PROPS = ["GetReturnsLastWritten", "KeysListExactlyPresent", "WriteOutcome", "ViewsShareStore",
         "ExportRoundTrips", "LoadFindsAssets", "Confined", "TypeOK"]
ALL_DEV = ["ZipWriteIgnoresNamespace", "ZipGetPrefersRawKey", "ZipNestedNamespaceReplaces",
           "ZipNoneArchiveUnshared", "ZipExportConsumesStreams", "ZipWriteKeywordNames",
           "FileKeysLeadingSeparator", "FileNamespacedMissingDirIsParent"]


def cfg(kind="zip", names="Names3", toks="{1,3}", wforms='{"b"}', refs="NoNames", maxv=3, depth=3,
        none=False, dirs0="DirsNone", dev=(), mut="", snap=False, view=True, invs=PROPS):
    b = lambda x: "TRUE" if x else "FALSE"
    return CFG.format(kind=kind, names=names, toks=toks, wforms=wforms, refs=refs, maxv=maxv, depth=depth,
                      none=b(none), dirs0=dirs0, dev="{" + ",".join('"%s"' % d for d in sorted(dev)) + "}",
                      mut=mut, snap=b(snap), view="VIEW View" if view else "",
                      invs="\n".join("INVARIANT " + i for i in invs))


# ------------------------------------------------------------------ which deviations does this tree have
def observe_deviations(trimesh):
    """Seven probes with plain trimesh calls; the result is the constant Dev of the as-built layer."""
    R, U = trimesh.resolvers, trimesh.util
    dev, notes = set(), {}

    def probe(name, fn):
        try:
            if fn():
                dev.add(name)
        except BaseException as e:  # noqa - a probe that cannot run says nothing
            notes[name] = "probe raised %s" % type(e).__name__

    def p1():
        a = {}
        R.ZipResolver(a).namespaced("t").write("k", b"1")
        return "t/k" not in a
    probe("ZipWriteIgnoresNamespace", p1)
    probe("ZipGetPrefersRawKey", lambda: R.ZipResolver({"k": b"1", "t/k": b"2"}).namespaced("t").get("k") != b"2")
    probe("ZipNestedNamespaceReplaces", lambda: R.ZipResolver({}).namespaced("t").namespaced("u").namespace != "t/u/")
    probe("ZipNoneArchiveUnshared", lambda: R.ZipResolver().archive is None)

    def p5():
        z = R.ZipResolver({"k": io.BytesIO(b"1")})
        z.export()
        return U.decompress(z.export(), "zip")["k"].read() != b"1"
    probe("ZipExportConsumesStreams", p5)

    def p6():
        try:
            R.ZipResolver({}).write(name="k", data=b"1")
        except TypeError:
            return True
        return False
    probe("ZipWriteKeywordNames", p6)
    d = os.path.join(SBX, "probe")
    shutil.rmtree(d, ignore_errors=True)
    os.makedirs(os.path.join(d, "t"))
    with open(os.path.join(d, "t", "k"), "wb") as f:
        f.write(b"1")
    probe("FileKeysLeadingSeparator", lambda: "t/k" not in set(R.FilePathResolver(d).keys()))
    probe("FileNamespacedMissingDirIsParent",
          lambda: os.path.realpath(R.FilePathResolver(d).namespaced("u").parent) != os.path.realpath(os.path.join(d, "u")))
    shutil.rmtree(d, ignore_errors=True)
    return dev, notes


# ------------------------------------------------------------------ payloads (token -> real bytes)
_P = {}


def payloads():
    """token -> bytes; 0 empty, 1/2 MTL texts naming the textures t/b.bin and ./a.bin, 3.. PNG images.
    The bytes depend on VERIF_SEED; the texts contain a non-ASCII character (utf-8 round trip)."""
    if _P:
        return _P
    from PIL import Image
    sd = seed()
    mtl = "# x02 é世 seed %d\nnewmtl mat0\nKd 0.2 0.4 0.6\nmap_Kd %s\n"
    tok = {0: b"", 1: (mtl % (sd, "t/b.bin")).encode("utf-8"), 2: (mtl % (sd, "./a.bin")).encode("utf-8")}
    colour = {}
    for k in (3, 4, 5):
        c = (10 * k + sd % 7, 20 + sd % 5, 30)
        b = io.BytesIO()
        Image.new("RGB", (2, 2), c).save(b, format="PNG")
        tok[k] = b.getvalue()
        colour[c] = k
    _P.update({"tok": tok, "rev": {v: k for k, v in tok.items()}, "colour": colour})
    return _P


def tok_of(x):
    """returned value -> (token, form)"""
    P = payloads()
    if isinstance(x, str):
        return P["rev"].get(x.encode("utf-8"), -2), "s"
    if isinstance(x, (bytes, bytearray)):
        return P["rev"].get(bytes(x), -2), "b"
    return -2, type(x).__name__


def name_of(n):
    return "/".join(n)


OBJ = "mtllib %s\nv 0 0 0\nv 1 0 0\nv 0 1 0\nvt 0 0\nvt 1 0\nvt 0 1\nusemtl mat0\nf 1/1 2/2 3/3\n"


# ------------------------------------------------------------------ adapter
class World:
    """The real objects of one behaviour: resolver objects by slot, the sandbox of a file behaviour."""

    def __init__(self, trimesh, beh, idx):
        self.tm = trimesh
        self.R = trimesh.resolvers
        self.kind = beh["kind"]
        self.variant = idx + seed()
        self.opened = []
        if self.kind == "zip":
            if beh["none"]:
                root = self.R.ZipResolver()
            else:
                root = self.R.ZipResolver({}) if self.variant % 2 else self.R.ZipResolver(archive={})
        else:
            self.base = os.path.join(SBX, "b%d" % idx)
            shutil.rmtree(self.base, ignore_errors=True)
            self.root = os.path.join(self.base, "root")
            os.makedirs(self.root)
            self.rroot = os.path.realpath(self.root)
            self.pre = {}
            self.checked = 0
            # decoys next to the root carrying the very names used inside: a resolver that climbs out finds them
            os.makedirs(os.path.join(self.base, "t"))
            for rel in ("a.bin", "A.bin", "b.bin", "t/b.bin"):
                with open(os.path.join(self.base, rel), "wb") as f:
                    f.write(b"decoy " + rel.encode())
            for dd in sorted(beh["dirs0"] or [], key=len):
                os.makedirs(os.path.join(self.root, *dd), exist_ok=True)
            self.outside0 = self.outside()
            root = self.R.FilePathResolver(self.root if self.variant % 2 else self.root + "/")
        self.slots = {1: root}

    def close(self):
        if self.kind == "file":
            shutil.rmtree(self.base, ignore_errors=True)

    def outside(self):
        out = {}
        for path, dirs, names in os.walk(self.base):
            if path == self.root:
                dirs[:] = []
                continue
            for nm in names:
                p = os.path.join(path, nm)
                with open(p, "rb") as f:
                    out[os.path.relpath(p, self.base)] = f.read()
        return out

    # --- one public operation each; returns the observation in the shape the spec emits
    def call(self, fn):
        """run fn with builtins.open watched; -> (value, exception name or None)"""
        real_open = builtins.open
        log = self.opened

        def spy(file, *a, **k):
            # only what the resolver module itself opens (the loaders read their own resources)
            if isinstance(file, (str, os.PathLike)) and sys._getframe(1).f_globals.get("__name__") == "trimesh.resolvers":
                log.append(os.fspath(file))
            return real_open(file, *a, **k)
        builtins.open = spy
        try:
            return fn(), None
        except Exception as e:  # noqa
            return None, type(e).__name__
        finally:
            builtins.open = real_open

    def write(self, st, i):
        r = self.slots[st["v"]]
        raw = payloads()["tok"][st["t"]]
        data = raw if st["f"] in ("b", "kb") else raw.decode("utf-8") if st["f"] == "s" else io.BytesIO(raw)
        nm = name_of(st["n"])
        if st["f"] == "kb":
            # the spelling of the abstract interface, used by trimesh.exchange.export.export_mesh
            _, exc = self.call(lambda: r.write(name=nm, data=data))
        elif (self.variant + i) % 2:
            _, exc = self.call(lambda: r.write(nm, data))
        else:
            _, exc = self.call(lambda: r.__setitem__(nm, data))
        return {"exc": exc is not None, "val": 0}, exc

    def get(self, v, n, i=0):
        r = self.slots[v]
        nm = name_of(n)
        val, exc = self.call((lambda: r.get(nm)) if (self.variant + i) % 2 else (lambda: r[nm]))
        if exc is not None:
            return {"exc": True, "val": -1, "form": "-"}, exc
        t, f = tok_of(val)
        return {"exc": False, "val": t, "form": f}, None

    def keys(self, v):
        r = self.slots[v]
        val, exc = self.call(lambda: list(r.keys()))
        if exc is not None:
            return {"exc": True, "val": []}, exc
        return {"exc": False, "val": sorted(x if isinstance(x, str) else repr(x) for x in val)}, None

    def contains(self, v, nm):
        val, exc = self.call(lambda: nm in self.slots[v])
        return val if exc is None else exc

    def namespaced(self, st):
        val, exc = self.call(lambda: self.slots[st["v"]].namespaced(st["s"]))
        if exc is not None:
            return exc
        self.slots[st["w"]] = val
        return None

    def export(self, st, i):
        U = self.tm.util

        def go():
            data = self.slots[st["v"]].export()
            if not isinstance(data, bytes):
                raise MachineryError("export() returned %s" % type(data).__name__)
            src = data if (self.variant + i) % 2 else U.wrap_as_stream(data)
            return self.R.ZipResolver(U.decompress(src, "zip"))
        val, exc = self.call(go)
        if exc is not None:
            return exc
        self.slots[st["w"]] = val
        return None

    def load(self, st):
        text = OBJ % name_of(st["n"])
        r = self.slots[st["v"]]
        val, exc = self.call(lambda: self.tm.load(io.BytesIO(text.encode("utf-8")), file_type="obj", resolver=r))
        if exc is not None:
            return {"any": False, "mtl": False, "tex": -3}, exc
        try:
            import numpy as np
            mat = val.visual.material
            found = [int(x) for x in list(mat.diffuse)[:3]] == [51, 102, 153]
            tex = 0
            if found and getattr(mat, "image", None) is not None:
                px = tuple(int(x) for x in np.asarray(mat.image.convert("RGB"))[0, 0])
                tex = payloads()["colour"].get(px, -2)
            return {"any": False, "mtl": found, "tex": tex}, None
        except Exception as e:  # noqa
            return {"any": False, "mtl": False, "tex": -3}, "projection:" + type(e).__name__

    # --- projection of the real state (no public call involved)
    def state(self, nview):
        """-> ideal-shaped  [(prefix, {key: tok})] per slot and as-built-shaped
        ([(archive label, prefix)], {label: {key: (tok, form)}}) with labels numbered by first use."""
        ideal, views, heaps = [], [], {}
        if self.kind == "zip":
            label = {}
            for v in range(1, nview + 1):
                r = self.slots[v]
                a = r.archive
                ns = (r.namespace or "")
                pre = ns[:-1] if ns.endswith("/") else ns
                if a is None:
                    views.append((0, pre))
                    ideal.append((pre, {}))
                    continue
                lab = label.setdefault(id(a), len(label) + 1)
                if lab not in heaps:
                    h = {}
                    for k, x in a.items():
                        k = k if isinstance(k, str) else repr(k)
                        if hasattr(x, "getvalue"):
                            raw = x.getvalue()
                            pos = x.tell()
                            raw = raw.encode("utf-8") if isinstance(raw, str) else raw
                            f = "io0" if pos == 0 else "ioE" if pos == len(x.getvalue()) else "ioM"
                            if len(raw) == 0:
                                f = "io0"
                            h[k] = (payloads()["rev"].get(raw, -2), f)
                        else:
                            h[k] = tok_of(x)
                    heaps[lab] = h
                views.append((lab, pre))
                ideal.append((pre, {k: t for k, (t, _) in heaps[lab].items()}))
            return ideal, views, heaps, None
        fs, dirs = {}, set()
        for path, dn, names in os.walk(self.root):
            rel = os.path.relpath(path, self.root)
            for x in dn:
                dirs.add(os.path.normpath(os.path.join(rel, x)))
            for nm in names:
                p = os.path.join(path, nm)
                with open(p, "rb") as f:
                    fs[os.path.normpath(os.path.join(rel, nm))] = (payloads()["rev"].get(f.read(), -2), "b")
        heaps[1] = fs
        for v in range(1, nview + 1):
            par = self.slots[v].parent
            if (v, par) not in self.pre:
                pre = os.path.relpath(os.path.realpath(par), self.rroot)
                self.pre[(v, par)] = "" if pre == "." else pre
            pre = self.pre[(v, par)]
            views.append((1, pre))
            ideal.append((pre, {k: t for k, (t, _) in fs.items()}))
        return ideal, views, heaps, dirs


def spec_state(ent):
    """the two states TLC put into a history entry, in the shapes World.state returns"""
    ist, ast = ent["ist"], ent["ast"]
    stores = ist["stores"] if isinstance(ist["stores"], list) else []
    ideal = []
    for vw in ist["views"]:
        ideal.append((name_of(vw["pre"]), {name_of(e["k"]): e["t"] for e in stores[vw["fam"] - 1]}))
    hp = ast["heaps"] if isinstance(ast["heaps"], list) else []
    label, views, heaps = {}, [], {}
    for vw in ast["views"]:
        if vw["aid"] == 0:
            views.append((0, name_of(vw["ns"])))
            continue
        lab = label.setdefault(vw["aid"], len(label) + 1)
        # an empty file object is at its start and at its end at once
        heaps[lab] = {name_of(e["k"]): (e["t"], "io0" if (e["t"] == 0 and e["f"].startswith("io")) else e["f"])
                      for e in hp[vw["aid"] - 1]}
        views.append((lab, name_of(vw["ns"])))
    return ideal, views, heaps, {name_of(d) for d in (ent["dirs"] or [])}


def keyset(val):
    return sorted(name_of(k) for k in (val or []))


def replay_one(trimesh, beh, idx):
    """-> (failures, steps compared, drift).  A failure is {clause, deviation, ...}; replay goes on after
    a failure explained by a fired deviation and stops at the first unexplained one."""
    fails, ncmp, drift = [], 0, 0
    W = World(trimesh, beh, idx)
    names = sorted({name_of(g["n"]) for g in beh["gets"]})

    def judge(clause, i, obs, exp, asb, fired, extra=None, core=lambda x: x):
        """obs = (property-level shape, as-built shape) of the observation; exp: what the property level
        demands; asb: what the as-built layer predicts.  `core` strips from an as-built shape what the
        property level leaves open (whether a text comes back as str or bytes, read positions): a
        contradiction is explained by a fired deviation iff the cores agree; the rest is model drift."""
        nonlocal ncmp, drift
        ncmp += 1
        if obs[0] == exp:
            if obs[1] != asb:
                drift += 1
            return True
        dev = fired[-1] if (fired and core(obs[1]) == core(asb)) else None
        rec = {"clause": clause, "deviation": dev, "step": i, "observed": obs[1], "expected": exp,
               "as_built": asb, "fired": fired}
        rec.update(extra or {})
        fails.append(rec)
        return dev is not None

    getcore = lambda g: (g["exc"], g["val"])
    statecore = lambda x: (x[0], {a: {k: t for k, (t, _) in h.items()} for a, h in x[1].items()})
    try:
        for i, ent in enumerate(beh["h"]):
            st, fired = ent["step"], ent["fired"] or []
            op = st["op"]
            go = True
            if op == "write":
                obs, exc = W.write(st, i)
                go = judge("WriteOutcome", i, (obs, obs), st["exp"], st["asb"], fired, {"exc": exc})
            elif op == "get":
                obs, exc = W.get(st["v"], st["n"], i)
                go = judge("GetReturnsLastWritten", i, ({"exc": obs["exc"], "val": obs["val"]}, obs),
                           st["exp"], st["asb"], fired, {"exc": exc, "name": name_of(st["n"])}, getcore)
            elif op == "keys":
                obs, exc = W.keys(st["v"])
                want = {"exc": st["exp"]["exc"], "val": keyset(st["exp"]["val"])}
                asb = {"exc": st["asb"]["exc"], "val": keyset(st["asb"]["val"])}
                go = judge("KeysListExactlyPresent", i, (obs, obs), want, asb, fired, {"exc": exc})
                if go and not want["exc"]:
                    # `name in resolver` for every name of the universe
                    got = {n: W.contains(st["v"], n) for n in names}
                    go = judge("ContainsMatchesKeys", i, (got, got), {n: n in want["val"] for n in names},
                               {n: ("AttributeError" if asb["exc"] else n in asb["val"]) for n in names}, fired)
            elif op == "namespaced":
                exc = W.namespaced(st)
                if exc is not None:
                    fails.append({"clause": "NamespacedReturns", "deviation": None, "step": i, "exc": exc})
                    go = False
            elif op == "export":
                exc = W.export(st, i)
                if exc is not None:
                    fails.append({"clause": "ExportRoundTrips", "deviation": None, "step": i, "exc": exc})
                    go = False
            elif op == "load":
                obs, exc = W.load(st)
                go = judge("LoadFindsAssets", i, (obs, obs), st["exp"], st["asb"], fired,
                           {"exc": exc, "mtllib": name_of(st["n"])})
            elif op == "mkdir":
                os.mkdir(os.path.join(W.root, *st["d"]))
            else:
                raise MachineryError("unknown op " + op)
            if not go:
                break
            # the state of every live object after the step
            nview = len(ent["ist"]["views"])
            r_ideal, r_views, r_heaps, r_dirs = W.state(nview)
            s_ideal, s_views, s_heaps, s_dirs = spec_state(ent)
            clause = {"write": "ViewsShareStore", "get": "ViewsShareStore(get creates nothing)",
                      "export": "ExportRoundTrips", "namespaced": "ViewsShareStore(prefix of the view)"}.get(op, "ViewsShareStore")
            go = judge(clause, i, (r_ideal, (r_views, r_heaps)), s_ideal, (s_views, s_heaps), fired, {"op": op}, statecore)
            if go and W.kind == "file":
                if r_dirs != s_dirs:
                    fails.append({"clause": "DirectoriesUnchanged", "deviation": None, "step": i,
                                  "observed": sorted(r_dirs), "expected": sorted(s_dirs)})
                    go = False
                if (st["op"] in ("write", "get") or i == len(beh["h"]) - 1) and W.outside() != W.outside0:
                    fails.append({"clause": "Confined(write outside the root)", "deviation": None, "step": i})
                    go = False
                bad = [p for p in W.opened[W.checked:]
                       if not (os.path.abspath(p) + "/").startswith(W.root + "/")]
                W.checked = len(W.opened)
                if bad:
                    fails.append({"clause": "Confined(open outside the root)", "deviation": None, "step": i, "paths": bad[:3]})
                    go = False
            if not go:
                break
        else:
            # closing sweep: keys() of every object, then get of every name through every object
            for v, kk in enumerate(beh["keys"], start=1):
                fired = kk["fired"] or []
                obs, exc = W.keys(v)
                want = {"exc": kk["exp"]["exc"], "val": keyset(kk["exp"]["val"])}
                asb = {"exc": kk["asb"]["exc"], "val": keyset(kk["asb"]["val"])}
                if not judge("KeysListExactlyPresent(sweep)", -1, (obs, obs), want, asb, fired, {"view": v, "exc": exc}):
                    break
            else:
                for g in beh["gets"]:
                    fired = g["fired"] or []
                    obs, exc = W.get(g["v"], g["n"])
                    if not judge("GetReturnsLastWritten(sweep)", -1, ({"exc": obs["exc"], "val": obs["val"]}, obs),
                                 g["exp"], g["asb"], fired, {"view": g["v"], "name": name_of(g["n"]), "exc": exc}, getcore):
                        break
    finally:
        W.close()
    return fails, ncmp, drift


def _replay_chunk(chunk):
    trimesh = import_trimesh()
    out, ncmp, drift, nstep = [], 0, 0, 0
    for idx, beh in chunk:
        f, c, dr = replay_one(trimesh, beh, idx)
        ncmp += c
        drift += dr
        nstep += len(beh["h"])
        if f:
            out.append({"behaviour": [e["step"] for e in beh["h"]], "kind": beh["kind"], "none": beh["none"],
                        "dirs0": beh["dirs0"], "fails": f})
    return out, ncmp, drift, nstep, len(chunk)


# ------------------------------------------------------------------ spec self-tests
# (deviation or mutant, kind, property TLC must report, config)
SELFTESTS = [
    ("dev", "ZipWriteIgnoresNamespace", "ViewsShareStore", dict(kind="zip", names="Names2", toks="{3}", depth=4)),
    ("dev", "ZipWriteIgnoresNamespace", "LoadFindsAssets", dict(kind="zip", names="Refs1", toks="{1}", refs="Refs1", depth=5)),
    ("dev", "ZipGetPrefersRawKey", "GetReturnsLastWritten", dict(kind="zip", names="Names2", toks="{3,4}", depth=6, maxv=2)),
    ("dev", "ZipNestedNamespaceReplaces", "ViewsShareStore", dict(kind="zip", names="Names2", toks="{3}", depth=4)),
    ("dev", "ZipNoneArchiveUnshared", "KeysListExactlyPresent", dict(kind="zip", names="Names2", toks="{3}", depth=3, none=True)),
    ("dev", "ZipNoneArchiveUnshared", "ViewsShareStore", dict(kind="zip", names="Names2", toks="{3}", depth=4, none=True)),
    ("dev", "ZipExportConsumesStreams", "ExportRoundTrips", dict(kind="zip", names="Names2", toks="{3}", wforms='{"io"}', depth=5)),
    ("dev", "ZipWriteKeywordNames", "WriteOutcome", dict(kind="zip", names="Names2", toks="{3}", wforms='{"kb"}', depth=3)),
    ("dev", "FileKeysLeadingSeparator", "KeysListExactlyPresent", dict(kind="file", names="Names2", toks="{3}", depth=4, dirs0="DirsT")),
    ("dev", "FileNamespacedMissingDirIsParent", "ViewsShareStore", dict(kind="file", names="Names2", toks="{3}", depth=3)),
    ("dev", "FileNamespacedMissingDirIsParent", "WriteOutcome", dict(kind="file", names="Names2", toks="{3}", depth=4)),
    ("mut", "StaleKeys", "KeysListExactlyPresent", dict(kind="zip", names="Names2", toks="{3}", depth=5)),
    ("mut", "GetCreates", "ViewsShareStore", dict(kind="file", names="Names2", toks="{3}", depth=3)),
    ("mut", "CaseFold", "GetReturnsLastWritten", dict(kind="zip", names="NamesCase", toks="{3}", depth=4)),
    ("mut", "ExportDropsDirs", "ExportRoundTrips", dict(kind="zip", names="Names2", toks="{3}", depth=4)),
    ("mut", "WriteThroughCopy", "ViewsShareStore", dict(kind="zip", names="Names2", toks="{3}", depth=3)),
]


JO_SMALL = ["-Xmx1g", "-XX:ParallelGCThreads=2", "-XX:CICompilerCount=2"]
JO_MC = ["-Xmx2g", "-XX:ParallelGCThreads=4"]


def run_selftest(item):
    what, name, prop, kw = item
    d = tlc.prepare("x02/self_%s_%s" % (name, prop))
    kw = dict(kw)
    kw["dev" if what == "dev" else "mut"] = [name] if what == "dev" else name
    r = tlc.run(d, "Resolvers", cfg(invs=[prop], **kw), workers=1, timeout=600, java_opts=JO_SMALL)
    return name, prop, r


# ------------------------------------------------------------------ main
def main(argv):
    tier = tier_from_args(argv)
    quick = tier == "quick"
    V = Verdict(PROP, tier)
    accept = [x for x in os.environ.get("X02_ACCEPT", "").split(",") if x]
    for a in (ALL_DEV if accept == ["all"] else accept):
        # binding validation only: treat a candidate finding as listed, so that the exit code says whether
        # anything ELSE is wrong (used with bin/try_patch; never set by bin/check or the manifest)
        V.known.setdefault(a, {"id": a, "description": "accepted for this run through X02_ACCEPT"})
    trimesh = import_trimesh()
    os.makedirs(SBX, exist_ok=True)
    import atexit
    atexit.register(lambda p=os.getpid(): os.getpid() == p and shutil.rmtree(SBX, ignore_errors=True))
    # the sandbox must live on a case-sensitive file system ('a.bin' and 'A.bin' are different names)
    open(os.path.join(SBX, "case"), "w").close()
    if os.path.exists(os.path.join(SBX, "CASE")):
        raise MachineryError("scratch file system is not case sensitive")
    t_cpu0 = os.times()
    cov = {"tlc_runs": []}
    states = trans = 0
    par = 5 if quick else 4          # TLC processes alive at once (small heaps: the machine is shared)

    def note(name, r):
        nonlocal states, trans
        states += r.distinct
        trans += r.generated
        cov["tlc_runs"].append({"run": name, "distinct": r.distinct, "generated": r.generated,
                                "depth": r.depth, "wall_s": round(r.wall, 1)})

    dev, notes = observe_deviations(trimesh)
    zdev = sorted(d for d in dev if d.startswith("Zip"))
    fdev = sorted(d for d in dev if d.startswith("File"))
    cov["deviations_observed_on_tree"] = sorted(dev)
    if notes:
        cov["probe_notes"] = notes

    # ---- 1. model checking of the intended design (Dev = {}): every property holds
    jobs = []
    if quick:
        jobs.append(("mc zip depth=4", dict(kind="zip", names="Names3", toks="{1,3}", wforms='{"b","io"}', refs="Refs1", depth=4)))
        jobs.append(("mc zip None archive depth=4", dict(kind="zip", names="Names2", toks="{3}", depth=4, none=True)))
        jobs.append(("mc file depth=5", dict(kind="file", names="Names3", toks="{1,3}", refs="Refs1", depth=5)))
    else:
        jobs.append(("mc zip depth=5", dict(kind="zip", names="Names3", toks="{1,3}", wforms='{"b","io"}', refs="Refs1", depth=5)))
        jobs.append(("mc zip all names depth=4", dict(kind="zip", names="NamesAll", toks="{1,2,3}", wforms='{"b","s","io"}', refs="Refs2", depth=4)))
        jobs.append(("mc zip None archive depth=5", dict(kind="zip", names="Names2", toks="{3}", depth=5, none=True)))
        jobs.append(("mc file depth=6", dict(kind="file", names="Names3", toks="{1,3}", refs="Refs1", depth=6)))
        jobs.append(("mc file all names depth=4", dict(kind="file", names="NamesAll", toks="{1,2,3}", wforms='{"b","s"}', refs="Refs2", depth=4, dirs0="DirsT")))
        # the history-dependent sanity property of the ideal layer needs runs without VIEW (the quick tier
        # checks it inside the emission runs that enumerate all histories)
        jobs.append(("ideal layer = last successful write per key (zip, all histories depth 4)",
                     dict(kind="zip", names="Names2", toks="{3,4}", depth=4, view=False, invs=["IdealLastWritten"])))
        jobs.append(("ideal layer = last successful write per key (file, all histories depth 4)",
                     dict(kind="file", names="Names2", toks="{3,4}", depth=4, dirs0="DirsT", view=False, invs=["IdealLastWritten"])))

    def mc(job):
        name, kw = job
        d = tlc.prepare("x02/mc_" + "".join(c for c in name if c.isalnum()))
        return name, tlc.run(d, "Resolvers", cfg(**kw), workers=4, timeout=1500, java_opts=JO_MC)

    with ThreadPoolExecutor(max_workers=2 if quick else 3) as ex:
        for name, r in ex.map(mc, jobs):
            tlc.must(r, name)
            note(name, r)

    # ---- spec self-tests: each deviation / mutant makes TLC report the property named for it
    selftests = {}
    todo = SELFTESTS
    if quick:
        # one demonstration per property (which deviation is used rotates with the seed); thorough runs all
        todo = []
        for prop in PROPS[:6]:
            cands = [t for t in SELFTESTS if t[2] == prop]
            todo.append(cands[seed() % len(cands)])
    with ThreadPoolExecutor(max_workers=par) as ex:
        for name, prop, r in ex.map(run_selftest, todo):
            selftests["%s -> %s" % (name, prop)] = r.violated
            if r.violated != prop:
                raise MachineryError("spec self-test %s: expected %s to be reported, got %s %s\n%s"
                                     % (name, prop, r.violated, r.error, r.stdout[-1500:]))
            states += r.distinct
            trans += r.generated
    cov["spec_selftests"] = selftests
    # the as-built layer with the deviations of this tree must not satisfy the properties (else the
    # model no longer explains the candidate findings)
    for kind, dv in (("zip", zdev), ("file", fdev)):
        if dv and not quick:
            d = tlc.prepare("x02/asbuilt")
            r = tlc.run(d, "Resolvers", cfg(kind=kind, names="Names2", toks="{3,4}", depth=5, dev=dv),
                        workers=2, timeout=600, java_opts=JO_SMALL)
            cov["as_built_%s_first_property_reported" % kind] = r.violated
            if r.violated is None:
                raise MachineryError("as-built %s model satisfies every property although deviations were observed" % kind)

    # ---- 2. behaviours emitted by TLC (as-built layer of this tree switched on, both answers per step)
    sd = seed()
    nsim = 10 if quick else 100
    dsim = 8 if quick else 10
    allf = '{"b","s","io","kb"}'
    E = [  # (label, cfg kwargs, invariant, simulate?)
        ("zip all histories depth 3", dict(kind="zip", names="Names2", toks="{1,3}", wforms='{"b","io","kb"}', refs="Refs1", depth=3, dev=zdev, view=False), "EmitLeaf", None),
        ("zip None archive state cover", dict(kind="zip", names="Names2", toks="{3,4}", depth=3 if quick else 5, none=True, dev=zdev), "EmitAll", None),
        ("zip case and dot names all histories depth 3", dict(kind="zip", names="NamesCD", toks="{3,4}", depth=3, maxv=2, dev=zdev, view=False), "EmitLeaf", None),
        ("zip simulated", dict(kind="zip", names="NamesAll", toks="{1,2,3,4}", wforms=allf, refs="NamesAll", maxv=4, depth=dsim, dev=zdev, view=False), "EmitLeaf", nsim),
        ("file all histories depth 3", dict(kind="file", names="Names2", toks="{1,3}", wforms='{"b","s"}', refs="Refs1", depth=3, dirs0="DirsT", dev=fdev, view=False), "EmitLeaf", None),
        ("file state cover from an empty root", dict(kind="file", names="Names3", toks="{1,3}", refs="Refs1", depth=4 if quick else 5, dev=fdev), "EmitAll", None),
        ("file case and dot names all histories depth 3", dict(kind="file", names="NamesCD", toks="{3,4}", depth=3, maxv=2, dirs0="DirsT", dev=fdev, view=False), "EmitLeaf", None),
        ("file simulated", dict(kind="file", names="NamesAll", toks="{1,2,3,4}", wforms='{"b","s","kb"}', refs="NamesAll", maxv=4, depth=dsim, dirs0="DirsT", dev=fdev, view=False), "EmitLeaf", nsim),
        ("file simulated from an empty root", dict(kind="file", names="NamesAll", toks="{1,2,3,4}", wforms='{"b","s"}', refs="NamesAll", maxv=4, depth=dsim, dev=fdev, view=False), "EmitLeaf", nsim),
    ]
    if not quick:
        E += [
            ("zip state cover depth 4", dict(kind="zip", names="Names3", toks="{1,3}", wforms='{"b","io"}', refs="Refs1", depth=4, dev=zdev), "EmitAll", None),
            ("zip all names all histories depth 3", dict(kind="zip", names="NamesAll", toks="{3,4}", wforms='{"b","io"}', depth=3, dev=zdev, view=False), "EmitLeaf", None),
            ("file all names all histories depth 3", dict(kind="file", names="NamesAll", toks="{3,4}", depth=3, dirs0="DirsTT", dev=fdev, view=False), "EmitLeaf", None),
            ("file state cover depth 5", dict(kind="file", names="Names4", toks="{1,2,3}", wforms='{"b","s"}', refs="RefsDot", depth=5, dev=fdev), "EmitAll", None),
        ]

    def emit(job):
        label, kw, inv, sim = job
        d = tlc.prepare("x02/emit_" + "".join(c for c in label if c.isalnum()))
        invs = [inv] + ([] if kw.get("view", True) else ["IdealLastWritten"])
        if sim:
            r = tlc.run(d, "Resolvers", cfg(snap=True, invs=invs, **kw), workers=1, simulate="num=%d" % sim,
                        depth=kw["depth"] + 1, seed=sd + 11, timeout=1500, java_opts=JO_SMALL)
            if r.violated or (r.error and r.error != "timeout"):
                raise MachineryError("simulation %s failed: %s %s\n%s" % (label, r.violated, r.error, r.stdout[-1500:]))
        else:
            r = tlc.must(tlc.run(d, "Resolvers", cfg(snap=True, invs=invs, **kw), workers=1, timeout=1500,
                                 java_opts=JO_SMALL), label)
        got = [b for b in r.printed if isinstance(b, dict) and "h" in b]
        r.stdout, r.printed = "", []
        return label, r, got

    # ---- 3. replay, one emission at a time (the behaviours of a run are dropped once replayed)
    per, ops, explained, kept, samples = {}, {}, {}, {}, []
    ncmp = drift = nstep = nbeh = 0
    replay_cpu = replay_wall = 0.0
    with ThreadPoolExecutor(max_workers=par) as ex:
        for label, r, got in ex.map(emit, E):
            note("emit " + label, r)
            per[label] = len(got)
            if len(got) < (nsim if "simulated" in label else 100):
                raise MachineryError("emission '%s' too small: %d behaviours" % (label, len(got)))
            samples.append([e["step"] for e in got[len(got) // 2]["h"]])
            for bh in got:
                for e in bh["h"]:
                    ops[e["step"]["op"]] = ops.get(e["step"]["op"], 0) + 1
            t0, tr0 = time.time(), os.times()
            results = pmap(_replay_chunk, list(enumerate(got, start=nbeh)))
            tr1 = os.times()
            replay_wall += time.time() - t0
            replay_cpu += tr1.children_user + tr1.children_system - tr0.children_user - tr0.children_system
            if sum(x[4] for x in results) != len(got):
                raise MachineryError("replay lost behaviours of '%s'" % label)
            ncmp += sum(x[1] for x in results)
            drift += sum(x[2] for x in results)
            nstep += sum(x[3] for x in results)
            nbeh += len(got)
            for out, *_ in results:
                for rec in out:
                    for f in rec["fails"]:
                        dv = f.get("deviation")
                        key = (f["clause"], dv)
                        kept[key] = kept.get(key, 0) + 1
                        if dv:
                            explained[dv] = explained.get(dv, 0) + 1
                        if kept[key] > (40 if dv else 400):
                            continue               # counted; the record would only repeat what is already kept
                        detail = {"kind": rec["kind"], "none_archive": rec["none"], "dirs0": rec["dirs0"],
                                  "behaviour": rec["behaviour"], "fail": f}
                        V.violation(f["clause"], detail, dv)
            del got, results
    cov["behaviours"] = per
    cov["replay_cpu_s"] = round(replay_cpu, 1)
    cov["contradicting_observations"] = {"%s / %s" % (c, d or "UNEXPLAINED"): n for (c, d), n in sorted(kept.items(), key=str)}
    if ncmp < 5 * nbeh:
        raise MachineryError("replay compared too little: %d behaviours, %d comparisons" % (nbeh, ncmp))
    if min(ops.get(o, 0) for o in ("write", "get", "keys", "namespaced", "export", "load", "mkdir")) < 20:
        raise MachineryError("an operation is (nearly) absent from the emitted behaviours: %s" % ops)
    t_cpu1 = os.times()
    cov.update({
        "states": states, "transitions": trans,
        "traces_validated_against_impl": nbeh,
        "steps_replayed": nstep,
        "values_and_states_compared": ncmp,
        "operations_replayed": ops,
        "observations_explained_by_a_fired_deviation": explained,
        "model_drift": drift,
        "replay_wall_s": round(replay_wall, 1),
        "cpu_s": round((t_cpu1.user + t_cpu1.system + t_cpu1.children_user + t_cpu1.children_system)
                       - (t_cpu0.user + t_cpu0.system + t_cpu0.children_user + t_cpu0.children_system), 1),
        "exhaustive": True,
        "samples": samples[:6],
    })
    return V.finish("model_checking", cov, assumptions=[
        "names from {a.bin, A.bin, ./a.bin, t/b.bin, b.bin}, one namespace 't' nested at most twice, at most 4 resolver objects, payloads: two MTL texts and three PNG images",
        "no '..', blanks, backslashes or %20 in names (the corresponding nearby_names branches are not modelled)",
        "accepted as built: FilePathResolver.write raises for a missing sub-directory (nothing stored); ZipResolver.get hands a str payload back as str before an export (content compared, type not); get falls back to './'-stripped and bare file names inside the view",
        "export() is only taken from un-namespaced ZipResolver objects with an archive",
        "WebResolver / GithubResolver not covered (no network)",
    ])


if __name__ == "__main__":
    try:
        sys.exit(main(sys.argv[1:]))
    except MachineryError as e:
        print("MACHINERY-ERROR:", e)
        sys.exit(2)
