"""C01 - derived mesh values never go stale.

spec/MeshCache.tla models the hash-keyed memo cache of a Trimesh and the library mutators
that keep / transport keys across a mutation.  At check time the harness *observes* on the
tree under test which keys each mutator leaves in the cache (Keep) and asks TLC for the
specification's dependency table (Valid, spec/MeshDeps.tla).  TLC model-checks NoStaleRead
for the intended design, derives the predicted findings of the observed design, and emits
every class-level history (reads, library mutators, user edits, copies) up to a depth.
Every history is replayed on real meshes: each read - and a closing sweep over every public
property and a battery of ray / proximity queries - is compared with the same read on a
mesh freshly built from the current arrays (and overrides).  Only such value mismatches are
violations (a mutator or copy that raises although the same call succeeds on the fresh mesh counts
as one: the specification's actions are enabled whatever has been read before).

Audit families (pair sweep style, enumerated in main): a seed on which the cleaning mutators really
remove faces / vertices; mutators outside the TLC classes (XMUT: singular and negative-scale matrices,
empty / int32 / list masks, repair functions, units, oriented box, non-finite data, reassignments that
change the element counts); two library mutators in a row in both orders; copies as reads (q:copy);
reads left out of the introspected key list (EXTRA_KEYS); every in-place edit route of the tracked
arrays (EDIT_OPS: augmented assignments incl. @=, put, sort, column assignment; also used when the
class-level histories are instantiated); a two-body seed whose inside-out body lies beyond the rows the
face_normals setter cross-checks (sphere_box); copy isolation (a copy taken with the cache, then one of
the two edited in place and the other one read: Edit(x) of the specification changes obj[x] only).
"""
import copy as pycopy
import inspect
import json
import os
import sys
import time

import numpy as np

from harness import tlc
from harness.common import (MachineryError, Verdict, import_trimesh, pmap, seed,
                            tier_from_args)

PROP = "C01"
# the thorough tier keeps its worker pool at 8 processes: the workers of a 16-process pool grew to ~2.4 GB each
# over the 60 000 histories and the run was killed for memory (DESIGN.md 0.5)
NPROC_T = 8

SKIP_KEYS = {"visual", "mutable", "units", "source", "faces", "vertices", "smooth_shaded",
             "bounding_primitive", "bounding_cylinder", "bounding_box_oriented", "bounding_sphere",
             "is_empty", "identifier_hash"}
ANGLE_KEYS = {"face_adjacency_angles", "face_angles", "vertex_defects", "integral_mean_curvature",
              "face_angles_sparse", "face_adjacency_projections", "face_adjacency_radius", "face_adjacency_span"}
# values that are thresholds of floats or eigen-decompositions with sign/order freedom: compared
# through invariants only (see canon)
QUERY_KEYS = ["q:ray_hits", "q:ray_first", "q:contains", "q:nearest", "q:signed_distance", "q:copy"]
# reads that are only made in the audit families (main_extra): values cached on the mesh that the
# introspected key list leaves out (SKIP_KEYS, for cost), the second ray engine held by the user
# across mutations, and method-style reads that go through the cached mass properties / trees
EXTRA_KEYS = ["bounding_box_oriented", "bounding_sphere", "q:rt_first", "q:rt_contains", "q:inertia_frame",
              "q:nearest_vertex", "q:closest"]
# values that derive from the cached normals (attribution of NearIdentityRotationKeepsNormals)
NORMAL_DERIVED = {"face_normals", "vertex_normals", "q:ray_hits", "q:ray_first", "q:contains", "q:signed_distance", "q:copy",
                  "q:rt_first", "q:rt_contains", "face_adjacency_angles", "face_adjacency_convex", "face_adjacency_projections",
                  "face_adjacency_radius", "integral_mean_curvature", "is_convex", "facets", "facets_area", "facets_normal",
                  "facets_origin", "facets_boundary", "facets_on_hull", "smooth_shaded", "symmetry", "symmetry_axis",
                  "symmetry_section", "vertex_defects"}


# ------------------------------------------------------------------ seeds
def seeds(trimesh):
    out = {}
    v = np.array([[0, 0, 0], [2, 0, 0], [0, 3, 0], [0, 0, 1]], dtype=float)
    f = np.array([[0, 2, 1], [0, 1, 3], [1, 2, 3], [2, 0, 3]])
    out["tet"] = (v, f, {})
    b = trimesh.creation.box(extents=[2, 3, 1])
    bv = np.array(b.vertices) + [1.0, 1.5, 0.5]
    out["box_over"] = (bv, np.array(b.faces), {"density": 2.5, "center_mass": [0.25, 0.5, 0.125]})
    v2 = np.vstack([v, v + [4, 0, 1]])
    f2 = np.vstack([f, f + 4])
    out["two_tets"] = (v2, f2, {"density": 0.5})
    # open strip with a duplicated vertex and an unreferenced one
    gv = np.array([[0, 0, 0], [1, 0, 0], [2, 0, 1], [0, 1, 0], [1, 1, 0], [2, 1, 1], [1, 0, 0], [5, 5, 5]], dtype=float)
    gf = np.array([[0, 1, 4], [0, 4, 3], [6, 2, 5], [6, 5, 4]])
    out["strip_dup"] = (gv, gf, {})
    # a larger closed surface (80 faces) with a triangle hole and a quad hole: hole filling, face masks and
    # setter guards that only look at the first rows behave differently beyond 20 faces
    ico = trimesh.creation.icosphere(subdivisions=1, radius=2.0)
    fi = np.array(ico.faces)
    adj = np.array(ico.face_adjacency)
    drop = {int(adj[5][0]), int(adj[5][1]), 40}
    keep = np.array([k for k in range(len(fi)) if k not in drop])
    out["ico_holes"] = (np.array(ico.vertices), fi[keep], {})
    # a mesh on which the cleaning mutators really do something (they are no-ops on the seeds above):
    # two tetrahedra, the first one using a duplicate of vertex 1 in one face, the second one with one face
    # wound the wrong way, plus a repeated face (rotated indices) and a face with a repeated index
    dv = np.vstack([v, v + [4, 0, 1], v[1:2]])
    df = np.vstack([[[0, 2, 8], [0, 1, 3], [1, 2, 3], [2, 0, 3]],
                    [[4, 6, 5], [4, 5, 7], [5, 6, 7], [6, 7, 4]],
                    [[1, 3, 0]], [[4, 4, 5]]])
    out["dirty"] = (dv, df, {})
    # two closed bodies, the second one (a box) wound inside out and placed after the 80 faces of the first: what the
    # repairs re-wind lies beyond the rows the face_normals setter cross-checks (used by the audit families only)
    sp = trimesh.creation.icosphere(subdivisions=1, radius=2.0)
    bx = trimesh.creation.box(extents=[1.0, 2.0, 1.5])
    out["sphere_box"] = (np.vstack([np.array(sp.vertices), np.array(bx.vertices) + [6.0, 0.5, 0.25]]),
                         np.vstack([np.array(sp.faces), np.fliplr(np.array(bx.faces)) + len(sp.vertices)]), {})
    return out


AUDIT_ONLY_SEEDS = {"sphere_box"}


def rotation_seeds(sd):
    """seed names the general families rotate over"""
    return [n for n in sorted(sd) if n not in AUDIT_ONLY_SEEDS]


def build(trimesh, spec):
    v, f, over = spec
    m = trimesh.Trimesh(vertices=v.copy(), faces=f.copy(), process=False)
    if "density" in over:
        m.density = over["density"]
    if "center_mass" in over:
        m.center_mass = over["center_mass"]
    return m


def fresh_of(trimesh, m):
    """Trimesh(vertices.copy(), faces.copy(), process=False) with the same overrides."""
    g = trimesh.Trimesh(vertices=np.array(m.vertices, dtype=np.float64).copy(),
                        faces=np.array(m.faces, dtype=np.int64).copy(), process=False)
    d = m._data.data
    if "center_mass" in d:
        g.center_mass = np.array(d["center_mass"]).copy()
    if abs(float(m.density) - 1.0) > 0:
        g.density = float(m.density)
    return g


# ------------------------------------------------------------------ reading values
def query(m, key, frame):
    lo, hi = frame
    c = (lo + hi) / 2.0
    ext = np.maximum(hi - lo, 1.0)
    if key in ("q:ray_hits", "q:ray_first"):
        dirs = np.array([[1, 0.13, 0.07], [0.11, 1, 0.05], [0.03, 0.17, 1], [-1, 0.21, 0.09], [0.4, -1, 0.3], [0.2, 0.3, -1]])
        origins = c - dirs * 3 * ext.max() + np.array([0.013, 0.027, 0.031]) * ext
        if key == "q:ray_hits":
            loc, ray, tri = m.ray.intersects_location(origins, dirs, multiple_hits=True)
            order = np.lexsort((np.round(loc, 9).T[2], np.round(loc, 9).T[1], np.round(loc, 9).T[0], ray))
            return [np.asarray(ray)[order], np.asarray(loc)[order]]
        return np.asarray(m.ray.intersects_first(origins, dirs))
    if key == "q:rt_first" or key == "q:rt_contains":
        # an intersector of the pure-python engine created by the user once and held across mutations
        rt = m.__dict__.get("_c01_rt")
        if rt is None:
            rt = import_trimesh().ray.ray_triangle.RayMeshIntersector(m)
            m.__dict__["_c01_rt"] = rt
    pts = c + np.array([[0.11, 0.07, 0.05], [0.9, 0.8, 0.7], [-0.31, 0.22, 0.13], [0.02, -0.43, 0.29], [2.0, 2.0, 2.0]]) * ext
    if key == "q:rt_first":
        dirs = np.array([[1, 0.13, 0.07], [0.11, 1, 0.05], [0.03, 0.17, 1], [-1, 0.21, 0.09]])
        origins = c - dirs * 3 * ext.max() + np.array([0.013, 0.027, 0.031]) * ext
        return [np.asarray(rt.intersects_first(origins, dirs)), np.asarray(rt.intersects_any(origins, dirs))]
    if key == "q:rt_contains":
        return np.asarray(rt.contains_points(pts))
    if key == "q:copy":
        # a copy as a read: what a cached and an uncached copy report (copying also reads the colours)
        a, b = m.copy(include_cache=True), m.copy()
        return [np.asarray(a.vertices), np.asarray(a.faces), np.asarray(a.face_normals), np.asarray(b.faces),
                np.asarray(b.area), np.asarray(len(b.visual.face_colors)), np.asarray(len(a.visual.vertex_colors))]
    if key == "q:inertia_frame":
        return np.asarray(m.moment_inertia_frame(M4(RQ, (1, 2, 3))))
    if key == "q:nearest_vertex":
        dist, vid = m.nearest.vertex(pts)
        return np.asarray(dist)
    if key == "q:closest":
        cl, dist, tid = m.nearest.on_surface(pts)
        return np.asarray(cl)
    if key == "q:contains":
        return np.asarray(m.contains(pts))
    if key == "q:nearest":
        cl, dist, _tid = m.nearest.on_surface(pts)
        return np.asarray(dist)
    if key == "q:signed_distance":
        return np.asarray(m.nearest.signed_distance(pts))
    raise MachineryError(key)


def read(m, key, frame=None):
    if key.startswith("q:"):
        return query(m, key, frame)
    if key == "face_adjacency_radius":
        # span / |2 sin(angle)|: where two adjacent faces are folded flat onto each other (angle = pi, as for
        # the duplicated faces of the `strip_dup` seed) this is rounding noise over rounding noise and a
        # sign bit of -0.0 in a normal decides between 0.0 and 1.28: those entries are not a value the mesh
        # "reports", they are masked on both sides (found by the thorough tier, DESIGN.md 0.5)
        r = np.array(getattr(m, key), dtype=np.float64)
        ang = np.asarray(m.face_adjacency_angles, dtype=np.float64)
        if ang.shape == r.shape:
            r[np.abs(np.sin(ang)) < 1e-6] = -1.0
        return r
    return getattr(m, key)


def canon(key, v, depth=0):
    """Canonical JSON-free form for comparison: nested tuples of ('f', array) / ('i', array) / scalars."""
    import scipy.sparse as sp
    if v is None or isinstance(v, (str, bool)):
        return ("s", v)
    if isinstance(v, (int, np.integer)):
        return ("i", np.array(int(v)))
    if isinstance(v, (float, np.floating)):
        return ("f", np.array(float(v)))
    if isinstance(v, np.ndarray):
        a = np.asarray(v)
        if a.dtype.kind in "fc":
            return ("f", a.astype(np.float64))
        if a.dtype.kind in "iub":
            return ("i", a.astype(np.int64))
        if a.dtype.kind == "O":
            return ("l", tuple(canon(key, x, depth + 1) for x in a))
        return ("s", a.tolist())
    if sp.issparse(v):
        return ("f", np.asarray(v.toarray(), dtype=np.float64))
    tn = type(v).__name__
    if tn == "cKDTree":
        return ("f", np.asarray(v.data, dtype=np.float64))
    if tn == "Index":  # rtree
        try:
            return ("f", np.asarray(v.bounds, dtype=np.float64))
        except BaseException:
            return ("skip", None)
    if tn in ("Graph", "DiGraph"):
        e = sorted(tuple(sorted((int(a), int(b)))) for a, b in v.edges())
        return ("i", np.array(e, dtype=np.int64).reshape(-1, 2))
    if tn == "MassProperties" or isinstance(v, dict):
        d = dict(v) if isinstance(v, dict) else {k: getattr(v, k) for k in ("density", "mass", "volume", "center_mass", "inertia")}
        return ("l", tuple(canon(key, d[k], depth + 1) for k in sorted(d)))
    if tn in ("Trimesh", "Box", "Sphere", "Cylinder"):
        vv = np.asarray(v.vertices, dtype=np.float64)
        order = np.lexsort(np.round(vv, 7).T[::-1]) if len(vv) else []
        return ("l", (("f", vv[order]), ("f", np.array(float(v.volume))), ("i", np.array(len(v.faces)))))
    if isinstance(v, (list, tuple)):
        return ("l", tuple(canon(key, x, depth + 1) for x in v))
    return ("skip", None)


def same(a, b, tol, scale):
    if a[0] != b[0]:
        return False
    t = a[0]
    if t == "skip":
        return True
    if t == "s":
        return a[1] == b[1]
    if t == "l":
        return len(a[1]) == len(b[1]) and all(same(x, y, tol, scale) for x, y in zip(a[1], b[1]))
    x, y = a[1], b[1]
    if x.shape != y.shape:
        return False
    if t == "i":
        return bool(np.array_equal(x, y))
    if x.size == 0:
        return True
    fx, fy = np.isfinite(x), np.isfinite(y)
    if not np.array_equal(fx, fy):
        return False
    mag = max(1.0, float(np.abs(y[fy]).max()) if fy.any() else 1.0)
    return bool(np.allclose(x[fx], y[fy], rtol=0, atol=tol * mag))


def tol_for(key):
    if key in ANGLE_KEYS or key.startswith("facets") or key in ("symmetry_axis", "symmetry_section"):
        return 1e-6
    if key.startswith("principal_inertia") or key in ("identifier",):
        return 1e-7
    return 1e-9


# ------------------------------------------------------------------ mutators (class -> concrete variants)
def M4(lin, t=(0, 0, 0)):
    M = np.eye(4)
    M[:3, :3] = lin
    M[:3, 3] = t
    return M


RZ = np.array([[0, -1, 0], [1, 0, 0], [0, 0, 1]], dtype=float)
RX = np.array([[1, 0, 0], [0, 0, -1], [0, 1, 0]], dtype=float)
# rational rotation from the integer quaternion (2,4,5,6)/9
_q = np.array([2, 4, 5, 6]) / 9.0
_w, _x, _y, _z = _q
RQ = np.array([[1 - 2 * (_y * _y + _z * _z), 2 * (_x * _y - _z * _w), 2 * (_x * _z + _y * _w)],
               [2 * (_x * _y + _z * _w), 1 - 2 * (_x * _x + _z * _z), 2 * (_y * _z - _x * _w)],
               [2 * (_x * _z - _y * _w), 2 * (_y * _z + _x * _w), 1 - 2 * (_x * _x + _y * _y)]])


_a = 0.004  # small rotation: just above the "has rotation" shortcut
RSMALL = np.array([[np.cos(_a), -np.sin(_a), 0], [np.sin(_a), np.cos(_a), 0], [0, 0, 1]])


def _faces_some(m):
    n = len(m.faces)
    mask = np.ones(n, dtype=bool)
    mask[n // 2] = False
    m.update_faces(mask)


def _faces_int(m):
    n = len(m.faces)
    m.update_faces(np.array([n - 1, 0, 0, 1][: max(2, min(4, n + 1))]))


def _verts_referenced(m):
    ref = np.zeros(len(m.vertices), dtype=bool)
    ref[m.faces] = True
    m.update_vertices(ref)


def _edit_vertex(m):
    m.vertices[0] += [0.5, 0.25, 0.125]


def _edit_scale(m):
    m.vertices *= 2.0


def _edit_faces(m):
    m.faces[0] = m.faces[0][::-1]


def _reassign_v(m):
    m.vertices = np.array(m.vertices) * [1.0, 2.0, 1.0] + 1.0


def _reassign_f(m):
    m.faces = np.array(m.faces)[::-1]


def _edit_ufunc(m):
    v = m.vertices
    v[1:] = v[1:] + 0.5


# in-place edit routes of the tracked arrays: every augmented assignment and mutating method the arrays
# promise to notice (the routes that are open findings of C02 - C-level writes, views held across a hash
# read, base-class views - are not used).  Each keeps the mesh a mesh and really changes the data.
_ML = np.array([[0.0, -2.0, 0.0], [1.0, 0.0, 0.0], [0.0, 0.5, 1.5]])


def _op_iadd(m):
    m.vertices += [0.5, -0.25, 1.0]


def _op_isub(m):
    v = m.vertices
    v -= [1.0, 2.0, 0.5]


def _op_imul(m):
    m.vertices *= [1.0, 2.0, 0.5]


def _op_itruediv(m):
    v = m.vertices
    v /= [2.0, 1.0, 4.0]


def _op_imatmul(m):
    m.vertices @= _ML


def _op_imatmul_handle(m):
    v = m.vertices
    v @= _ML.T


def _op_ipow(m):
    m.vertices **= 3


def _op_ifloordiv(m):
    m.vertices //= 0.75


def _op_imod(m):
    v = m.vertices
    v %= 1.75


def _op_put(m):
    m.vertices.put([0, 1, 2], [0.25, -0.5, 0.75])


def _op_setitem_column(m):
    m.vertices[:, 2] = m.vertices[:, 2] * 3.0 + 1.0


def _op_sort_vertices(m):
    m.vertices.sort(axis=0)


def _op_faces_sort(m):
    m.faces.sort(axis=1)


def _op_faces_ixor(m):
    # swaps vertex 2k with 2k+1 in every face (needs an even number of vertices)
    if len(m.vertices) % 2:
        m.faces[:, 0], m.faces[:, 1] = np.array(m.faces[:, 1]), np.array(m.faces[:, 0])
    else:
        m.faces ^= 1


def _op_faces_setitem(m):
    m.faces[:, [1, 2]] = m.faces[:, [2, 1]]


def _op_faces_iadd(m):
    # every face moves on to the next vertices; the last vertex index wraps through the modulus
    f = m.faces
    f += 1
    f %= len(m.vertices)


EDIT_OPS = {f.__name__[4:]: f for f in (_op_iadd, _op_isub, _op_imul, _op_itruediv, _op_imatmul, _op_imatmul_handle, _op_ipow,
                                        _op_ifloordiv, _op_imod, _op_put, _op_setitem_column, _op_sort_vertices, _op_faces_sort,
                                        _op_faces_ixor, _op_faces_setitem, _op_faces_iadd)}


_t = 5e-7  # rotation below the "has rotation" shortcut of apply_transform but above its identity shortcut
RTINY = np.array([[np.cos(_t), -np.sin(_t), 0], [np.sin(_t), np.cos(_t), 0], [0, 0, 1]])


def _verts_int_drop(m):
    """integer vertex mask that drops a vertex still used by a face (the faces using it go as well)"""
    gone = int(m.faces[len(m.faces) // 2][1])
    m.update_vertices(np.array([i for i in range(len(m.vertices)) if i != gone], dtype=np.int64))


MUTATORS = {
    "identity": [lambda m: m.apply_transform(np.eye(4)), lambda m: m.apply_transform(M4(np.eye(3), (1e-10, 0, 0)))],
    "translate": [lambda m: m.apply_transform(M4(np.eye(3), (1, 2, 3))), lambda m: m.apply_translation([0.5, -1, 2]),
                  lambda m: m.rezero()],
    "rigid": [lambda m: m.apply_transform(M4(RZ, (1, 0, 2))), lambda m: m.apply_transform(M4(RQ, (0, 1, 0))),
              lambda m: m.apply_transform(M4(RX @ RZ)), lambda m: m.apply_transform(M4(RSMALL, (0, 0, 1))),
              lambda m: m.apply_transform(M4(RTINY, (0, 0, 1)))],
    "scale": [lambda m: m.apply_transform(M4(np.eye(3) * 2.0)), lambda m: m.apply_scale(0.5),
              lambda m: m.apply_transform(M4(RZ * 2.0, (1, 1, 1))),
              # the same kind of map handed over as a single precision, column-major array
              lambda m: m.apply_transform(np.asfortranarray(M4(RX * 0.5, (0, 1, 0)).astype(np.float32)))],
    "mirror": [lambda m: m.apply_transform(M4(np.diag([-1.0, 1, 1]))), lambda m: m.apply_transform(M4(RZ @ np.diag([1.0, 1, -1]), (0, 2, 0))),
               lambda m: m.apply_transform(M4(-np.eye(3))),
               # mirror combined with a uniform scale, handed over as nested lists
               lambda m: m.apply_transform(M4(RZ @ np.diag([1.0, 1, -1]) * 3.0, (1, 0, 0)).tolist())],
    "aniso": [lambda m: m.apply_transform(M4(np.diag([1.0, 2, 3]))), lambda m: m.apply_scale([2, 1, 0.5]),
              lambda m: m.apply_transform(M4(RZ @ np.diag([1.0, 2.0, 1.0])))],
    "shear": [lambda m: m.apply_transform(M4(np.array([[1.0, 1, 0], [0, 1, 0], [0, 0, 1]]))),
              lambda m: m.apply_transform(M4(np.array([[1.0, 0, 2], [0, 1, 1], [0, 0, 1]]), (1, 0, 0)))],
    "mirror_aniso": [lambda m: m.apply_transform(M4(np.diag([-1.0, 2, 1]))), lambda m: m.apply_transform(M4(np.diag([2.0, -3, 1]), (0, 0, 1)))],
    "invert": [lambda m: m.invert()],
    "faces_mask": [_faces_some, _faces_int, lambda m: m.remove_duplicate_faces(), lambda m: m.remove_degenerate_faces()],
    "verts_mask": [_verts_referenced, lambda m: m.remove_unreferenced_vertices(), lambda m: m.remove_infinite_values(),
                   _verts_int_drop],
    "merge": [lambda m: m.merge_vertices(), lambda m: m.merge_vertices(merge_norm=True, merge_tex=True)],
    "unmerge": [lambda m: m.unmerge_vertices()],
    "process": [lambda m: m.process(), lambda m: m.process(validate=True)],
    "repair": [lambda m: m.fix_normals(), lambda m: m.fix_normals(multibody=True), lambda m: m.fill_holes()],
    "density": [lambda m: setattr(m, "density", 3.0), lambda m: setattr(m, "density", 0.25)],
    "center_mass": [lambda m: setattr(m, "center_mass", [0.5, 0.5, 0.25]), lambda m: setattr(m, "center_mass", [0.0, 1.0, 0.0])],
}
EDITS = [_edit_vertex, _edit_scale, _edit_faces, _reassign_v, _reassign_f, _edit_ufunc]
# the routes the class-level histories of TLC are instantiated with
ALL_EDITS = EDITS + [EDIT_OPS[k] for k in sorted(EDIT_OPS)]
# edits that keep the buffer of the array they change (for the copy isolation family)
INPLACE_EDITS = [_edit_vertex, _edit_scale, _op_imatmul, _op_put, _edit_faces, _op_isub]

# (class, variant) of the near-identity rotation: attribution of NearIdentityRotationKeepsNormals
TINY_STEP = "rigid[4]"


# ------------------------------------------------------------------ audit families: mutators outside the TLC classes
def _acted(m, nv, f0):
    """note on the mesh that the library call inside a compound operation really changed the arrays"""
    if len(m.vertices) != nv or np.shape(m.faces) != np.shape(f0) or not np.array_equal(np.asarray(m.faces), f0):
        m.__dict__["_c01_acted"] = True


def _x_nan_referenced(m):
    m.vertices[int(m.faces[0][0])] = np.nan
    nv, f0 = len(m.vertices), np.array(m.faces)
    m.remove_infinite_values()
    _acted(m, nv, f0)


def _x_inf_unreferenced(m):
    m.vertices = np.vstack([np.array(m.vertices), [[np.inf, 0.0, 0.0]]])
    nv, f0 = len(m.vertices), np.array(m.faces)
    m.remove_infinite_values()
    _acted(m, nv, f0)


def _x_units(m):
    m.units = "mm"
    m.convert_units("inches")


def _x_more_faces(m):
    f = np.array(m.faces)
    m.faces = np.vstack([f, f[:1, ::-1]])


def _x_fewer_faces(m):
    m.faces = np.array(m.faces)[:-1]


def _x_more_vertices(m):
    m.vertices = np.vstack([np.array(m.vertices), [[9.0, 9.0, 9.0]]])


def _x_verts_int(m):
    ref = np.zeros(len(m.vertices), dtype=bool)
    ref[m.faces] = True
    m.update_vertices(np.nonzero(ref)[0])


def _x_fix_winding(m):
    import_trimesh().repair.fix_winding(m)


def _x_fix_inversion(m):
    # the second half of the faces (the second body of a two-body seed) turned inside out by the user
    n = len(m.faces) // 2
    m.faces[n:] = np.fliplr(m.faces[n:])
    nv, f0 = len(m.vertices), np.array(m.faces)
    import_trimesh().repair.fix_inversion(m, multibody=True)
    _acted(m, nv, f0)


XMUT = {
    "singular": lambda m: m.apply_transform(M4(np.diag([1.0, 1.0, 0.0]))),
    "neg_scale": lambda m: m.apply_scale([1, 1, -1]),
    "obb": lambda m: m.apply_obb(),
    "units": _x_units,
    "faces_none": lambda m: m.update_faces(np.zeros(len(m.faces), dtype=bool)),
    "faces_i32_reversed": lambda m: m.update_faces(np.arange(len(m.faces) - 1, dtype=np.int32)[::-1]),
    "faces_list": lambda m: m.update_faces([True] * (len(m.faces) - 1) + [False]),
    "verts_int": _x_verts_int,
    "nan_referenced": _x_nan_referenced,
    "inf_unreferenced": _x_inf_unreferenced,
    "merge_digits": lambda m: m.merge_vertices(digits_vertex=0),
    "fix_winding": _x_fix_winding,
    "fix_inversion": _x_fix_inversion,
    "more_faces": _x_more_faces,
    "fewer_faces": _x_fewer_faces,
    "more_vertices": _x_more_vertices,
}
# what must really happen on at least one seed for the family to count (coverage guard)
XMUT_EFFECT = {"nan_referenced": "acted", "inf_unreferenced": "acted", "faces_none": "nf0", "verts_int": "nv-", "merge_digits": "nv-",
               "fix_winding": "faces", "fix_inversion": "acted", "more_faces": "nf+", "fewer_faces": "nf-", "more_vertices": "nv+"}


def run_op(m, mu, vi):
    """Apply one operation of the pair sweep; returns the object to read afterwards."""
    if mu.startswith("edit+"):
        EDITS[vi[0]](m)
        MUTATORS[mu[5:]][vi[1]](m)
    elif mu == "edit":
        EDITS[vi](m)
    elif mu == "copy_cache":
        m = pycopy.copy(m) if vi else m.copy(include_cache=True)
    elif mu.startswith("x:"):
        XMUT[mu[2:]](m)
    elif mu == "editop":
        EDIT_OPS[vi](m)
    elif mu == "copyiso":
        # a copy taken with the cache; one of the two is then edited in place and the OTHER one is read
        route, e, direction = vi
        c = pycopy.copy(m) if route else m.copy(include_cache=True)
        src, dst = (m, c) if direction == 0 else (c, m)
        INPLACE_EDITS[e](src)
        return dst
    elif mu == "double":
        a, ai, mid, b, bi = vi
        MUTATORS[a][ai](m)
        for k in mid:
            getattr(m, k)
        MUTATORS[b][bi](m)
    else:
        MUTATORS[mu][vi](m)
    return m


def snapshot(m):
    d = m._data.data
    return (np.array(m.vertices, dtype=np.float64), np.array(m.faces, dtype=np.int64),
            np.array(d["center_mass"]).copy() if "center_mass" in d else None, float(m.density))


def raises_on_fresh(trimesh, snap, op):
    """Does the operation also fail on a mesh freshly built from the arrays the subject had?"""
    v, f, cm, dens = snap
    g = trimesh.Trimesh(vertices=v.copy(), faces=f.copy(), process=False)
    if cm is not None:
        g.center_mass = cm
    if abs(dens - 1.0) > 0:
        g.density = dens
    try:
        op(g)
    except BaseException:
        return True
    return False


def raise_detail(e):
    return {"key": "mutator", "subject_raised": type(e).__name__ + ": " + str(e)[:80]}




KEPT_HINT = ["face_normals", "vertex_normals", "edges", "edges_sorted", "edges_unique", "edges_unique_inverse", "faces_unique_edges",
             "face_adjacency", "face_adjacency_edges", "face_adjacency_unshared", "body_count", "euler_number", "edges_sparse", "edges_face"]


def all_keys(trimesh):
    m = trimesh.creation.box()
    props = [n for n, _ in inspect.getmembers(type(m), lambda x: isinstance(x, property))]
    return sorted(k for k in props if k not in SKIP_KEYS) + QUERY_KEYS


def probe_keep(trimesh, keys):
    """Observe which cache keys each mutator class leaves in the cache on this tree."""
    sd = seeds(trimesh)
    keep = {}
    for mu, variants in MUTATORS.items():
        kept = None
        for vi, f in enumerate(variants):
            for sname in ("box_over", "two_tets"):
                m = build(trimesh, sd[sname])
                for k in keys:
                    if not k.startswith("q:"):
                        try:
                            getattr(m, k)
                        except BaseException:
                            pass
                before = set(m._cache.cache.keys())
                try:
                    f(m)
                except BaseException:
                    continue
                # entries surviving AND still trusted at the next read (id matches)
                alive = set(m._cache.cache.keys()) if m._cache.id_current == m._data.__hash__() else set()
                alive &= before
                kept = alive if kept is None else (kept | alive)
        keep[mu] = sorted(kept or [])
    # does copy(include_cache=True) adopt an unverified cache?
    m = build(trimesh, sd["tet"])
    m.area
    m.vertices[0] += 1.0
    c = pycopy.copy(m)
    copy_verifies = "area" not in c._cache.cache
    # which mutators trust a cache that an in-place edit has silently invalidated?
    locked = []
    for mu, variants in MUTATORS.items():
        for f in variants:
            m = build(trimesh, sd["box_over"])
            for k in ("face_normals", "vertex_normals", "edges", "face_adjacency", "area"):
                getattr(m, k)
            m.vertices[0] += [0.3, 0.7, 0.2]
            try:
                f(m)
            except BaseException:
                continue
            trusted = set(m._cache.cache.keys()) if m._cache.id_current == m._data.__hash__() else set()
            if trusted & {"vertex_normals", "face_normals", "area"}:
                # a value computed before the edit survived and is trusted: only legitimate if it was
                # recomputed by the mutator itself, which none of these are for an edited vertex
                fr = fresh_of(trimesh, m)
                for k in trusted & {"vertex_normals", "face_normals", "area"}:
                    if not np.allclose(np.asarray(m._cache.cache[k], dtype=float), np.asarray(getattr(fr, k), dtype=float), atol=1e-9):
                        locked.append(mu)
                        break
    return keep, copy_verifies, sorted(set(locked))


# ------------------------------------------------------------------ TLC side
def gen_module(classes, mutators, keep_c, valid_c, side_c, copy_verifies, depth, locked=()):
    def sset(xs):
        return "{" + ", ".join('"%s"' % x for x in sorted(xs)) + "}"

    def fn(dom_name, table):
        arms = " [] ".join('x = "%s" -> %s' % (k, sset(v)) for k, v in sorted(table.items()))
        return "[x \\in %s |-> CASE %s [] OTHER -> {}]" % (dom_name, arms)
    return "\n".join([
        "---- MODULE MC_MeshCache ----",
        "EXTENDS MeshCache",
        "KeysDef == " + sset(classes),
        "MutDef == " + sset(mutators),
        "KeepDef == " + fn("MutDef", keep_c),
        "ValidDef == " + fn("MutDef", valid_c),
        "SideDef == " + fn("KeysDef", side_c),
        "LockedDef == " + sset(locked),
        "====", ""])


def mc_cfg(depth, copy_verifies, invs, view=True):
    return "\n".join([
        "CONSTANTS", "  Keys <- KeysDef", "  Mutators <- MutDef", "  Keep <- KeepDef", "  Valid <- ValidDef",
        "  Side <- SideDef", "  Locked <- LockedDef", "  CopyVerifies = %s" % ("TRUE" if copy_verifies else "FALSE"),
        "  MaxDepth = %d" % depth, "SPECIFICATION Spec", "VIEW View" if view else "",
    ] + ["INVARIANT " + i for i in invs] + ["CHECK_DEADLOCK FALSE", ""])


def ask_valid(mutators, keys):
    """The specification's dependency table, evaluated by TLC: mutator -> keys whose kept value is valid."""
    d = tlc.prepare("c01/deps")
    mod = "\n".join([
        "---- MODULE AskDeps ----", "EXTENDS MeshDeps, TLC, Json, Sequences",
        "VARIABLE z", "Init == z = 0", "Next == FALSE /\\ z' = z",
        'Mus == {%s}' % ", ".join('"%s"' % m for m in mutators),
        'Ks == {%s}' % ", ".join('"%s"' % k for k in keys),
        "Tell == PrintT(ToJson([m \\in Mus |-> {k \\in Ks : ValidKept(m, k)}]))",
        "===="])
    with open(os.path.join(d, "AskDeps.tla"), "w") as f:
        f.write(mod)
    r = tlc.must(tlc.run(d, "AskDeps", "INIT Init\nNEXT Next\nINVARIANT Tell\nCHECK_DEADLOCK FALSE\n", workers=1), "deps")
    if not r.printed:
        raise MachineryError("no dependency table printed")
    return {k: set(v) for k, v in r.printed[0].items()}


# ------------------------------------------------------------------ replay
def compare(trimesh, subj, key, frame_src=None):
    """-> None if equal / not comparable, else detail dict."""
    fa = fresh_of(trimesh, subj)
    fb = fresh_of(trimesh, subj)
    frame = None
    if key.startswith("q:"):
        if len(fa.faces) == 0:
            return None
        frame = (np.array(fa.bounds[0]), np.array(fa.bounds[1]))
    np.random.seed(7)
    try:
        va = canon(key, read(fa, key, frame))
        np.random.seed(7)
        vb = canon(key, read(fb, key, frame))
    except BaseException:
        # the fresh mesh cannot answer (degenerate data): nothing to compare against
        return None
    tol = tol_for(key)
    if not same(va, vb, tol, 1.0):
        return None  # not deterministic between two fresh meshes: no oracle
    np.random.seed(7)
    try:
        vs = canon(key, read(subj, key, frame))
    except BaseException as e:  # noqa
        return {"key": key, "subject_raised": type(e).__name__ + ": " + str(e)[:80]}
    if not same(vs, va, tol, 1.0):
        def brief(c):
            if c[0] in ("f", "i"):
                return np.round(c[1], 6).tolist() if c[1].size <= 24 else "array%s" % (c[1].shape,)
            return str(c)[:200]
        return {"key": key, "subject": brief(vs), "fresh": brief(va)}
    return None


def concrete_keys(kc, classes, rot):
    ks = classes[kc]
    return ks[rot % len(ks)]


def replay_history(trimesh, h, seedspec, classes, allkeys, variant, sweep_keys):
    objs = {"m": build(trimesh, seedspec)}
    steps = []
    for j, st in enumerate(h):
        op = st["op"]
        if op == "read":
            o = objs.get(st["o"])
            if o is None:
                return None, steps
            key = concrete_keys(st["k"], classes, variant + j)
            steps.append("read %s.%s" % (st["o"], key))
            bad = compare(trimesh, o, key)
            if bad:
                return bad, steps
        elif op == "edit":
            o = objs.get(st["o"])
            if o is None:
                return None, steps
            f = ALL_EDITS[(variant + j) % len(ALL_EDITS)]
            steps.append("edit %s.%s" % (st["o"], f.__name__))
            try:
                f(o)
            except BaseException:
                return None, steps
        elif op == "mutate":
            o = objs.get(st["o"])
            if o is None:
                return None, steps
            vs = MUTATORS[st["mu"]]
            vi = (variant + j) % len(vs)
            steps.append("mutate %s.%s[%d]" % (st["o"], st["mu"], vi))
            snap = snapshot(o)
            try:
                vs[vi](o)
            except BaseException as e:
                # the specification's mutators are enabled whatever has been read before
                if not raises_on_fresh(trimesh, snap, vs[vi]):
                    return raise_detail(e), steps
                return None, steps
        elif op in ("copy_cache", "copy_plain"):
            steps.append(op)
            odd = (variant + j) % 2
            f = ((pycopy.copy if odd else (lambda x: x.copy(include_cache=True))) if op == "copy_cache" else
                 (pycopy.deepcopy if odd else (lambda x: x.copy())))
            snap = snapshot(objs["m"])
            try:
                objs["c"] = f(objs["m"])
            except BaseException as e:
                if not raises_on_fresh(trimesh, snap, f):
                    return raise_detail(e), steps
                return None, steps
    for name, o in objs.items():
        for key in sweep_keys:
            bad = compare(trimesh, o, key)
            if bad:
                steps.append("sweep %s.%s" % (name, key))
                return bad, steps
    return None, steps


def _replay_chunk(args):
    trimesh = import_trimesh()
    sd = seeds(trimesh)
    names = rotation_seeds(sd)
    out = []
    nread = 0
    for idx, h, classes, allkeys, nvar, sweep in args:
        for v in range(nvar):
            sname = names[(idx + v) % len(names)]
            rot = idx * 5 + v * 13 + seed()
            sk = allkeys if sweep == "all" else [allkeys[(rot + 7 * i) % len(allkeys)] for i in range(sweep)]
            bad, steps = replay_history(trimesh, h, sd[sname], classes, allkeys, rot, sk)
            nread += sum(1 for s in h if s["op"] == "read") + len(sk)
            if bad:
                out.append({"seed_mesh": sname, "steps": steps, "mismatch": bad})
    return out, nread, sum(a[4] for a in args)


def _pair_chunk(args):
    """(one key read before) x (concrete mutator) x (every key read after)"""
    trimesh = import_trimesh()
    sd = seeds(trimesh)
    out = []
    n = 0
    effects = []
    for sname, k1, mu, vi, allkeys in args:
        # allkeys: the keys read by "*" before and swept afterwards, or a pair (before, afterwards)
        pre_keys, allkeys = allkeys if isinstance(allkeys, tuple) else (allkeys, allkeys)
        m = build(trimesh, sd[sname])
        steps = []
        if k1 is not None:
            if k1 == "*":
                for k in pre_keys:
                    try:
                        read(m, k, (np.array(m.bounds[0]), np.array(m.bounds[1])) if k.startswith("q:") else None)
                    except BaseException:
                        pass
                steps.append("read *")
            else:
                bad = compare(trimesh, m, k1)
                steps.append("read " + k1)
                if bad:
                    out.append({"seed_mesh": sname, "steps": steps, "mismatch": bad})
                    continue
        label = ("double %s[%d] reads(%s) %s[%d]" % (vi[0], vi[1], "+".join(vi[2]), vi[3], vi[4]) if mu == "double" else
                 "edit[%d]+%s[%d]" % (vi[0], mu[5:], vi[1]) if mu.startswith("edit+") else "%s[%s]" % (mu, vi))
        steps.append("mutate " + label)
        snap = snapshot(m)
        try:
            m = run_op(m, mu, vi)
        except BaseException as e:
            if not raises_on_fresh(trimesh, snap, lambda g: run_op(g, mu, vi)):
                out.append({"seed_mesh": sname, "steps": steps, "mismatch": raise_detail(e)})
            continue
        if mu.startswith("x:") or sname in ("dirty", "sphere_box") or mu in ("double", "editop", "copyiso"):
            # what the operation really did to the arrays (coverage guards in main)
            v0, f0 = snap[0], snap[1]
            nv, nf = len(m.vertices), len(m.faces)
            tags = ["nf0" if nf == 0 else "nf+" if nf > len(f0) else "nf-" if nf < len(f0) else
                    "faces" if not np.array_equal(np.asarray(m.faces), f0) else "same",
                    "nv+" if nv > len(v0) else "nv-" if nv < len(v0) else "nv="] + (["acted"] if m.__dict__.get("_c01_acted") else [])
            if nv == len(v0) and not np.array_equal(np.asarray(m.vertices), v0, equal_nan=True):
                tags.append("moved")
            effects.append((mu if mu.startswith("x:") else sname + ":" + label if sname == "sphere_box" else label, sname, tags))
        if len(m.faces) == 0 and mu.startswith("x:"):
            # an emptied mesh: nothing a fresh mesh could report differently except its emptiness
            n += 1
            if not (len(m.face_normals) == 0 and m.area == 0.0 and len(m.face_adjacency) == 0):
                out.append({"seed_mesh": sname, "steps": steps, "mismatch": {"key": "area", "subject": "values of the removed faces", "fresh": "nothing"}})
            continue
        # read the key read before first (the typical stale read), then everything
        if k1 in (None, "*") or len(allkeys) < 40:
            order = [k for k in allkeys]
        else:
            # the key read before first (the typical stale read), the keys the library keeps across
            # mutators, and a rotating dozen of the others (all keys are read when k1 is None or "*")
            rot = (hash((sname, k1, mu, str(vi))) % 9973)
            rest = [k for k in allkeys if k != k1]
            order = [k1] + [k for k in KEPT_HINT if k in rest] + [rest[(rot + 7 * i) % len(rest)] for i in range(12)]
            order = list(dict.fromkeys(order))
        for k in order:
            n += 1
            bad = compare(trimesh, m, k)
            if bad:
                out.append({"seed_mesh": sname, "steps": steps + ["read " + k], "mismatch": bad})
                break
    return out, n, len(args), effects


def _indep_chunk(args):
    """the arrays a mutator leaves behind with nothing read before / with everything read before"""
    trimesh = import_trimesh()
    sd = seeds(trimesh)
    out = []
    n = 0
    for sname, mu, vi, keys in args:
        a, b = build(trimesh, sd[sname]), build(trimesh, sd[sname])
        for k in keys:
            if not k.startswith("q:"):
                try:
                    getattr(b, k)
                except BaseException:
                    pass
        try:
            run_op(a, mu, vi)
        except BaseException:
            continue
        n += 1
        try:
            run_op(b, mu, vi)
        except BaseException as e:
            # refused only because of what had been read before
            out.append((sname, mu, vi, list(a.vertices.shape), [type(e).__name__ + ": " + str(e)[:80]]))
            continue
        same = (a.vertices.shape == b.vertices.shape and np.allclose(a.vertices, b.vertices, atol=1e-12, equal_nan=True) and
                a.faces.shape == b.faces.shape and np.array_equal(a.faces, b.faces))
        if not same:
            out.append((sname, mu, vi, list(a.vertices.shape), list(b.vertices.shape)))
    return out, n


def apalache_inductive(cov):
    """Unbounded argument for the protocol part: Apalache discharges Init => IndInv and
    IndInv /\\ Next => IndInv' for spec/CacheProtocolInd.tla; a variant whose copy adopts the
    unverified cache must be refuted (negative control)."""
    import shutil
    import subprocess
    from harness.common import SPEC_DIR
    d = tlc.prepare("c01/apalache")
    src = open(os.path.join(SPEC_DIR, "CacheProtocolInd.tla")).read()
    broken = src.replace("CopyCache == /\\ ent' = VEnt", "CopyCache == /\\ ent' = ent")
    if broken == src:
        raise MachineryError("negative control for the Apalache check could not be built")
    with open(os.path.join(d, "CacheProtocolBroken.tla"), "w") as f:
        f.write(broken.replace("MODULE CacheProtocolInd", "MODULE CacheProtocolBroken"))
    res = {}
    for name, mod, args in (("init_implies_inv", "CacheProtocolInd", ["--init=Init", "--inv=IndInv", "--length=0"]),
                            ("inv_is_inductive", "CacheProtocolInd", ["--init=IndInit", "--inv=IndInv", "--length=1"]),
                            ("negative_control", "CacheProtocolBroken", ["--init=IndInit", "--inv=IndInv", "--length=1"])):
        p = subprocess.run(["apalache-mc", "check"] + args + ["--out-dir=" + os.path.join(d, "out"), mod + ".tla"], cwd=d,
                           capture_output=True, text=True, timeout=900)
        ok = "EXITCODE: OK" in p.stdout
        res[name] = "OK" if ok else ("violation found" if "violation" in p.stdout.lower() or "EXITCODE: ERROR (12)" in p.stdout else "error")
    shutil.rmtree(os.path.join(d, "out"), ignore_errors=True)
    cov["apalache_inductive_invariant"] = res
    if res["init_implies_inv"] != "OK" or res["inv_is_inductive"] != "OK":
        raise MachineryError("Apalache could not discharge the inductive invariant: %s" % res)
    if res["negative_control"] == "OK":
        raise MachineryError("Apalache accepted the broken protocol: the inductive check is vacuous")


def main(argv):
    tier = tier_from_args(argv)
    V = Verdict(PROP, tier)
    trimesh = import_trimesh()
    # the degenerate seed makes the library log a warning with a traceback on every vertex_faces read
    import logging
    logging.getLogger("trimesh").setLevel(logging.ERROR)
    keys = all_keys(trimesh)
    keep, copy_verifies, locked = probe_keep(trimesh, keys)
    mutators = sorted(MUTATORS)
    kept_keys = sorted({k for v in keep.values() for k in v})
    valid = ask_valid(mutators, kept_keys)
    # key classes: identical Keep/Valid signature; everything never kept is one class
    sig = {}
    for k in keys:
        s = tuple((k in keep[m], k in valid.get(m, ())) for m in mutators) if k in kept_keys else None
        sig.setdefault(s, []).append(k)
    classes = {}
    for s, ks in sig.items():
        name = "volatile" if s is None else ks[0]
        classes[name] = ks
    keep_c = {m: [c for c, ks in classes.items() if ks[0] in keep[m]] for m in mutators}
    valid_c = {m: [c for c, ks in classes.items() if ks[0] in valid.get(m, ())] for m in mutators}
    intended_keep = {m: [c for c in keep_c[m] if c in valid_c[m]] for m in mutators}
    side_c = {c: [] for c in classes}
    predictions = sorted((m, k) for m in mutators for k in keep[m] if k not in valid.get(m, ()))
    cov = {"tlc_runs": [], "observed_keep": keep, "copy_verifies_source_cache": copy_verifies, "mutators_trusting_unverified_cache": locked,
           "predicted_stale_pairs": predictions, "key_classes": {c: len(ks) for c, ks in classes.items()}}
    states = trans = 0

    def note(name, r):
        nonlocal states, trans
        states += r.distinct
        trans += r.generated
        cov["tlc_runs"].append({"run": name, "distinct": r.distinct, "generated": r.generated, "wall_s": round(r.wall, 1)})

    d = tlc.prepare("c01/mc", files={"MC_MeshCache.tla": gen_module(classes, mutators, intended_keep, valid_c, side_c, True, 0)})
    dm = 4 if tier == "quick" else 5
    r = tlc.must(tlc.run(d, "MC_MeshCache", mc_cfg(dm, True, ["NoStaleRead", "EntriesAreForIdcur", "IdNotAhead", "MutatorsEnabled"]), timeout=1500), "intended")
    note(f"intended design depth {dm}", r)
    d2 = tlc.prepare("c01/asbuilt", files={"MC_MeshCache.tla": gen_module(classes, mutators, keep_c, valid_c, side_c, copy_verifies, 0, locked)})
    r = tlc.run(d2, "MC_MeshCache", mc_cfg(dm, copy_verifies, ["NoStaleRead"]), timeout=1500)
    note(f"design as observed on this tree depth {dm}", r)
    if r.error and r.error != "timeout" and not r.violated:
        raise MachineryError("as-observed model failed: " + str(r.error))
    cov["as_observed_model_NoStaleRead"] = "violated (predicted findings exist)" if r.violated else "holds"
    if bool(r.violated) != bool(predictions or not copy_verifies or (locked and any(keep_c[m] for m in locked))):
        raise MachineryError("TLC verdict on the observed design disagrees with the predicted pairs")
    # spec self-test: copying without verifying must be caught by TLC
    # (depth bounds are given slack: with a VIEW and several workers a state may first be reached by a
    # longer history than the shortest one, so a bound equal to the shortest counterexample is flaky)
    r = tlc.run(d, "MC_MeshCache", mc_cfg(7, False, ["NoStaleRead"]), timeout=1500)
    if r.violated != "NoStaleRead":
        raise MachineryError("spec self-test: CopyVerifies=FALSE not detected")
    some = [m for m in mutators if intended_keep[m]][:1]
    d4 = tlc.prepare("c01/selftest", files={"MC_MeshCache.tla": gen_module(classes, mutators, intended_keep, valid_c, side_c, True, 0, some)})
    r = tlc.run(d4, "MC_MeshCache", mc_cfg(7, True, ["NoStaleRead"]), timeout=1500)
    if r.violated != "NoStaleRead":
        raise MachineryError("spec self-test: a mutator working under the lock without verifying was not detected")

    if tier == "thorough":
        apalache_inductive(cov)

    # histories emitted by TLC at class level
    de = 3 if tier == "quick" else 4
    d3 = tlc.prepare("c01/emit", files={"MC_MeshCache.tla": gen_module(classes, mutators, keep_c, valid_c, side_c, copy_verifies, 0, locked)})
    r = tlc.must(tlc.run(d3, "MC_MeshCache", mc_cfg(de, copy_verifies, ["EmitLeaf"], view=False), workers=1, timeout=1500), "emit")
    note(f"emit class-level histories depth {de}", r)
    hists = r.printed
    rs = np.random.RandomState(seed())
    cap = 6000 if tier == "quick" else 60000
    if len(hists) > cap:
        # keep every history that contains a mutator or a copy followed by a read; sample the rest
        idx = rs.permutation(len(hists))[:cap]
        hists = [hists[i] for i in sorted(idx)]
    if len(hists) < 500:
        raise MachineryError("too few histories")
    sweep = 6 if tier == "quick" else 20
    work = [(i, h, classes, keys, 1 if tier == "quick" else 2, sweep) for i, h in enumerate(hists)]
    t0 = time.time()
    res = pmap(_replay_chunk, work, chunk=40, nproc=NPROC_T if tier == "thorough" else None)
    nread = sum(x[1] for x in res)
    nrep = sum(x[2] for x in res)
    fails = [f for x in res for f in x[0]]
    # exhaustive pair sweep: (key before | none | all) x every concrete mutator x all keys after
    sd_names = ["box_over", "strip_dup"] if tier == "quick" else rotation_seeds(seeds(trimesh))
    pair_work = []
    befores = [None, "*"] + (kept_keys + ["area", "volume", "bounds", "triangles", "face_adjacency_angles", "mass_properties", "convex_hull", "q:ray_hits", "q:nearest", "q:contains"]
                             if tier == "quick" else keys)
    befores = list(dict.fromkeys(befores))
    for sname in sd_names + (["ico_holes"] if "ico_holes" not in sd_names else []):
        for mu in mutators + ["edit", "copy_cache"]:
            if sname == "ico_holes" and tier == "quick" and mu not in ("repair", "faces_mask", "invert", "process"):
                continue
            nv = len(EDITS) if mu == "edit" else 2 if mu == "copy_cache" else len(MUTATORS[mu])
            for vi in range(nv):
                for k1 in befores:
                    pair_work.append((sname, k1, mu, vi, keys))
    # (kept key read before) ; in-place user edit ; every concrete mutator ; reads
    for sname in sd_names[:1] + ["strip_dup"]:
        for mu in mutators:
            for vi in range(len(MUTATORS[mu])):
                for ei in range(len(EDITS)):
                    # everything read before, each edit route; kept keys alone with one edit route
                    for k1 in ["*"] + (kept_keys if ei == (vi % len(EDITS)) and tier == "thorough" else
                                       ["face_normals", "vertex_normals"] if ei == (vi % len(EDITS)) else []):
                        pair_work.append((sname, k1, "edit+" + mu, (ei, vi), kept_keys + ["area", "bounds", "volume", "face_adjacency_angles"]))
    # ---- audit families (coverage audit of the quantifier, see DESIGN 4 / C01):
    # (a) the seed on which the cleaning mutators really remove something
    audit_post = list(dict.fromkeys(KEPT_HINT + ["area", "bounds", "volume", "face_adjacency_angles", "mass_properties", "is_watertight",
                                                 "triangles", "vertex_faces", "q:ray_hits", "q:copy"]))
    short_post = ["face_normals", "vertex_normals", "edges", "edges_unique", "edges_unique_inverse", "face_adjacency", "face_adjacency_edges",
                  "euler_number", "area", "bounds", "volume", "face_adjacency_angles", "q:copy"]
    n_base = len(pair_work)
    for mu in ("faces_mask", "verts_mask", "merge", "unmerge", "process", "repair") + (("invert", "mirror", "aniso") if tier == "thorough" else ()):
        for vi in range(len(MUTATORS[mu])):
            for k1 in ["*", "face_normals", "vertex_normals", "face_adjacency", "edges_unique", "q:copy"] + (kept_keys if tier == "thorough" else []):
                pair_work.append(("dirty", k1, mu, vi, keys if k1 == "*" else short_post))
    # (b) mutators outside the TLC classes: degenerate matrices and masks, other entry points reaching the
    #     same code (repair functions, units, oriented box), non-finite data, reassignments that change counts
    xseeds = ["box_over", "strip_dup", "dirty"] if tier == "quick" else rotation_seeds(seeds(trimesh))
    for sname in xseeds:
        for xm in sorted(XMUT):
            for k1 in ["*", "face_normals", "vertex_normals", "face_adjacency", "edges_unique", "q:copy"] + (kept_keys if tier == "thorough" else []):
                pair_work.append((sname, k1, "x:" + xm, 0, (keys + EXTRA_KEYS, audit_post + EXTRA_KEYS) if k1 == "*" else short_post))
    # (c) two library mutators in a row (both orders, a mutator twice), optionally with reads in between
    dmut = [m for m in mutators if m not in ("identity", "density", "center_mass")]
    dseeds = ["box_over", "strip_dup", "dirty"]
    for ai, a in enumerate(dmut):
        for bi, b in enumerate(dmut):
            for rep in range(1 if tier == "quick" else 6):
                r = ai * 5 + bi * 3 + rep * 7 + seed()
                mid = [[], ["face_normals", "vertex_normals", "edges_unique"]][(ai + bi + rep) % 2]
                pair_work.append((dseeds[r % 3], "*", "double", (a, r % len(MUTATORS[a]), mid, b, (r // 2) % len(MUTATORS[b])), short_post))
    if "two_tets" not in xseeds:
        for k1 in ["*", "face_normals", "q:copy"]:
            pair_work.append(("two_tets", k1, "x:fix_inversion", 0, short_post))
    # (d) every in-place edit route of the tracked arrays (augmented assignments, mutating methods)
    for sname in ["box_over", "strip_dup"] + (["dirty", "two_tets"] if tier == "thorough" else []):
        for eo in sorted(EDIT_OPS):
            for k1 in ["*", "face_normals", "bounds"] + (kept_keys if tier == "thorough" else []):
                pair_work.append((sname, k1, "editop", eo, keys if k1 == "*" else short_post + ["triangles", "kdtree", "q:nearest"]))
    # (e) bodies that the repairs re-wind beyond the first rows of the face array
    for mu in ("repair", "process", "invert", "faces_mask") + (("mirror", "merge", "verts_mask") if tier == "thorough" else ()):
        for vi in range(len(MUTATORS[mu])):
            for k1 in ["*", "face_normals", "vertex_normals", "face_adjacency", "q:copy"] + (kept_keys if tier == "thorough" else []):
                pair_work.append(("sphere_box", k1, mu, vi, keys if k1 == "*" else short_post + ["q:signed_distance"]))
    for xm in ("fix_winding", "fix_inversion"):
        for k1 in ["*", "face_normals", "vertex_normals"]:
            pair_work.append(("sphere_box", k1, "x:" + xm, 0, short_post + ["q:signed_distance"]))
    # (f) a copy taken with the cache stays a function of its own arrays (and so does the original): one of the
    #     two is edited in place, the other one is read; before the copy everything / one structure-valued key is read
    holders = ["kdtree", "triangles_tree", "vertex_adjacency_graph", "faces_sparse", "convex_hull"] + (
        ["edges_sorted_tree", "face_adjacency_tree", "face_adjacency_edges_tree", "bounding_box_oriented"] if tier == "thorough" else [])
    n_iso = 0
    for sname in ["box_over", "strip_dup"] + (["ico_holes", "dirty"] if tier == "thorough" else []):
        for route in (0, 1):
            for e in range(len(INPLACE_EDITS)):
                for direction in (0, 1):
                    if tier == "quick" and (e + route + direction) % 2 and e >= 4:
                        continue
                    for k1 in ["*"] + holders:
                        n_iso += 1
                        pair_work.append((sname, k1, "copyiso", (route, e, direction),
                                          (keys + EXTRA_KEYS, keys + EXTRA_KEYS) if k1 == "*" else [k1, "bounds", "area", "q:nearest_vertex", "q:nearest"]))
    n_audit = len(pair_work) - n_base
    res2 = pmap(_pair_chunk, pair_work, chunk=8, nproc=NPROC_T if tier == "thorough" else None)
    fails += [f for x in res2 for f in x[0]]
    nread += sum(x[1] for x in res2)
    npair = sum(x[2] for x in res2)
    # coverage guards of the audit families: the operations must really have changed the arrays
    eff = {}
    for x in res2:
        for name, sname, tags in x[3]:
            eff.setdefault(name, set()).update(tags)
    for xm, want in XMUT_EFFECT.items():
        got = eff.get("x:" + xm, set())
        if want not in got:
            raise MachineryError("audit family: %s never had the effect %s (%s)" % (xm, want, sorted(got)))
    n_x = sum(1 for name in eff if name.startswith("x:"))
    dirty_eff = {name: tags for name, tags in eff.items() if name.split("[")[0] in MUTATORS}
    dirty_real = sorted(name for name, tags in dirty_eff.items() if tags & {"nf-", "nf+", "nv-", "nv+", "faces"})
    n_double = sum(1 for name in eff if name.startswith("double"))
    if n_x < len(XMUT) - 2 or len(dirty_real) < 10 or n_double < (len(dmut) ** 2) * 3 // 4:
        raise MachineryError("audit families came out nearly empty: extra mutators %d, effective cleaning mutators %d, double %d" %
                             (n_x, len(dirty_real), n_double))
    edit_real = sorted(name[7:-1] for name, tags in eff.items() if name.startswith("editop[") and tags & {"moved", "faces"})
    if len(edit_real) < len(EDIT_OPS):
        raise MachineryError("edit routes that never changed the data: %s" % sorted(set(EDIT_OPS) - set(edit_real)))
    big = {name: tags for name, tags in eff.items() if name.startswith("sphere_box:")}
    big_rewound = sorted(name for name, tags in big.items() if "faces" in tags or "acted" in tags)
    n_iso_run = sum(1 for name, tags in eff.items() if name.startswith("copyiso["))
    if len(big_rewound) < 4 or n_iso_run < 8:
        raise MachineryError("audit families came out nearly empty: re-winding repairs on the two-body seed %s, copy isolation %d" %
                             (big_rewound, n_iso_run))
    cov["audit_families_2"] = {"edit_routes": edit_real, "rewinding_mutators_on_sphere_box": big_rewound,
                               "copy_isolation_histories": n_iso, "copy_isolation_variants": n_iso_run}
    cov["audit_families"] = {"histories": n_audit, "extra_mutators_run": n_x, "cleaning_mutators_effective_on_dirty_seed": dirty_real,
                             "double_mutator_histories": n_double, "extra_read_keys": EXTRA_KEYS}
    for f in fails:
        mm = f["mismatch"]
        dev = None
        if "face colors incorrect shape" in str(mm.get("subject_raised", "")):
            # generated default colours of the old element count survive a change of the face / vertex count
            dev = "GeneratedColorsWrongCount"
        elif any(TINY_STEP in st for st in f["steps"]) and mm["key"] in NORMAL_DERIVED:
            # apply_transform treats a linear part within 1e-6 of the identity as a translation and keeps the normals
            dev = "NearIdentityRotationKeepsNormals"
        elif any("process[1]" in st for st in f["steps"]) and (mm["key"] == "mutator" or mm["key"] in NORMAL_DERIVED):
            # process(validate=True) removes and re-winds faces inside the cache lock
            dev = "ProcessValidateUnderCacheLock"
        V.violation("MutatorsEnabled" if mm["key"] == "mutator" else "NoStaleRead:" + mm["key"], f, dev)
    # "which values were read before a mutation never changes what is read after it": the arrays a
    # mutator leaves behind must not depend on what had been read (and therefore cached) before
    sdm = seeds(trimesh)
    indep_work = [(sname, mu, vi, keys) for sname in rotation_seeds(sdm) for mu in mutators for vi in range(len(MUTATORS[mu]))]
    indep_work += [(sname, "x:" + xm, 0, keys) for sname in rotation_seeds(sdm) for xm in sorted(XMUT)]
    indep_work += [("sphere_box", mu, vi, keys) for mu in ("repair", "process", "invert") for vi in range(len(MUTATORS[mu]))]
    res3 = pmap(_indep_chunk, indep_work, chunk=6, nproc=NPROC_T if tier == "thorough" else None)
    n_indep = sum(x[1] for x in res3)
    for x in res3:
        for sname, mu, vi, sa, sb in x[0]:
            V.violation("ReadsBeforeDoNotChangeData", {"seed_mesh": sname, "mutator": "%s[%d]" % (mu, vi),
                                                       "vertices_without_reads": sa, "vertices_with_reads": sb},
                        "MergeVerticesUsesCachedNormals" if mu in ("merge", "process", "x:merge_digits") else None)
    cov["history_independence_cases"] = n_indep
    cov.update({
        "states": states, "transitions": trans,
        "traces_validated_against_impl": nrep + npair,
        "value_comparisons": nread,
        "keys": len(keys), "mutator_classes": len(mutators),
        "concrete_mutators": sum(len(v) for v in MUTATORS.values()) + len(EDITS) + len(XMUT) + len(EDIT_OPS),
        "pair_histories": npair, "tlc_histories_replayed": nrep,
        "replay_wall_s": round(time.time() - t0, 1),
        "samples": [hists[len(hists) // 3], hists[-1], {"pair": list(map(str, pair_work[len(pair_work) // 2][:4]))}],
    })
    return V.finish("model_checking", cov, assumptions=[
        "seed meshes: lattice tetrahedron, box with density/centre-of-mass overrides, two bodies, open strip with duplicated and unreferenced vertices, "
        "80-face sphere with holes, two bodies with a duplicated vertex / repeated face / degenerate face / one face wound the wrong way",
        "a mutator that raises counts only when the same call succeeds on a mesh freshly built from the arrays the subject had",
        "a value is compared only when two freshly built meshes agree on it (deterministic oracle)",
        "tolerances: 1e-9 relative for lengths/areas/volumes/unit vectors, 1e-6 for quantities obtained through arccos and facet/symmetry heuristics",
    ])


if __name__ == "__main__":
    try:
        sys.exit(main(sys.argv[1:]))
    except MachineryError as e:
        print("MACHINERY-ERROR:", e)
        sys.exit(2)
