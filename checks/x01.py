"""X01 - physical units (a component beyond the listed properties).

trimesh/units.py, Geometry.units / apply_scale / scale (trimesh/parent.py), Trimesh.convert_units,
Path.convert_units, Scene.units / Scene.convert_units / Scene.scaled, PointCloud (through
units._convert_units: it has no convert_units method of its own).

spec/Units.tla is the oracle:
 1. TLC checks the table predicates (inverse / composition law of the conversion factors, exact
    rationals over integer micrometres, inch table = metres_per(a)/metres_per(b)) and model-checks
    the unit state machine (label = last label assigned or converted to, geometry = original times the
    exact product of the factors, failed conversion changes nothing, no-op, round trip, copies carry
    the label and are independent, Scene conversion returns a consistent scaled copy).  Eight
    spec-level switches must each make TLC report the invariant they break.
 2. TLC emits the reference factor of every ordered pair of known unit names (compared with the real
    unit_conversion) and behaviours of the machine (state cover, all histories to a depth, simulated long
    ones), which are replayed into real Trimesh / Path2D / Path3D / PointCloud / Scene objects; after
    every step label(s), vertices, world placement of every scene instance, the object left behind by a
    copy and every value read (scale, bounds, extents) are compared with the state TLC computed.
Expected numbers are exponent vectors over (2,3,5,11,127,au,ly,pc) computed by TLC; Python only decodes
them to a Fraction.  The two deviations of the pinned tree (GuessSticks, MicroinchIsMil) are observed
on the tree under test and switched on in the emitted model so that the replay stays in step; every
step where the as-built successor differs from the intended one is reported under its deviation id.
"""
import copy as pycopy
import json
import os
import sys
import time
from concurrent.futures import ThreadPoolExecutor
from fractions import Fraction

import numpy as np

from harness import tlc
from harness.common import (MachineryError, Verdict, import_trimesh, pmap, seed,
                            tier_from_args, workdir)

PROP = "X01"

FLAGS = ["GuessSticks", "MicroinchIsMil", "MutNoRelabel", "MutInverse", "MutSkipPlacement",
         "MutCopyDropsLabel", "MutCopyShares", "MutGuessAlways"]

MC_INVS = ["LabelIsLastSet", "GeometryIsProduct", "FailedConvertChangesNothing", "NoUnitsNoGuessRaises",
           "UnknownNameRaises", "KnownConverts", "ConvertToCurrentIsNoop", "RoundTrip",
           "UnitsAgreeAfterConvert", "CopyCarries", "LeftBehindFrozen", "SceneConvertLeavesOriginal",
           "LogBudget"]
TABLE_INVS = ["TableInv", "TableAgrees", "ScenarioSound"]

# switch -> (kind, raws, invariant TLC must report)
SELFTESTS = {
    "GuessSticks": ("geom", "RawsQuick", "FailedConvertChangesNothing"),
    "MicroinchIsMil": ("geom", "RawsMicro", "GeometryIsProduct"),
    "MutNoRelabel": ("geom", "RawsQuick", "LabelIsLastSet"),
    "MutInverse": ("geom", "RawsQuick", "GeometryIsProduct"),
    "MutSkipPlacement": ("scene", "RawsTwo", "GeometryIsProduct"),
    "MutCopyDropsLabel": ("geom", "RawsTwo", "CopyCarries"),
    "MutCopyShares": ("scene", "RawsTwo", "LeftBehindFrozen"),
    "MutGuessAlways": ("geom", "RawsTwo", "NoUnitsNoGuessRaises"),
}


def cfg(kind="geom", raws="RawsQuick", hints="HintsSome", depth=3, view="View", invs=(), flags=()):
    lines = ["CONSTANTS", f'  Kind = "{kind}"', f"  Raws <- {raws}", "  RawsGeom <- RawsTwo",
             f"  Hints <- {hints}", "  Scales <- Scales2", f"  MaxDepth = {depth}"]
    for f in FLAGS:
        lines.append(f"  {f} = {'TRUE' if f in flags else 'FALSE'}")
    lines.append("SPECIFICATION Spec")
    if view:
        lines.append("VIEW " + view)
    lines += ["INVARIANT " + i for i in invs]
    lines.append("CHECK_DEADLOCK FALSE")
    return "\n".join(lines) + "\n"


# ------------------------------------------------------------------ decoding
class Dec:
    """exponent vector -> exact Fraction -> float (decode only; the vector is TLC's)."""

    def __init__(self, primes, formal):
        self.base = [Fraction(p) for p in primes] + [Fraction(s) for s in formal]
        self.memo = {}

    def frac(self, v):
        out = Fraction(1)
        for b, e in zip(self.base, v):
            if e:
                out *= b ** int(e)
        return out

    def __call__(self, v):
        k = tuple(v)
        if k not in self.memo:
            self.memo[k] = float(self.frac(v))
        return self.memo[k]


def lab_of(x):
    return None if x == "-" else x


# ------------------------------------------------------------------ objects
def rotz(k, t):
    c, s = [(1, 0), (0, 1), (-1, 0), (0, -1)][k % 4]
    M = np.eye(4)
    M[0, 0], M[0, 1], M[1, 0], M[1, 1] = c, -s, s, c
    M[:3, 3] = t
    return M


def build_geom(trimesh, kind, scen, hint, variant, scratch):
    o = scen[kind]
    lo, hi = np.array(o["lo"], float), np.array(o["hi"], float)
    meta = {} if hint == "-" else {"name": hint}
    if kind == "mesh":
        T = np.eye(4)
        T[:3, 3] = (lo + hi) / 2.0
        m = trimesh.creation.box(extents=hi - lo, transform=T)
        if hint != "-" and variant % 2 == 1:
            # the hint travels in the file name instead, through a real load: trimesh.load() records it in
            # obj.source.file_name, load_mesh() in metadata["name"]
            path = os.path.join(scratch, hint + ".stl")   # written by main() before the pool forks
            m = trimesh.load(path) if variant % 4 == 1 else trimesh.load_mesh(path)
        else:
            m.metadata.update(meta)
        return m
    if kind == "path2":
        pts = np.array([lo, [hi[0], lo[1]], hi, [lo[0], hi[1]], lo])
        p = trimesh.load_path(pts)
        p.metadata.update(meta)
        return p
    if kind == "path3":
        pts = np.array([lo, [hi[0], lo[1], lo[2]], [hi[0], hi[1], lo[2]], hi, [lo[0], hi[1], hi[2]], lo])
        p = trimesh.load_path(pts)
        p.metadata.update(meta)
        return p
    if kind == "cloud":
        pts = np.array([[x, y, z] for x in (lo[0], hi[0]) for y in (lo[1], hi[1]) for z in (lo[2], hi[2])]
                       + [list((lo + 2 * hi) / 3.0)])
        return trimesh.PointCloud(pts, metadata=dict(meta))
    raise MachineryError("kind " + kind)


def build_scene(trimesh, so, hint):
    geoms = {"box": trimesh.creation.box(extents=so["box"]), "cube": trimesh.creation.box(extents=so["cube"])}
    s = trimesh.Scene(metadata={} if hint == "-" else {"name": hint})
    s.graph.update(frame_to="p", frame_from="world", matrix=rotz(0, so["parent"]))
    seen = set()
    for it in so["inst"]:
        M = rotz(it["rot"], it["t"])
        if it["geom"] not in seen:
            seen.add(it["geom"])
            s.add_geometry(geoms[it["geom"]], node_name=it["node"], geom_name=it["geom"],
                           parent_node_name=it["under"], transform=M)
        else:
            s.graph.update(frame_to=it["node"], frame_from=it["under"], matrix=M, geometry=it["geom"])
    return s


def verts(obj):
    return np.array(obj.vertices, dtype=float)


def scene_instances(trimesh, s):
    """node -> (geometry name, world AABB lo, hi) from the raw graph and vertex arrays"""
    out = {}
    for n in s.graph.nodes_geometry:
        T, g = s.graph[n]
        v = trimesh.transformations.transform_points(verts(s.geometry[g]), T)
        out[str(n)] = (str(g), v.min(axis=0), v.max(axis=0))
    return out


def near(a, b, tol, ref):
    a, b = np.asarray(a, float), np.asarray(b, float)
    return a.shape == b.shape and bool(np.all(np.abs(a - b) <= tol * ref))


# ------------------------------------------------------------------ replay
class Replayer:
    def __init__(self, trimesh, table):
        self.tm = trimesh
        self.dec = Dec(table["primes"], table["formal"])
        self.geom = table["geom"]
        self.scene = table["scene"]

    # ---- state comparison: returns clause or None
    def cmp_geom(self, obj, kind, exp, V0, tol):
        want = lab_of(exp["lab"]["self"])
        if obj.units != want:
            return "LabelIsLastSet", {"units": obj.units, "exp": want}
        f = self.dec(exp["fac"])
        v = verts(obj)
        ref = f * np.abs(V0).max()
        if not near(v, V0 * f, tol, ref):
            return "GeometryIsProduct", {"factor_exp": f, "vertices0": v[:2].tolist(), "exp0": (V0[:2] * f).tolist()}
        o = self.geom[kind]
        if not (near(v.min(axis=0), np.array(o["lo"]) * f, tol, ref) and near(v.max(axis=0), np.array(o["hi"]) * f, tol, ref)):
            return "GeometryIsProduct", {"factor_exp": f, "bounds": [v.min(axis=0).tolist(), v.max(axis=0).tolist()]}
        return None

    def cmp_scene(self, s, exp, tol):
        for g, want in exp["lab"].items():
            if g not in s.geometry:
                return "SceneInstancesKept", {"missing_geometry": g}
            if s.geometry[g].units != lab_of(want):
                return "LabelIsLastSet", {"geometry": g, "units": s.geometry[g].units, "exp": lab_of(want)}
        labs = set(exp["lab"].values())
        want = lab_of(labs.pop()) if len(labs) == 1 else None
        if s.units != want:
            return "SceneUnitsAgree", {"scene_units": s.units, "exp": want}
        f, tf = self.dec(exp["fac"]), self.dec(exp["tfac"])
        inst = scene_instances(self.tm, s)
        so = self.scene
        if {n: g for n, (g, _, _) in inst.items()} != {i["node"]: i["geom"] for i in so["inst"]}:
            return "SceneInstancesKept", {"got": {n: g for n, (g, _, _) in inst.items()}}
        ref = max(f, tf) * 20.0
        for it in so["inst"]:
            _, lo, hi = inst[it["node"]]
            c, size = (lo + hi) / 2.0, hi - lo
            if not near(size, np.array(it["s"], float) * f, tol, ref):
                return "GeometryIsProduct", {"node": it["node"], "size": size.tolist(), "exp": (np.array(it["s"]) * f).tolist()}
            if not near(c, np.array(it["c2"], float) / 2.0 * tf, tol, ref):
                return "PlacementIsProduct", {"node": it["node"], "centre": c.tolist(), "exp": (np.array(it["c2"]) / 2.0 * tf).tolist()}
        return None

    def read(self, obj, kind, q, exp, tol):
        f = self.dec(exp["fac"])
        o = self.scene if kind == "scene" else self.geom[kind]
        lo, hi = np.array(o["lo"], float) * f, np.array(o["hi"], float) * f
        ref = f * max(np.abs(o["lo"]).max(), np.abs(o["hi"]).max())
        if q == "scale":
            got = obj.scale
            want = 1.0 if exp["clamp"] else o["scale"] * f
            if not near(got, want, tol, want):
                return "Read:scale", {"got": got, "exp": want}
            return None
        b, e = obj.bounds, obj.extents
        if b is None or not near(b, [lo, hi], tol, ref):
            return "Read:bounds", {"got": None if b is None else np.asarray(b).tolist(), "exp": [lo.tolist(), hi.tolist()]}
        if e is None or not near(e, hi - lo, tol, ref):
            return "Read:extents", {"got": None if e is None else np.asarray(e).tolist(), "exp": (hi - lo).tolist()}
        return None

    def replay(self, beh, kind, variant, scratch):
        """-> (list of failures [(clause, detail, deviation)], steps compared)"""
        tm = self.tm
        fails = []
        is_scene = kind == "scene"
        if is_scene:
            cur = build_scene(tm, self.scene, beh["hint"])
            V0 = None
        else:
            cur = build_geom(tm, kind, self.geom, beh["hint"], variant, scratch)
            V0 = verts(cur)
        left = None  # the object left behind by copy / Scene.convert_units
        nsteps = 0
        for i, st in enumerate(beh["h"]):
            op = st["op"]
            tol = 10.0 ** (-st["tol"])
            raised = None
            try:
                if op == "assign":
                    cur.units = st["raw"]
                elif op == "assign_geom":
                    cur.geometry[st["g"]].units = st["raw"]
                elif op == "convert":
                    if is_scene:
                        res = cur.convert_units(st["raw"], guess=st["guess"])
                        left, cur = cur, res
                    elif kind == "cloud":
                        tm.units._convert_units(cur, st["raw"], guess=st["guess"])
                    elif (variant + i) % 2:
                        cur.convert_units(st["raw"], st["guess"])
                    else:
                        cur.convert_units(desired=st["raw"], guess=st["guess"])
                elif op == "copy":
                    how = (variant + i) % 3
                    new = cur.copy() if how == 0 else pycopy.copy(cur) if how == 1 else pycopy.deepcopy(cur)
                    # a hint that lives in obj.source (file name of a trimesh.load) is not part of a copy: the
                    # history then stays on the loaded object
                    in_source = (not is_scene) and getattr(cur, "_source", None) is not None and cur.source.file_name is not None
                    if (variant // 3 + i) % 2 and not in_source:
                        left, cur = cur, new      # go on with the copy
                    else:
                        left = new                # go on with the original
                elif op == "scale":
                    cur.apply_scale(self.dec(st["k"]))
                elif op == "read":
                    pass
                else:
                    raise MachineryError("unknown op " + op)
            except MachineryError:
                raise
            except Exception as e:  # noqa
                raised = type(e).__name__ + ": " + str(e)[:80]
            nsteps += 1
            ctx = {"kind": kind, "step": i, "op": op, "raw": st["raw"], "guess": st["guess"], "hint": beh["hint"],
                   "history": [[h["op"], h["raw"], h["guess"]] for h in beh["h"][:i + 1]]}
            dev = st["dev"] or None
            if st["raised"] and raised is None:
                sub = "UnknownNameRaises" if st["src"] != "-" else "NoUnitsNoGuessRaises"
                fails.append((sub, dict(ctx, what="returned although the conversion cannot be performed"), None))
                return fails, nsteps
            if not st["raised"] and raised is not None:
                fails.append(("KnownConverts" if op == "convert" else "OperationRaised", dict(ctx, exc=raised), None))
                return fails, nsteps
            # state after the step
            bad = self.cmp_scene(cur, st, tol) if is_scene else self.cmp_geom(cur, kind, st, V0, tol)
            if bad:
                clause = "FailedConvertChangesNothing" if st["raised"] else bad[0]
                fails.append((clause, dict(ctx, **bad[1]), None))
                return fails, nsteps
            if isinstance(st["prev"], dict):
                if left is None:
                    raise MachineryError("spec has a left-behind object, replay has none")
                ptol = 10.0 ** (-st["prev"]["tol"])
                bad = self.cmp_scene(left, st["prev"], ptol) if is_scene else self.cmp_geom(left, kind, st["prev"], V0, ptol)
                if bad:
                    clause = "CopyCarries" if op == "copy" else "LeftBehindFrozen"
                    fails.append((clause, dict(ctx, other_object=bad[0], **bad[1]), None))
                    return fails, nsteps
            if op == "read":
                bad = self.read(cur, kind, st["q"], st, tol)
                if bad:
                    fails.append((bad[0], dict(ctx, **bad[1]), None))
                    return fails, nsteps
            if dev:
                # the code did what the as-built model says, and that is not what the property states
                clause = "FailedConvertChangesNothing" if dev == "FailedConvertKeepsGuessedUnits" else "GeometryIsProduct(conversion factor)"
                fails.append((clause, dict(ctx, src=st["src"], units_after=cur.units if not is_scene else None,
                                           note="as-built model followed: " + dev), dev))
        return fails, nsteps


_R = {}


def _replay_chunk(chunk):
    trimesh = import_trimesh()
    if "r" not in _R:
        _R["r"] = Replayer(trimesh, _R["table"])
    r = _R["r"]
    out, steps = [], 0
    for idx, kind, beh in chunk:
        f, n = r.replay(beh, kind, idx + seed(), _R["scratch"])
        steps += n
        for clause, detail, dev in f:
            out.append((clause, detail, dev))
    return out, steps, len(chunk)


# ------------------------------------------------------------------ the table against the real functions
def present(u, k):
    return [u, u.upper(), "  " + u + " ", u.title()][k % 4]


def check_table(trimesh, table, V, cov):
    units = trimesh.units
    dec = Dec(table["primes"], table["formal"])
    code_keys = set(units.keys())
    spec_keys = set(table["known"])
    cov["unit_names"] = {"spec": len(spec_keys), "code": len(code_keys),
                         "only_in_code(model_drift)": sorted(code_keys - spec_keys),
                         "only_in_spec": sorted(spec_keys - code_keys)}
    n = 0
    real = {}
    for k, p in enumerate(sorted(table["pairs"], key=lambda p: (p["a"], p["b"]))):
        a, b = p["a"], p["b"]
        tol = 10.0 ** (-p["tol"])
        want = dec(p["f"])
        try:
            got = units.unit_conversion(present(a, k + seed()), present(b, k // 4 + seed()))
        except Exception as e:  # noqa
            V.violation("KnownConverts(unit_conversion)", {"a": a, "b": b, "exc": type(e).__name__ + ": " + str(e)[:80]})
            continue
        n += 1
        real[(a, b)] = got
        if abs(got - want) <= tol * want:
            continue
        asb = dec(p["asb"])
        if p["asb"] != p["f"] and abs(got - asb) <= tol * asb:
            V.violation("TableAgrees(unit_conversion)", {"a": a, "b": b, "got": got, "exp": want, "exp_fraction": str(dec.frac(p["f"]))},
                        "MicroinchTableValue")
        else:
            V.violation("TableAgrees(unit_conversion)", {"a": a, "b": b, "got": got, "exp": want, "exp_fraction": str(dec.frac(p["f"]))})
    for fm in table["forms"]:
        for a, b, inv in ((fm["a"], fm["b"], False), (fm["b"], fm["a"], True)):
            try:
                got = units.unit_conversion(a, b)
            except Exception as e:  # noqa
                got = None
                if fm["known"]:
                    V.violation("KnownConverts(factor form)", {"a": a, "b": b, "exc": type(e).__name__})
            n += 1
            if not fm["known"]:
                if got is not None:
                    V.violation("UnknownNameRaises(unit_conversion)", {"a": a, "b": b, "got": got})
            elif got is not None:
                want = dec(fm["f"])
                want = 1.0 / want if inv else want
                if abs(got - want) > 1e-9 * want:
                    V.violation("TableAgrees(factor form)", {"a": a, "b": b, "got": got, "exp": want})
    # the two laws on the real floats, every name the code knows (also names the model has not heard of)
    keys = sorted(code_keys)
    uc = {}
    for a in keys:
        for b in keys:
            uc[(a, b)] = real.get((a, b)) or units.unit_conversion(a, b)
    nl = 0
    for a in keys:
        for b in keys:
            nl += 1
            if abs(uc[(a, b)] * uc[(b, a)] - 1.0) > 1e-12:
                V.violation("UnitLaws(inverse, real)", {"a": a, "b": b, "ab": uc[(a, b)], "ba": uc[(b, a)]})
            for c in keys:
                if abs(uc[(a, b)] * uc[(b, c)] - uc[(a, c)]) > 1e-12 * uc[(a, c)]:
                    V.violation("UnitLaws(composition, real)", {"a": a, "b": b, "c": c})
                nl += 1
    cov["unit_conversion_pairs_compared"] = n
    cov["law_instances_on_real_floats"] = nl
    return n


def probe_asbuilt(trimesh):
    """Which of the two known deviations does the tree under test show?  (feeds the emitted model)"""
    flags = []
    m = trimesh.creation.box(extents=[3, 4, 12])
    try:
        m.convert_units("furlongs", guess=True)
    except Exception:  # noqa
        pass
    if m.units is not None:
        flags.append("GuessSticks")
    try:
        if abs(trimesh.units.unit_conversion("microinches", "mils") - 1.0) < 1e-9:
            flags.append("MicroinchIsMil")
    except Exception:  # noqa
        pass
    return flags


# ------------------------------------------------------------------ main
def main(argv):
    tier = tier_from_args(argv)
    quick = tier == "quick"
    V = Verdict(PROP, tier)
    trimesh = import_trimesh()
    import logging
    logging.getLogger("trimesh").setLevel(logging.CRITICAL)      # "Mixed units ... returning None" is expected here
    cov = {"tlc_runs": []}
    asbuilt = probe_asbuilt(trimesh)
    cov["asbuilt_deviations_observed"] = asbuilt

    jobs = {}

    def job(name, sub, cfg_text, **kw):
        d = tlc.prepare("x01/" + sub)
        jobs[name] = (d, cfg_text, kw)

    # 1. table predicates + reference table emission; model checking of the intended design; self-tests
    job("table", "table", cfg(depth=0, hints="HintsNone", view=None, invs=TABLE_INVS + ["EmitTable"]), workers=1)
    dmc = 3 if quick else 4
    job("mc-geom", "mcg", cfg("geom", "RawsQuick", "HintsSome", dmc, invs=MC_INVS), workers=2 if quick else 8)
    job("mc-scene", "mcs", cfg("scene", "RawsQuick" if not quick else "RawsTwo", "HintsSome", dmc, invs=MC_INVS), workers=2 if quick else 8)
    for flag, (kind, raws, inv) in SELFTESTS.items():
        job("self-" + flag, "st" + flag, cfg(kind, raws, "HintsSome", 5, invs=[inv], flags=[flag]), workers=1)
    job("self-table-MicroinchIsMil", "sttab", cfg(depth=0, hints="HintsNone", view=None, invs=["TableAgrees"],
                                                   flags=["MicroinchIsMil"]), workers=1)
    # 2. emission from the as-built model of the tree under test
    e = dict(flags=asbuilt)
    if quick:
        job("emit-geom-cover", "egc", cfg("geom", "RawsCover", "HintsAll", 3, view="CoverView", invs=["EmitAll"], **e), workers=1)
        job("emit-geom-leaf", "egl", cfg("geom", "RawsQuick", "HintsSome", 2, view=None, invs=["EmitLeaf"], **e), workers=1)
        job("emit-scene-cover", "esc", cfg("scene", "RawsQuick", "HintsSome", 3, view="CoverView", invs=["EmitAll"], **e), workers=1)
        job("emit-scene-leaf", "esl", cfg("scene", "RawsTwo", "HintsSome", 2, view=None, invs=["EmitLeaf"], **e), workers=1)
        nsim, dsim = 12, 8
    else:
        job("emit-geom-cover", "egc", cfg("geom", "RawsQuick", "HintsAll", 4, view="CoverView", invs=["EmitAll"], **e), workers=1)
        job("emit-geom-cover3", "egc3", cfg("geom", "RawsCover", "HintsAll", 3, view="CoverView", invs=["EmitAll"], **e), workers=1)
        job("emit-geom-leaf", "egl", cfg("geom", "RawsQuick", "HintsSome", 3, view=None, invs=["EmitLeaf"], **e), workers=1)
        job("emit-scene-cover", "esc", cfg("scene", "RawsQuick", "HintsSome", 4, view="CoverView", invs=["EmitAll"], **e), workers=1)
        job("emit-scene-leaf", "esl", cfg("scene", "RawsTwo", "HintsSome", 3, view=None, invs=["EmitLeaf"], **e), workers=1)
        nsim, dsim = 150, 12
    for kind in ("geom", "scene"):
        job(f"emit-{kind}-sim", "sim" + kind,
            cfg(kind, "RawsWide", "HintsAll", dsim, view=None, invs=["EmitLeaf", "LogBudget"], **e),
            workers=1, simulate=f"num={nsim}", depth=dsim + 1, seed=seed() + 11)

    def run(name):
        d, cfg_text, kw = jobs[name]
        return name, tlc.run(d, "Units", cfg_text, timeout=3000, java_opts=["-XX:ParallelGCThreads=2", "-XX:CICompilerCount=2"], **kw)

    t0 = time.time()
    with ThreadPoolExecutor(max_workers=8 if quick else 6) as ex:
        results = dict(ex.map(run, list(jobs)))
    cov["tlc_wall_s"] = round(time.time() - t0, 1)
    states = trans = 0
    for name, r in results.items():
        cov["tlc_runs"].append({"run": name, "distinct": r.distinct, "generated": r.generated, "depth": r.depth,
                                "violated": r.violated, "wall_s": round(r.wall, 1)})
        states += r.distinct
        trans += r.generated
    for name in ("table", "mc-geom", "mc-scene"):
        tlc.must(results[name], name)
    selftests = {}
    for flag, (kind, raws, inv) in SELFTESTS.items():
        r = results["self-" + flag]
        selftests[flag] = r.violated
        if r.violated != inv:
            raise MachineryError(f"spec self-test {flag}: expected {inv}, TLC reported {r.violated} {r.error}\n" + r.stdout[-1500:])
    r = results["self-table-MicroinchIsMil"]
    selftests["MicroinchIsMil(table)"] = r.violated
    if r.violated != "TableAgrees":
        raise MachineryError(f"spec self-test table: expected TableAgrees, got {r.violated} {r.error}")
    cov["spec_selftests"] = selftests

    table = [p for p in results["table"].printed if isinstance(p, dict) and "pairs" in p]
    if not table:
        raise MachineryError("table emission missing")
    table = table[0]
    for raw, norm in table["raws"]:
        if raw.lower().strip() != norm:      # sanity of the spec's own string table (TLA+ has no string functions)
            raise MachineryError(f"RawTable entry {raw!r} -> {norm!r} is not lower().strip()")
    if len(table["pairs"]) < 1500:
        raise MachineryError("reference table too small")
    n_pairs = check_table(trimesh, table, V, cov)

    # 3. replay
    behs = []
    counts = {}
    for name, r in results.items():
        if not name.startswith("emit-"):
            continue
        if "sim" in name:
            if r.violated or (r.error and r.error != "timeout"):
                raise MachineryError(f"{name}: {r.violated} {r.error}\n" + r.stdout[-1500:])
        else:
            tlc.must(r, name)
        got = [b for b in r.printed if isinstance(b, dict) and "h" in b and b["h"]]
        r.printed, r.stdout = [], ""          # hundreds of MB in the thorough tier
        counts[name] = len(got)
        small = "leaf" in name
        for b in got:
            if b["kind"] == "scene":
                behs.append((len(behs), "scene", b))
            elif small or not quick:
                for k in ("mesh", "path2", "path3", "cloud"):
                    behs.append((len(behs), k, b))
            else:
                n = len(behs) + seed()
                for k in {("mesh", "path2", "path3", "cloud")[n % 4], ("path2", "cloud", "mesh", "path3")[(n // 4) % 4]}:
                    behs.append((len(behs), k, b))
    need = {"emit-geom-cover": 300, "emit-geom-leaf": 300, "emit-scene-cover": 300, "emit-scene-leaf": 100,
            "emit-geom-sim": nsim, "emit-scene-sim": nsim}
    for k, v in need.items():
        if counts.get(k, 0) < v:
            raise MachineryError(f"emission too small: {counts}")
    _R["table"] = table
    _R["scratch"] = workdir("x01/files")
    for h, _ in table["hints"]:
        if h != "-":
            build_geom(trimesh, "mesh", table["geom"], "-", 0, None).export(os.path.join(_R["scratch"], h + ".stl"))
    t0 = time.time()
    res = pmap(_replay_chunk, behs)
    n_beh = sum(r[2] for r in res)
    n_steps = sum(r[1] for r in res)
    dev_hits = {}
    for out, _, _ in res:
        for clause, detail, dev in out:
            if dev:
                dev_hits[dev] = dev_hits.get(dev, 0) + 1
            V.violation(clause, detail, dev)
    per_kind = {}
    for _, k, _ in behs:
        per_kind[k] = per_kind.get(k, 0) + 1
    ops = {}
    for _, _, b in behs:
        for st in b["h"]:
            key = st["op"] + ("!" if st["raised"] else "")
            ops[key] = ops.get(key, 0) + 1
    if n_steps < 2000 or ops.get("convert", 0) < 300 or ops.get("convert!", 0) < 100:
        raise MachineryError(f"replay too small: steps={n_steps} ops={ops}")

    def brief(b):
        return {"hint": b["hint"], "steps": [[s["op"], s["raw"], s["guess"], "raised" if s["raised"] else s["lab"], s["fac"]] for s in b["h"]]}
    cov.update({
        "states": states, "transitions": trans,
        "traces_validated_against_impl": n_beh + n_pairs,
        "behaviours_replayed": n_beh, "steps_compared": n_steps,
        "behaviours_emitted": counts, "replays_per_object_kind": per_kind, "steps_by_operation": ops,
        "deviation_steps_observed": dev_hits,
        "exhaustive": True, "replay_wall_s": round(time.time() - t0, 1),
        "samples": [brief(behs[0][2]), brief(behs[len(behs) // 2][2]), brief(behs[-1][2])],
    })
    return V.finish("model_checking", cov, assumptions=[
        "lengths are exact products of powers of 2,3,5,11,127 (exponent vectors); au / light year / parsec are formal generators "
        "decoded with the IAU metre values at relative tolerance 1e-9 / 1e-4 / 1e-8 (the table's light year is the tropical-year value)",
        "float comparison relative 1e-9 of the object's size",
        "objects: integer box mesh, rectangle Path2D, polyline Path3D, 9-point PointCloud (through units._convert_units), "
        "Scene with two instances of one box under a translated parent plus one cube",
        "assigning None to .units (stored as the string 'none') and conversion of a scene with mixed units by guessing are outside the model",
    ])


if __name__ == "__main__":
    try:
        sys.exit(main(sys.argv[1:]))
    except MachineryError as e:
        print("MACHINERY-ERROR:", e)
        sys.exit(2)
