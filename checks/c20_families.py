"""Input families of the C20 check beyond byte-level faults (helper of checks/c20.py).

* containers(): a seed file is split into (payload, rewrap): the text / JSON / XML part that the parser
  really interprets, and a function that packs a changed payload back into a *consistent* container
  (GLB chunk lengths, zip members with fresh CRCs, binary PLY / binvox header + untouched body), so a
  changed field reaches the parser instead of being rejected by the container checks.
* numeric_tokens(): every integer / float token of a payload, to be replaced by a value class.
* value classes are symbolic and come from TLC (Loader.tla, CountClasses / RealClasses); int_value()
  and real_value() interpret them for a field whose present value is n.
"""
import io
import json
import re
import struct
import zipfile

INT_RE = re.compile(rb"(?<![\w.+\-])-?\d+(?![\w.]|[eE][+\-]?\d)")
REAL_RE = re.compile(rb"(?<![\w.+\-])-?(?:\d+\.\d*|\.\d+|\d+(?=[eE]))(?:[eE][+\-]?\d+)?(?![\w.])")


# ------------------------------------------------------------------ containers
def glb_split(data):
    if data[:4] != b"glTF" or len(data) < 20:
        return None
    jlen = struct.unpack("<I", data[12:16])[0]
    js = data[20:20 + jlen]
    rest = data[20 + jlen:]

    def rewrap(new):
        new = new.rstrip(b" ")
        new += b" " * ((4 - len(new) % 4) % 4)
        total = 12 + 8 + len(new) + len(rest)
        return data[:8] + struct.pack("<I", total) + struct.pack("<I", len(new)) + data[16:20] + new + rest
    return js, rewrap


def zip_split(data, pick):
    """payload = the member selected by pick(names); rewrap re-zips every member (valid CRCs)"""
    try:
        z = zipfile.ZipFile(io.BytesIO(data))
        names = z.namelist()
        members = [(n, z.read(n)) for n in names]
    except Exception:
        return None
    name = pick(names)
    if name is None:
        return None

    def rewrap(new):
        bio = io.BytesIO()
        with zipfile.ZipFile(bio, "w", zipfile.ZIP_DEFLATED) as out:
            for n, b in members:
                out.writestr(n, new if n == name else b)
        return bio.getvalue()
    return dict(members)[name], rewrap


def head_split(data, end_marker):
    i = data.find(end_marker)
    if i < 0:
        return None
    i += len(end_marker)
    head, body = data[:i], data[i:]
    return head, (lambda new: new + body)


def split(key, data):
    """(payload, rewrap) for a seed key, or None when the format has no container"""
    ft = key.split("@")[0]
    if ft == "glb":
        return glb_split(data)
    if ft == "3mf":
        return zip_split(data, lambda names: next((n for n in names if n.lower().endswith(".model")), None))
    if ft in ("zip", "zae"):
        return zip_split(data, lambda names: next((n for n in names if n.lower().rsplit(".", 1)[-1] in ("obj", "dae", "stl", "ply")), None))
    if ft == "ply" and b"format ascii" not in data[:64]:
        return head_split(data, b"end_header\n")
    if ft == "binvox":
        return head_split(data, b"data\n")
    if ft == "stl":
        return None
    return data, (lambda new: new)


# ------------------------------------------------------------------ numeric tokens
def numeric_tokens(payload):
    """[(start, end, 'int'|'real', text)] of every numeric token, in file order"""
    out = [(m.start(), m.end(), "int", m.group(0)) for m in INT_RE.finditer(payload)]
    out += [(m.start(), m.end(), "real", m.group(0)) for m in REAL_RE.finditer(payload)]
    out.sort()
    return out


def int_value(cls, n):
    """interpret a symbolic integer class emitted by TLC for a field whose present value is n"""
    base = {"zero": 0, "n": n, "one": 1}[cls["base"]]
    v = base + cls["delta"]
    if cls["pow"] > 0:
        v += 2 ** cls["pow"]
    if cls["mul"] != 1:
        v *= cls["mul"]
    return -v if cls["neg"] else v


REALS = {"nan": b"nan", "inf": b"inf", "neginf": b"-inf", "huge": b"1e400", "tiny": b"1e-400", "negzero": b"-0.0",
         "max": b"1.7976931348623157e308", "broken": b"1e", "hex": b"0x1p3", "long": b"0." + b"123456789" * 40,
         "int": b"7", "empty": b""}


def real_value(name):
    return REALS[name]


def replace(payload, tok, new):
    return payload[:tok[0]] + new + payload[tok[1]:]


# ------------------------------------------------------------------ binary count fields
def binary_fields(key, data):
    """[(offset, width, '<'|'>')] of the binary integer fields a loader multiplies or seeks by"""
    ft = key.split("@")[0]
    out = []
    if ft == "stl" and len(data) >= 84:
        out.append((80, 4, "<"))
    if ft == "glb" and len(data) >= 20:
        out += [(8, 4, "<"), (12, 4, "<")]
        jlen = struct.unpack("<I", data[12:16])[0]
        if 20 + jlen + 8 <= len(data):
            out.append((20 + jlen, 4, "<"))
    if ft in ("3mf", "zip", "zae"):
        # zip container: sizes, name / extra lengths and offsets of the first local header, the first central
        # directory entry and the end-of-central-directory record (zipfile trusts several of them)
        for sig, offs in ((b"PK\x03\x04", ((18, 4), (22, 4), (26, 2), (28, 2))),
                          (b"PK\x01\x02", ((20, 4), (24, 4), (28, 2), (30, 2), (32, 2), (42, 4))),
                          (b"PK\x05\x06", ((8, 2), (10, 2), (12, 4), (16, 4), (20, 2)))):
            i = data.find(sig)
            if i >= 0:
                out += [(i + o, w, "<") for o, w in offs if i + o + w <= len(data)]
    return out


def set_field(data, field, value):
    off, width, end = field
    value %= 1 << (8 * width)
    return data[:off] + value.to_bytes(width, "little" if end == "<" else "big") + data[off + width:]


def get_field(data, field):
    off, width, end = field
    return int.from_bytes(data[off:off + width], "little" if end == "<" else "big")


# ------------------------------------------------------------------ hand-made PLY variants
PLY_TYPES = {"char": "b", "uchar": "B", "short": "h", "ushort": "H", "int": "i", "uint": "I", "float": "f", "double": "d"}


def ply_variant(endian, count_type, index_type, coord_type="float", quads=False, extra_list=False):
    """A valid binary PLY of a tetrahedron (or two quads) that trimesh's exporter never writes: either endianness,
    any list count / index type, double coordinates, an extra per-face scalar list."""
    e = {"little": "<", "big": ">"}[endian]
    verts = [(0, 0, 0), (1, 0, 0), (0, 1, 0), (0, 0, 1)]
    faces = [(0, 1, 2, 3), (3, 2, 1, 0)] if quads else [(0, 2, 1), (0, 1, 3), (0, 3, 2), (1, 2, 3)]
    head = ["ply", "format binary_%s_endian 1.0" % endian, "element vertex %d" % len(verts)]
    head += ["property %s %s" % (coord_type, a) for a in "xyz"]
    head += ["element face %d" % len(faces), "property list %s %s vertex_indices" % (count_type, index_type)]
    if extra_list:
        head.append("property uchar flag")
    head.append("end_header")
    body = b""
    for v in verts:
        body += struct.pack(e + "3" + PLY_TYPES[coord_type], *[float(x) for x in v])
    for f in faces:
        body += struct.pack(e + PLY_TYPES[count_type], len(f))
        body += struct.pack(e + str(len(f)) + PLY_TYPES[index_type], *f)
        if extra_list:
            body += b"\x01"
    return ("\n".join(head) + "\n").encode() + body


def ply_list_fields(data):
    """offsets of the list-length fields inside the body of a ply_variant() file"""
    head = data[:data.find(b"end_header\n") + 11]
    m = re.search(rb"format binary_(\w+)_endian", head)
    e = "<" if m.group(1) == b"little" else ">"
    nv = int(re.search(rb"element vertex (\d+)", head).group(1))
    nf = int(re.search(rb"element face (\d+)", head).group(1))
    ct, it = re.search(rb"property list (\w+) (\w+) vertex_indices", head).groups()
    coord = re.search(rb"property (\w+) x", head).group(1).decode()
    cs, isz = struct.calcsize(PLY_TYPES[ct.decode()]), struct.calcsize(PLY_TYPES[it.decode()])
    extra = 1 if b"property uchar flag" in head else 0
    off = len(head) + nv * 3 * struct.calcsize(PLY_TYPES[coord])
    out = []
    for _ in range(nf):
        out.append((off, cs, e))
        k = get_field(data, (off, cs, e))
        off += cs + k * isz + extra
    return out


# ------------------------------------------------------------------ JSON structure (glTF)
def json_paths(obj, path=()):
    """every (path, value) of a JSON tree, containers included"""
    yield path, obj
    if isinstance(obj, dict):
        for k, v in obj.items():
            yield from json_paths(v, path + (k,))
    elif isinstance(obj, list):
        for i, v in enumerate(obj):
            yield from json_paths(v, path + (i,))


def json_set(obj, path, value, delete=False):
    """deep copy of obj with the node at path replaced (or deleted)"""
    obj = json.loads(json.dumps(obj))
    cur = obj
    for p in path[:-1]:
        cur = cur[p]
    if delete:
        del cur[path[-1]]
    else:
        cur[path[-1]] = value
    return obj


STRUCT_VALUES = {"null": None, "empty_list": [], "empty_dict": {}, "string": "x", "real": 1.5, "true": True,
                 "nested": [[0]], "neg": -1, "big": 10 ** 12}


# ------------------------------------------------------------------ further seed files
def _tar(members, mode):
    import tarfile
    bio = io.BytesIO()
    with tarfile.open(fileobj=bio, mode=mode) as t:
        for n, b in members.items():
            ti = tarfile.TarInfo(n)
            ti.size = len(b)
            t.addfile(ti, io.BytesIO(b))
    return bio.getvalue()


def gltf_embedded(files):
    """model.gltf with every buffer / image uri replaced by a base64 data uri (one self-contained text file)"""
    import base64
    tree = json.loads(files["model.gltf"])
    for sect in ("buffers", "images"):
        for b in tree.get(sect, []):
            if "uri" in b and b["uri"] in files:
                b["uri"] = "data:application/octet-stream;base64," + base64.b64encode(files[b["uri"]]).decode()
    return json.dumps(tree).encode()


def extra_seeds(tm, sd):
    """seed files of the registered loaders the exporters alone never reach: the other archive containers,
    a self-contained text glTF, binary PLY flavours (big endian, wide list counts, doubles, quads)"""
    import bz2
    out = {}
    obj = sd.get("obj")
    stl = sd.get("stl")
    if obj and stl:
        out["tar.gz"] = _tar({"a.obj": obj, "b.stl": stl}, "w:gz")
        out["tar.bz2"] = _tar({"a.obj": obj}, "w:bz2")
        out["bz2"] = bz2.compress(stl)
    if "dae" in sd:
        bio = io.BytesIO()
        with zipfile.ZipFile(bio, "w") as z:
            z.writestr("model.dae", sd["dae"])
        out["zae"] = bio.getvalue()
    try:
        box = tm.creation.box(extents=[1, 2, 3])
        files = tm.Scene(box).export(file_type="gltf")
        out["gltf@embedded"] = gltf_embedded(files)
    except BaseException:
        pass
    out["ply@big_int"] = ply_variant("big", "int", "int")
    out["ply@quads"] = ply_variant("little", "ushort", "uint", "double", quads=True, extra_list=True)
    return out


def bundles(tm):
    """assets made of several files: name -> (file type, main file bytes, {sidecar name: bytes})"""
    import numpy as np
    out = {}
    try:
        from PIL import Image
        img = Image.fromarray((np.arange(48).reshape(4, 4, 3) * 5).astype(np.uint8))
        box = tm.creation.box(extents=[1, 2, 3])
        uv = np.random.RandomState(0).rand(len(box.vertices), 2)
        box.visual = tm.visual.TextureVisuals(uv=uv, image=img)
        obj, tex = box.export(file_type="obj", include_texture=True, return_texture=True)
        out["obj+mtl"] = ("obj", obj.encode() if isinstance(obj, str) else obj, dict(tex))
    except BaseException:
        pass
    try:
        box = tm.creation.box(extents=[1, 2, 3])
        files = dict(tm.Scene(box).export(file_type="gltf"))
        main = files.pop("model.gltf")
        out["gltf+bin"] = ("gltf", main, files)
    except BaseException:
        pass
    return out


def bundle_mutations(ftype, main, aux, rs, n_cuts):
    """(how, main', aux') : the references of the main file and the sidecars themselves are damaged"""
    names = sorted(aux)
    yield {"bundle": "valid"}, main, aux
    for name in names:
        b = aux[name]
        yield {"sidecar": name, "op": "missing"}, main, {k: v for k, v in aux.items() if k != name}
        yield {"sidecar": name, "op": "empty"}, main, dict(aux, **{name: b""})
        step = max(1, len(b) // n_cuts)
        for cut in range(1, len(b), step):
            yield {"sidecar": name, "op": "truncate", "at": cut}, main, dict(aux, **{name: b[:cut]})
        for _ in range(n_cuts):
            pos = int(rs.randint(0, max(1, len(b))))
            w = int(rs.randint(1, 5))
            c = bytearray(b)
            c[pos:pos + w] = bytes(rs.randint(0, 256, size=w).tolist())
            yield {"sidecar": name, "op": "corrupt", "at": pos, "width": w}, main, dict(aux, **{name: bytes(c)})
        # the reference in the main file
        enc = name.encode()
        if enc in main:
            for new in (b"missing.bin", b"../" + enc, b"/" + enc, b"./" + enc, b"", enc + b"/", b"data:;base64,!!!!", enc * 40):
                yield {"reference": name, "to": new.decode()[:40]}, main.replace(enc, new, 1), aux
    step = max(1, len(main) // n_cuts)
    for cut in range(0, len(main), step):
        yield {"main": "truncate", "at": cut}, main[:cut], aux
    for _ in range(2 * n_cuts):
        pos = int(rs.randint(0, len(main)))
        w = int(rs.randint(1, 5))
        c = bytearray(main)
        c[pos:pos + w] = bytes(rs.randint(0, 256, size=w).tolist())
        yield {"main": "corrupt", "at": pos, "width": w}, bytes(c), aux


# ------------------------------------------------------------------ families over the value classes of Loader.tla
ESSENTIAL = [  # integer classes every chosen token gets in the quick tier (the others are sampled)
    {"base": "zero", "delta": 0, "pow": 0, "mul": 1, "neg": False},
    {"base": "zero", "delta": -1, "pow": 0, "mul": 1, "neg": False},
    {"base": "n", "delta": 1, "pow": 0, "mul": 1, "neg": False},
    {"base": "n", "delta": -1, "pow": 0, "mul": 1, "neg": False},
    {"base": "zero", "delta": 0, "pow": 31, "mul": 1, "neg": False},
    {"base": "n", "delta": 0, "pow": 32, "mul": 1, "neg": False},
    {"base": "zero", "delta": 0, "pow": 63, "mul": 1, "neg": False},
    {"base": "zero", "delta": 0, "pow": 100, "mul": 1, "neg": False},
]


def class_name(cls):
    s = {"zero": "", "n": "n", "one": "1"}[cls["base"]]
    if cls["delta"]:
        s += "%+d" % cls["delta"]
    if cls["pow"]:
        s += "+2^%d" % cls["pow"]
    if cls["mul"] != 1:
        s = "%d*(%s)" % (cls["mul"], s)
    return ("-(%s)" % s if cls["neg"] else s) or "0"


def token_family(key, data, ints, reals, rs, quick):
    """(how, bytes): numeric tokens of the payload replaced by value classes, container kept consistent"""
    sp = split(key, data)
    if sp is None:
        return
    payload, rewrap = sp
    toks = numeric_tokens(payload)
    if not toks:
        return
    if quick:
        idx = list(range(min(12, len(toks))))
        rest = list(range(len(idx), len(toks)))
        idx += [rest[i] for i in rs.choice(len(rest), size=min(len(rest), 20), replace=False)] if rest else []
        per_tok = len(ESSENTIAL) + 3
    else:
        # thorough: every class on every token for small files; for big ones the job volume is bounded
        idx = list(range(len(toks)))
        if len(idx) > 300:
            idx = idx[:60] + [int(i) for i in rs.choice(np_range(60, len(toks)), size=240, replace=False)]
        budget = max(600, 8_000_000 // max(1, len(data)))
        per_tok = max(len(ESSENTIAL) + 3, min(len(ints), budget // len(idx)))
    for ti in idx:
        t = toks[ti]
        if t[2] == "int":
            try:
                n = int(t[3])
            except ValueError:
                continue
            if per_tok >= len(ints):
                chosen = ints
            else:
                chosen = ESSENTIAL + [ints[i] for i in rs.choice(len(ints), size=per_tok - len(ESSENTIAL), replace=False)]
            seen = set()
            for cl in chosen:
                v = int_value(cl, n)
                if v in seen or v == n:
                    continue
                seen.add(v)
                yield {"token": ti, "at": t[0], "was": t[3].decode()[:20], "class": class_name(cl)}, rewrap(replace(payload, t, str(v).encode()))
        else:
            chosen = [reals[i] for i in rs.choice(len(reals), size=3, replace=False)] if per_tok < len(ints) else reals
            for nm in chosen:
                yield {"token": ti, "at": t[0], "was": t[3].decode()[:20], "real_class": nm}, rewrap(replace(payload, t, real_value(nm)))


def np_range(a, b):
    import numpy as np
    return np.arange(a, b)


def field_family(data, fields, ints, rs, quick, bits=True):
    """(how, bytes): a fixed-width binary field gets every single-bit flip and every value class modulo its width"""
    for fld in fields:
        n = get_field(data, fld)
        width = 8 * fld[1]
        seen = {n}
        if bits:
            for bit in range(width):
                v = n ^ (1 << bit)
                seen.add(v)
                yield {"field_at": fld[0], "width": fld[1], "flip_bit": bit}, set_field(data, fld, v)
        chosen = ints if not quick else ESSENTIAL + [ints[i] for i in rs.choice(len(ints), size=12, replace=False)]
        for cl in chosen:
            v = int_value(cl, n) % (1 << width)
            if v in seen:
                continue
            seen.add(v)
            yield {"field_at": fld[0], "width": fld[1], "class": class_name(cl)}, set_field(data, fld, v)


def ply_variants(rs, quick):
    """valid binary PLY files in the flavours the exporter never writes"""
    allv = [(e, ct, it, kw) for e in ("little", "big") for ct in ("char", "uchar", "short", "ushort", "int", "uint")
            for it in ("int", "uint", "ushort", "uchar", "short")
            for kw in ({}, {"coord_type": "double"}, {"quads": True}, {"extra_list": True}, {"quads": True, "extra_list": True, "coord_type": "double"})]
    if quick:
        keep = [("little", "uchar", "int", {}), ("big", "int", "int", {}), ("big", "uint", "uint", {"extra_list": True}), ("little", "int", "int", {"quads": True})]
        pick = rs.choice(len(allv), size=8, replace=False)
        allv = keep + [allv[i] for i in pick]
    for e, ct, it, kw in allv:
        yield "ply@%s_%s_%s%s" % (e, ct, it, "".join("_" + k for k in sorted(kw))), ply_variant(e, ct, it, **kw)


def json_family(key, data, structs, ints, rs, quick):
    """(how, bytes): the JSON tree of a glTF is damaged structurally (node deleted / replaced by another kind of
    value), accessors lose their bufferView while their count takes a value class, nodes form cycles"""
    ft = key.split("@")[0]
    if ft == "glb":
        sp = glb_split(data)
        if sp is None:
            return
        js, rewrap = sp
    elif ft == "gltf":
        js, rewrap = data, (lambda new: new)
    else:
        return
    try:
        tree = json.loads(js)
    except ValueError:
        return

    def pack(t):
        return rewrap(json.dumps(t).encode())
    paths = [p for p, _ in json_paths(tree) if p]
    if quick and len(paths) > 60:
        paths = [paths[i] for i in rs.choice(len(paths), size=60, replace=False)]
    for path in paths:
        for nm in (structs if not quick else [structs[i] for i in rs.choice(len(structs), size=3, replace=False)]):
            if nm == "delete":
                yield {"json_path": "/".join(map(str, path)), "struct": nm}, pack(json_set(tree, path, None, delete=True))
            else:
                yield {"json_path": "/".join(map(str, path)), "struct": nm}, pack(json_set(tree, path, STRUCT_VALUES[nm]))
    big = [c for c in ints if not c["neg"] and c["pow"] >= 20 and c["base"] == "zero" and c["delta"] == 0]
    for ai, a in enumerate(tree.get("accessors", [])):
        chosen = big if not quick else [big[i] for i in rs.choice(len(big), size=min(4, len(big)), replace=False)]
        for cl in chosen:
            t2 = json_set(tree, ("accessors", ai, "count"), int_value(cl, int(a.get("count", 0))))
            t2["accessors"][ai].pop("bufferView", None)
            yield {"accessor": ai, "without": "bufferView", "count": class_name(cl)}, pack(t2)
    nodes = tree.get("nodes") or []
    if nodes:
        n = len(nodes)
        for nm, ch0, chl in (("self", [0], None), ("ring", [n - 1], [0]), ("dense", list(range(n)) * 40, list(range(n)) * 40)):
            t2 = json.loads(json.dumps(tree))
            t2["nodes"][0]["children"] = ch0
            if chl is not None:
                t2["nodes"][-1]["children"] = chl
            yield {"node_cycle": nm}, pack(t2)


MODES = ["pathlib", "upper", "offset", "realfile", "twice",
         "kw:process_false", "kw:force_mesh", "kw:force_scene", "kw:skip_materials", "kw:merge_primitives",
         "kw:ignore_broken", "kw:maintain_order", "kw:split_object", "kw:merge_tex", "kw:prefer_color", "kw:fix_texture_false"]
KWARGS = {"process_false": {"process": False}, "force_mesh": {"force": "mesh"}, "force_scene": {"force": "scene"},
          "skip_materials": {"skip_materials": True}, "merge_primitives": {"merge_primitives": True},
          "ignore_broken": {"ignore_broken": True}, "maintain_order": {"maintain_order": True},
          "split_object": {"split_object": True, "group_material": False}, "merge_tex": {"merge_tex": True, "merge_norm": True},
          "prefer_color": {"prefer_color": "face"}, "fix_texture_false": {"fix_texture": False}}


# ------------------------------------------------------------------ other valid files than the one small box
def geometry_variants(tm):
    """(key, bytes, how): fresh exports of other geometry than the seed box / drawing: scaled by powers of two
    (coordinates of 1e-6 .. 1e9 drawing units), far from the origin, larger, and degenerate (empty, one face,
    zero-area faces, non-finite coordinates); every one is a valid file of its format"""
    import numpy as np
    from trimesh.path.entities import Arc, Line
    mesh_formats = ("stl", "stl_ascii", "off", "obj", "glb", "3mf", "dae", "ply")
    box = tm.creation.box(extents=[1, 2, 3])

    def meshes():
        for k in (-20, 10, 20, 30):
            m = box.copy()
            m.apply_scale(2.0 ** k)
            yield {"mesh": "box", "scale": "2^%d" % k}, m
        m = box.copy()
        m.apply_translation([2.0 ** 24, -2.0 ** 24, 2.0 ** 20])
        yield {"mesh": "box", "translated": "2^24"}, m
        yield {"mesh": "icosphere", "faces": 320}, tm.creation.icosphere(subdivisions=2)
        yield {"mesh": "one_face"}, tm.Trimesh(vertices=[[0, 0, 0], [1, 0, 0], [0, 1, 0]], faces=[[0, 1, 2]], process=False)
        yield {"mesh": "zero_area_faces"}, tm.Trimesh(vertices=[[0, 0, 0], [1, 0, 0], [2, 0, 0], [0, 0, 0]], faces=[[0, 1, 2], [0, 0, 3], [1, 1, 1]], process=False)
        yield {"mesh": "empty"}, tm.Trimesh()
        m = box.copy()
        m.vertices[0] = [np.nan, np.inf, -np.inf]
        yield {"mesh": "non_finite_vertex"}, m

    for how, m in meshes():
        for ft in mesh_formats:
            try:
                data = m.export(file_type=ft) if ft != "ply" else m.export(file_type="ply", encoding="ascii" if how.get("scale") == "2^10" else "binary")
            except BaseException:
                continue
            if isinstance(data, str):
                data = data.encode("utf-8")
            if isinstance(data, (bytes, bytearray)) and len(data) > 0:
                yield ft, bytes(data), how

    def paths():
        for k in (-20, 0, 10, 20, 30, 40):
            r = 2.0 ** k
            yield {"path": "half_circle_and_chord", "radius": "2^%d" % k}, tm.path.Path2D(
                entities=[Arc([0, 1, 2]), Line([2, 0])], vertices=np.array([[r, 0], [0, r], [-r, 0]], dtype=float), process=False)
            yield {"path": "shallow_arc", "radius": "2^%d" % k}, tm.path.Path2D(
                entities=[Arc([0, 1, 2])], vertices=np.array([[-1e-3 * r, r * (1 - 5e-7)], [0, r], [1e-3 * r, r * (1 - 5e-7)]], dtype=float), process=False)
        n = 60
        t = np.linspace(0, 2 * np.pi, n, endpoint=False)
        yield {"path": "polygon", "segments": n}, tm.path.Path2D(entities=[Line(list(range(n)) + [0])], vertices=np.column_stack((np.cos(t), np.sin(t))) * 7, process=False)
        yield {"path": "single_point_line"}, tm.path.Path2D(entities=[Line([0, 0])], vertices=np.array([[0.0, 0.0]]), process=False)
        yield {"path": "collinear_arc"}, tm.path.Path2D(entities=[Arc([0, 1, 2])], vertices=np.array([[0.0, 0], [1, 0], [2, 0]]), process=False)

    for how, p in paths():
        for ft in ("dxf", "svg"):
            try:
                data = p.export(file_type=ft)
            except BaseException:
                continue
            if isinstance(data, str):
                data = data.encode("utf-8")
            if isinstance(data, (bytes, bytearray)) and len(data) > 0:
                yield ft, bytes(data), how


# ------------------------------------------------------------------ attribution of memory observations
def memory_deviation(ft, data, bypath):
    """Name of the known root cause a memory observation belongs to, decided from the input bytes alone
    (None: unexplained).  Only used to attribute; an id that is not listed in known_findings.jsonl stays a violation.
      StlFaceCountWraps             binary STL whose face count passes the length check only modulo 2^32
      GlbChunkLengthTrusted         GLB loaded by path with a chunk length beyond the end of the file
      GltfAccessorWithoutBufferView glTF accessor without bufferView whose count alone sizes an array > 16 MiB
      ZipMemberSizeTrusted          zip container loaded by path, central directory compressed size beyond the archive
    """
    try:
        if ft == "stl" and len(data) >= 84:
            c = int.from_bytes(data[80:84], "little")
            n = len(data) - 84
            if c * 50 != n and (c * 50) % 2 ** 32 == n % 2 ** 32:
                return "StlFaceCountWraps"
        if ft == "glb" and len(data) >= 20 and data[:4] == b"glTF":
            jlen = int.from_bytes(data[12:16], "little")
            if bypath and jlen > len(data) - 20:
                return "GlbChunkLengthTrusted"
            off = 20 + jlen
            if bypath and off + 8 <= len(data) and int.from_bytes(data[off:off + 4], "little") > len(data) - off - 8:
                return "GlbChunkLengthTrusted"
        if ft in ("glb", "gltf"):
            js = data
            if ft == "glb":
                sp = glb_split(data)
                js = sp[0] if sp else b""
            tree = json.loads(js)
            per = {"SCALAR": 1, "VEC2": 2, "VEC3": 3, "VEC4": 4, "MAT2": 4, "MAT3": 9, "MAT4": 16}
            for a in tree.get("accessors", []):
                if isinstance(a, dict) and "bufferView" not in a and isinstance(a.get("count"), int) \
                        and a["count"] * per.get(a.get("type"), 1) > 2 ** 24:
                    return "GltfAccessorWithoutBufferView"
        if ft in ("zip", "3mf", "zae", "3dxml") and bypath:
            i = data.find(b"PK\x01\x02")
            while i >= 0:
                if int.from_bytes(data[i + 20:i + 24], "little") > len(data):
                    return "ZipMemberSizeTrusted"
                i = data.find(b"PK\x01\x02", i + 4)
    except Exception:
        return None
    return None


# ------------------------------------------------------------------ round 2: pairs of fields, references, post-parse failures
def pair_family(data, fields, pairs, rs, limit=None):
    """(how, bytes): two ADJACENT fixed-width fields take a pair of (large) value classes together - a bound that a
    loader takes from one corruptible field to judge the next one (declared total length / chunk length)"""
    adj = [(a, b) for a in fields for b in fields if a[0] + a[1] == b[0]]
    for a, b in adj:
        combos = [(ca, cb) for ca, cb in pairs]
        if limit is not None and len(combos) > limit:
            combos = [combos[i] for i in rs.choice(len(combos), size=limit, replace=False)]
        for ca, cb in combos:
            va = int_value(ca, get_field(data, a)) % (1 << (8 * a[1]))
            vb = int_value(cb, get_field(data, b)) % (1 << (8 * b[1]))
            yield ({"fields_at": [a[0], b[0]], "classes": [class_name(ca), class_name(cb)]},
                   set_field(set_field(data, a, va), b, vb))


REF_ATTR = re.compile(rb'([\w:]+)\s*=\s*"(#?)([^"#<>]{1,40})"')


def reference_family(key, data, rs, limit=None):
    """(how, bytes): in an XML payload every attribute that refers to an id defined in the same payload (3MF objectid,
    collada url / source / target ...) is pointed at every other defined id, its own element's included, so that
    reference graphs with cycles, self references and dangling types reach the loader; container re-framed"""
    sp = split(key, data)
    if sp is None:
        return
    payload, rewrap = sp
    if b"<" not in payload[:200]:
        return
    attrs = list(REF_ATTR.finditer(payload))
    ids = []
    for m in attrs:
        if m.group(1).lower() in (b"id", b"xml:id") and m.group(3) not in ids:
            ids.append(m.group(3))
    # a reference: an attribute named ...id (objectid, pid, ...) or written "#name", whose value is a defined id
    # (vertex indices v1/v2/v3 that happen to equal an id are not references)
    refs = [m for m in attrs if m.group(1).lower() not in (b"id", b"xml:id") and m.group(3) in ids
            and (m.group(1).lower().endswith(b"id") or m.group(2) == b"#")]
    combos = [(m, i) for m in refs for i in ids if i != m.group(3)]
    if limit is not None and len(combos) > limit:
        combos = [combos[i] for i in sorted(rs.choice(len(combos), size=limit, replace=False))]
    for m, i in combos:
        a, b = m.span(3)
        yield ({"reference": m.group(1).decode(), "at": a, "was": m.group(3).decode(), "to": i.decode()},
               rewrap(payload[:a] + i + payload[b:]))


def assembly_seeds(tm):
    """valid files whose inner structure has references between parts: an instanced, nested scene"""
    out = {}
    T = tm.transformations.translation_matrix
    box = tm.creation.box(extents=[1, 2, 3])
    scene = tm.Scene()
    scene.add_geometry(box, node_name="a", geom_name="box", transform=T([1, 0, 0]))
    scene.add_geometry(box, node_name="b", geom_name="box", parent_node_name="a", transform=T([3, 0, 0]))
    scene.add_geometry(tm.creation.icosphere(subdivisions=0), node_name="c", geom_name="ball", parent_node_name="b", transform=T([0, 2, 0]))
    for ft in ("3mf", "glb", "dae"):
        try:
            d = scene.export(file_type=ft)
            if isinstance(d, (bytes, bytearray)) and len(d) > 0:
                out[ft + "@assembly"] = bytes(d)
        except BaseException:
            pass
    return out


POST_PARSE_REALS = ("nan", "inf", "neginf", "huge", "max")


def post_parse_family(key, data, reals, rs, limit):
    """(how, bytes): values that still PARSE but make the construction of the geometry object fail afterwards
    (non-finite / overflowing coordinates): the failure comes after the format loader has returned"""
    sp = split(key, data)
    if sp is None:
        return
    payload, rewrap = sp
    toks = [t for t in numeric_tokens(payload) if t[2] == "real"]
    if len(toks) > limit:
        toks = toks[:limit // 2] + [toks[i] for i in sorted(rs.choice(np_range(limit // 2, len(toks)), size=limit - limit // 2, replace=False))]
    for t in toks:
        for nm in reals:
            if nm in POST_PARSE_REALS:
                yield {"token_at": t[0], "was": t[3].decode()[:20], "real_class": nm}, rewrap(replace(payload, t, real_value(nm)))
