"""Input families of the C20 check beyond byte-level faults (helper of checks/c20.py).

* containers(): a seed file is split into (payload, rewrap): the text / JSON / XML part that the parser
  really interprets, and a function that packs a changed payload back into a *consistent* container
  (GLB chunk lengths, zip members with fresh CRCs, binary PLY / binvox header + untouched body), so a
  changed field reaches the parser instead of being rejected by the container checks.
* numeric_tokens(): every integer / float token of a payload, to be replaced by a value class.
* value classes are symbolic and come from TLC (Loader.tla, CountClasses / RealClasses); int_value()
  and real_value() interpret them for a field whose present value is n.
"""
import io
import json
import re
import struct
import zipfile

INT_RE = re.compile(rb"(?<![\w.+\-])-?\d+(?![\w.]|[eE][+\-]?\d)")
REAL_RE = re.compile(rb"(?<![\w.+\-])-?(?:\d+\.\d*|\.\d+|\d+(?=[eE]))(?:[eE][+\-]?\d+)?(?![\w.])")


# ------------------------------------------------------------------ containers
def glb_split(data):
    if data[:4] != b"glTF" or len(data) < 20:
        return None
    jlen = struct.unpack("<I", data[12:16])[0]
    js = data[20:20 + jlen]
    rest = data[20 + jlen:]

    def rewrap(new):
        new = new.rstrip(b" ")
        new += b" " * ((4 - len(new) % 4) % 4)
        total = 12 + 8 + len(new) + len(rest)
        return data[:8] + struct.pack("<I", total) + struct.pack("<I", len(new)) + data[16:20] + new + rest
    return js, rewrap


def zip_split(data, pick):
    """payload = the member selected by pick(names); rewrap re-zips every member (valid CRCs)"""
    try:
        z = zipfile.ZipFile(io.BytesIO(data))
        names = z.namelist()
        members = [(n, z.read(n)) for n in names]
    except Exception:
        return None
    name = pick(names)
    if name is None:
        return None

    def rewrap(new):
        bio = io.BytesIO()
        with zipfile.ZipFile(bio, "w", zipfile.ZIP_DEFLATED) as out:
            for n, b in members:
                out.writestr(n, new if n == name else b)
        return bio.getvalue()
    return dict(members)[name], rewrap


def head_split(data, end_marker):
    i = data.find(end_marker)
    if i < 0:
        return None
    i += len(end_marker)
    head, body = data[:i], data[i:]
    return head, (lambda new: new + body)


def split(key, data):
    """(payload, rewrap) for a seed key, or None when the format has no container"""
    ft = key.split("@")[0]
    if ft == "glb":
        return glb_split(data)
    if ft == "3mf":
        return zip_split(data, lambda names: next((n for n in names if n.lower().endswith(".model")), None))
    if ft in ("zip", "zae"):
        return zip_split(data, lambda names: next((n for n in names if n.lower().rsplit(".", 1)[-1] in ("obj", "dae", "stl", "ply")), None))
    if ft == "ply" and b"format ascii" not in data[:64]:
        return head_split(data, b"end_header\n")
    if ft == "binvox":
        return head_split(data, b"data\n")
    if ft == "stl":
        return None
    return data, (lambda new: new)


# ------------------------------------------------------------------ numeric tokens
def numeric_tokens(payload):
    """[(start, end, 'int'|'real', text)] of every numeric token, in file order"""
    out = [(m.start(), m.end(), "int", m.group(0)) for m in INT_RE.finditer(payload)]
    out += [(m.start(), m.end(), "real", m.group(0)) for m in REAL_RE.finditer(payload)]
    out.sort()
    return out


def int_value(cls, n):
    """interpret a symbolic integer class emitted by TLC for a field whose present value is n"""
    base = {"zero": 0, "n": n, "one": 1}[cls["base"]]
    v = base + cls["delta"]
    if cls["pow"] > 0:
        v += 2 ** cls["pow"]
    if cls["mul"] != 1:
        v *= cls["mul"]
    return -v if cls["neg"] else v


REALS = {"nan": b"nan", "inf": b"inf", "neginf": b"-inf", "huge": b"1e400", "tiny": b"1e-400", "negzero": b"-0.0",
         "max": b"1.7976931348623157e308", "broken": b"1e", "hex": b"0x1p3", "long": b"0." + b"123456789" * 40,
         "int": b"7", "empty": b""}


def real_value(name):
    return REALS[name]


def replace(payload, tok, new):
    return payload[:tok[0]] + new + payload[tok[1]:]


# ------------------------------------------------------------------ binary count fields
def binary_fields(key, data):
    """[(offset, width, '<'|'>')] of the binary integer fields a loader multiplies or seeks by"""
    ft = key.split("@")[0]
    out = []
    if ft == "stl" and len(data) >= 84:
        out.append((80, 4, "<"))
    if ft == "glb" and len(data) >= 20:
        out += [(8, 4, "<"), (12, 4, "<")]
        jlen = struct.unpack("<I", data[12:16])[0]
        if 20 + jlen + 8 <= len(data):
            out.append((20 + jlen, 4, "<"))
    return out


def set_field(data, field, value):
    off, width, end = field
    value %= 1 << (8 * width)
    return data[:off] + value.to_bytes(width, "little" if end == "<" else "big") + data[off + width:]


def get_field(data, field):
    off, width, end = field
    return int.from_bytes(data[off:off + width], "little" if end == "<" else "big")


# ------------------------------------------------------------------ hand-made PLY variants
PLY_TYPES = {"char": "b", "uchar": "B", "short": "h", "ushort": "H", "int": "i", "uint": "I", "float": "f", "double": "d"}


def ply_variant(endian, count_type, index_type, coord_type="float", quads=False, extra_list=False):
    """A valid binary PLY of a tetrahedron (or two quads) that trimesh's exporter never writes: either endianness,
    any list count / index type, double coordinates, an extra per-face scalar list."""
    e = {"little": "<", "big": ">"}[endian]
    verts = [(0, 0, 0), (1, 0, 0), (0, 1, 0), (0, 0, 1)]
    faces = [(0, 1, 2, 3), (3, 2, 1, 0)] if quads else [(0, 2, 1), (0, 1, 3), (0, 3, 2), (1, 2, 3)]
    head = ["ply", "format binary_%s_endian 1.0" % endian, "element vertex %d" % len(verts)]
    head += ["property %s %s" % (coord_type, a) for a in "xyz"]
    head += ["element face %d" % len(faces), "property list %s %s vertex_indices" % (count_type, index_type)]
    if extra_list:
        head.append("property uchar flag")
    head.append("end_header")
    body = b""
    for v in verts:
        body += struct.pack(e + "3" + PLY_TYPES[coord_type], *[float(x) for x in v])
    for f in faces:
        body += struct.pack(e + PLY_TYPES[count_type], len(f))
        body += struct.pack(e + str(len(f)) + PLY_TYPES[index_type], *f)
        if extra_list:
            body += b"\x01"
    return ("\n".join(head) + "\n").encode() + body


def ply_list_fields(data):
    """offsets of the list-length fields inside the body of a ply_variant() file"""
    head = data[:data.find(b"end_header\n") + 11]
    m = re.search(rb"format binary_(\w+)_endian", head)
    e = "<" if m.group(1) == b"little" else ">"
    nv = int(re.search(rb"element vertex (\d+)", head).group(1))
    nf = int(re.search(rb"element face (\d+)", head).group(1))
    ct, it = re.search(rb"property list (\w+) (\w+) vertex_indices", head).groups()
    coord = re.search(rb"property (\w+) x", head).group(1).decode()
    cs, isz = struct.calcsize(PLY_TYPES[ct.decode()]), struct.calcsize(PLY_TYPES[it.decode()])
    extra = 1 if b"property uchar flag" in head else 0
    off = len(head) + nv * 3 * struct.calcsize(PLY_TYPES[coord])
    out = []
    for _ in range(nf):
        out.append((off, cs, e))
        k = get_field(data, (off, cs, e))
        off += cs + k * isz + extra
    return out


# ------------------------------------------------------------------ JSON structure (glTF)
def json_paths(obj, path=()):
    """every (path, value) of a JSON tree, containers included"""
    yield path, obj
    if isinstance(obj, dict):
        for k, v in obj.items():
            yield from json_paths(v, path + (k,))
    elif isinstance(obj, list):
        for i, v in enumerate(obj):
            yield from json_paths(v, path + (i,))


def json_set(obj, path, value, delete=False):
    """deep copy of obj with the node at path replaced (or deleted)"""
    obj = json.loads(json.dumps(obj))
    cur = obj
    for p in path[:-1]:
        cur = cur[p]
    if delete:
        del cur[path[-1]]
    else:
        cur[path[-1]] = value
    return obj


STRUCT_VALUES = {"null": None, "empty_list": [], "empty_dict": {}, "string": "x", "real": 1.5, "true": True,
                 "nested": [[0]], "neg": -1, "big": 10 ** 12}
