"""C04 - homogeneous transforms act covariantly on every geometry.

Reference: spec/Covariance.tla (exact rational affine maps with integer numerators: p -> M.p,
faces re-wound iff det < 0, per-face identity kept, |det| volume law, centre of mass through M,
bounds of the moved points, s^2 area and s^5 R I R^T inertia laws for similarities, B.A
composition, inverse restores).
The harness applies single maps, ordered pairs (A then B) and (M then M^-1) round trips from a
generator set covering rigid, similarity, mirror, anisotropic, shear, mirror-anisotropic, the
I + c.J class (stretch / mirror along (1,1,1)), rational rotations and Householder mirrors about
general axes, halving and singular projections to every geometry kind (meshes: closed / two
bodies / open / unreferenced vertices / degenerate faces, with and without normals / other cached
values computed beforehand or between two maps, with and without attached colours, attributes and
an overridden centre of mass; point cloud, 2D and 3D path, Box / Cylinder / Sphere / Capsule /
Extrusion primitives, scene, voxel grid, empty geometries), through every entry point
(apply_transform with the matrix in several containers / dtypes / layouts, apply_scale,
apply_translation - their argument as list, tuple, float / integer ndarray, per-axis scales with a
component that is exactly 1), also on geometry placed far from the origin (5e5, scene nodes at 4e8) moved
by maps that are small against its coordinates, snaps what the real object reports to integers and lets
TLC judge each record.  Values measured before a map (mesh: areas, angles, normals, bounds, centroid;
path: length, area, bounds; cloud: bounds, centroid) are compared afterwards with a fresh object built
from the moved points; for 2D paths TLC also judges the exact laws of the plane (area scales by |det|
under every affine map, length by s under similarities).
Curved primitives (irrational vertices) and the near-identity shortcut boundaries are judged on
the symbolic-term route: TLC's map is evaluated with numpy (matrix times point) and compared
within the documented granularity.
"""
import itertools
import sys

import numpy as np

from harness import tlc
from harness.common import (MachineryError, Verdict, import_trimesh, pmap, seed,
                            tier_from_args)

PROP = "C04"
CFG = "INIT Init\nNEXT Next\nINVARIANT Report\nINVARIANT RefLaws\nCHECK_DEADLOCK FALSE\n"
LIM = 2 ** 30         # TLC integers are 32 bit: keep every product below this (guards only)

I3 = [[1, 0, 0], [0, 1, 0], [0, 0, 1]]
RZ = [[0, -1, 0], [1, 0, 0], [0, 0, 1]]
RX = [[1, 0, 0], [0, 0, -1], [0, 1, 0]]
RY = [[0, 0, 1], [0, 1, 0], [-1, 0, 0]]
J3 = [[1, 1, 1], [1, 1, 1], [1, 1, 1]]


def mm(A, B):
    return (np.array(A) @ np.array(B)).tolist()


def sc(L, k):
    return [[k * x for x in r] for r in L]


def lin(a, A, b, B):
    return (a * np.array(A) + b * np.array(B)).tolist()


# a map is p -> (l.p + t) / den (den = 1 when absent)
MAPS = {
    "translate": {"l": I3, "t": [2, -4, 6]},
    "rigid_z": {"l": RZ, "t": [4, 0, 2]},
    "rigid_xy": {"l": mm(RX, RY), "t": [0, 2, 0]},
    "similarity": {"l": sc(RZ, 2), "t": [2, 0, 0]},
    "scale": {"l": sc(I3, 2), "t": [0, 0, 0]},
    "mirror": {"l": [[-1, 0, 0], [0, 1, 0], [0, 0, 1]], "t": [0, 0, 0]},
    "mirror_rot": {"l": mm(RZ, [[1, 0, 0], [0, 1, 0], [0, 0, -1]]), "t": [0, 2, 2]},
    "point_reflect": {"l": sc(I3, -1), "t": [2, 2, 2]},
    "aniso": {"l": [[1, 0, 0], [0, 2, 0], [0, 0, 3]], "t": [0, 0, 2]},
    "shear": {"l": [[1, 1, 0], [0, 1, 0], [0, 0, 1]], "t": [2, 0, 0]},
    "shear2": {"l": [[1, 0, 2], [0, 1, 1], [0, 0, 1]], "t": [0, 0, 0]},
    "mirror_aniso": {"l": [[-1, 0, 0], [0, 2, 0], [0, 0, 1]], "t": [0, 4, 0]},
    "mirror_sim": {"l": sc([[0, 1, 0], [1, 0, 0], [0, 0, 1]], 2), "t": [0, 0, 0]},
    # the I + c.J class: every entry of (l - I) is the same number
    "stretch111": {"l": lin(1, I3, 1, J3), "t": [0, 2, 0]},                  # det 4, symmetric stretch along (1,1,1)
    "mirror111s": {"l": lin(1, I3, -1, J3), "t": [0, 0, 0]},                 # det -2
    "house111": {"l": lin(3, I3, -2, J3), "t": [0, 0, 0], "den": 3},         # the mirror about the plane x + y + z = 0
    # general axes (rational)
    "house122": {"l": lin(9, I3, -2, np.outer([1, 2, 2], [1, 2, 2])), "t": [9, 0, 0], "den": 9},   # mirror, normal (1,2,2)/3
    "rot345": {"l": [[3, -4, 0], [4, 3, 0], [0, 0, 5]], "t": [5, 0, 10], "den": 5},                # rotation about z, cos = 3/5
    "rot_q3": {"l": [[1, 2, 2], [2, 1, -2], [-2, 2, -1]], "t": [0, 3, 0], "den": 3},               # quaternion (1,1,1,0)
    "half": {"l": I3, "t": [0, 0, 0], "den": 2},
    "squeeze": {"l": [[16, 0, 0], [0, 1, 0], [0, 0, 4]], "t": [0, 0, 0], "den": 4},   # diag(4, 1/4, 1): det 1, not rigid
    "nudge": {"l": I3, "t": [1, -1, 2]},                                             # small against far-away geometry
    # singular: the surface is flattened (never part of a round trip)
    "proj_z": {"l": [[1, 0, 0], [0, 1, 0], [0, 0, 0]], "t": [0, 0, 2]},
    "proj_y": {"l": [[1, 0, 0], [0, 0, 0], [0, 0, 1]], "t": [0, 2, 0]},
    "rank1": {"l": [[1, 1, 1], [2, 2, 2], [3, 3, 3]], "t": [0, 0, 0]},
    # maps delivered through the helpers that build the matrix themselves
    "e_scale2": {"l": sc(I3, 2), "t": [0, 0, 0], "call": ("apply_scale", 2.0), "call2d": ("apply_scale", 2.0)},
    "e_scale_neg": {"l": sc(I3, -1), "t": [0, 0, 0], "call": ("apply_scale", -1.0)},
    "e_scale_int": {"l": sc(I3, 3), "t": [0, 0, 0], "call": ("apply_scale", 3), "call2d": ("apply_scale", 3)},
    "e_scale_half": {"l": I3, "t": [0, 0, 0], "den": 2, "call": ("apply_scale", 0.5), "call2d": ("apply_scale", 0.5)},
    "e_scale_axis": {"l": [[1, 0, 0], [0, 2, 0], [0, 0, 3]], "t": [0, 0, 0], "call": ("apply_scale", [1.0, 2.0, 3.0])},
    "e_scale_maxis": {"l": [[-1, 0, 0], [0, 2, 0], [0, 0, 1]], "t": [0, 0, 0], "call": ("apply_scale", [-1.0, 2.0, 1.0])},
    "e_scale_xy": {"l": [[2, 0, 0], [0, 3, 0], [0, 0, 1]], "t": [0, 0, 0], "call": ("apply_scale", [2.0, 3.0, 1.0]), "call2d": ("apply_scale", [2.0, 3.0])},
    "e_translate": {"l": I3, "t": [2, -4, 6], "call": ("apply_translation", [2.0, -4.0, 6.0]), "call2d": ("apply_translation", [2.0, -4.0])},
    "e_translate_int": {"l": I3, "t": [-2, 0, 4], "call": ("apply_translation", (-2, 0, 4)), "call2d": ("apply_translation", (-2, 0))},
    "e_nudge": {"l": I3, "t": [1, -1, 2], "call": ("apply_translation", [1.0, -1.0, 2.0]), "call2d": ("apply_translation", [1.0, -1.0])},
}
SINGULAR = ["proj_z", "proj_y", "rank1"]
ENTRY = [n for n in MAPS if n.startswith("e_")]
MATRIX = [n for n in MAPS if not n.startswith("e_")]
RATIONAL = [n for n in MAPS if MAPS[n].get("den", 1) > 1]
# keep the z = 0 plane (2D paths)
PLANAR = ["translate", "rigid_z", "similarity", "scale", "mirror", "shear", "mirror_aniso", "mirror_sim", "rot345", "half", "squeeze", "nudge", "proj_y"]
PLANAR_ENTRY = [n for n in ENTRY if "call2d" in MAPS[n]]
FORMS = ["list", "tuple", "int", "f32", "fortran", "strided", "readonly", "tracked"]
# the argument of apply_scale / apply_translation in another container (a per-axis scale with a component
# that is exactly 1, a translation with a zero component, ... as python list, tuple, float / integer ndarray)
ARGFORMS = ["asis", "ndarray", "tuple", "int_array"]
VECTOR_ENTRY = [n for n in ENTRY if isinstance(MAPS[n]["call"][1], (list, tuple))]
# geometry far from the origin (survey coordinates, assemblies in mm): placed at OFF, scene nodes also at OFF2
OFF = np.array([500000.0, 300000.0, -400000.0])
OFF2 = np.array([400000000.0, -300000000.0, 200000000.0])
FAR_KINDS = ["scene_far", "mesh_box_far", "cloud_far", "path3d_far", "voxel_far"]
FAR_MAPS = ["nudge", "translate", "rigid_z", "mirror", "scale", "similarity", "mirror_rot", "point_reflect",
            "e_nudge", "e_translate", "e_translate_int", "e_scale2", "e_scale_neg"]


def den_of(e):
    return e.get("den", 1)


def to4(e):
    M = np.eye(4)
    M[:3, :3] = np.array(e["l"], dtype=float) / den_of(e)
    M[:3, 3] = np.array(e["t"], dtype=float) / den_of(e)
    return M


def to3(e):
    M = np.eye(3)
    M[:2, :2] = (np.array(e["l"], dtype=float) / den_of(e))[:2, :2]
    M[:2, 2] = (np.array(e["t"], dtype=float) / den_of(e))[:2]
    return M


def planar(e):
    L = np.array(e["l"])
    q = den_of(e)
    return {"l": [[int(L[0, 0]), int(L[0, 1]), 0], [int(L[1, 0]), int(L[1, 1]), 0], [0, 0, q]], "t": [e["t"][0], e["t"][1], 0], "den": q}


def rec_map(e):
    return {"l": e["l"], "t": e["t"], "den": den_of(e)}


def total_int(maps):
    """Numerators / denominator of the product in Python integers.  Used ONLY to choose the
    denominator the observation is snapped with and to keep TLC's 32 bit products in range
    (which optional laws a record can carry); never for a verdict."""
    L, t, q = [list(r) for r in I3], [0, 0, 0], 1
    for e in maps:
        A, at, aq = e["l"], e["t"], den_of(e)
        nl = [[sum(int(A[r][k]) * L[k][c] for k in range(3)) for c in range(3)] for r in range(3)]
        nt = [sum(int(A[r][k]) * t[k] for k in range(3)) + int(at[r]) * q for r in range(3)]
        L, t, q = nl, nt, q * aq
    det = (L[0][0] * (L[1][1] * L[2][2] - L[1][2] * L[2][1]) - L[0][1] * (L[1][0] * L[2][2] - L[1][2] * L[2][0])
           + L[0][2] * (L[1][0] * L[2][1] - L[1][1] * L[2][0]))
    G = [[sum(L[k][r] * L[k][c] for k in range(3)) for c in range(3)] for r in range(3)]
    sim = G[0][0] == G[1][1] == G[2][2] and G[0][1] == 0 and G[0][2] == 0 and G[1][2] == 0
    sim2 = L[0][0] ** 2 + L[1][0] ** 2 == L[0][1] ** 2 + L[1][1] ** 2 and L[0][0] * L[0][1] + L[1][0] * L[1][1] == 0
    return {"l": L, "t": t, "q": q, "det": det, "sim": sim, "s2": G[0][0], "maxl": max(abs(x) for r in L for x in r),
            "sim2": sim2, "col2": L[0][0] ** 2 + L[1][0] ** 2, "rowsum": max(sum(abs(x) for x in r) for r in L), "maxt": max(abs(x) for x in t)}


class Off(Exception):
    pass


class Raised(Exception):
    """The library raised while a map was being applied (an observation, not a harness failure)."""


def snap(x, den, what):
    a = np.asarray(x, dtype=float) * den
    r = np.round(a)
    if a.size and (not np.isfinite(a).all() or np.abs(a - r).max() > 1e-6):
        raise Off(what)
    return r.astype(int).tolist()


def as_form(M, form):
    """The same matrix in another container / dtype / memory layout."""
    if form == "f64":
        return M.copy()
    if form == "list":
        return M.tolist()
    if form == "tuple":
        return tuple(tuple(r) for r in M.tolist())
    if form == "int":
        return np.round(M).astype(np.int64)
    if form == "f32":
        return M.astype(np.float32)
    if form == "fortran":
        return np.asfortranarray(M)
    if form == "strided":
        n = len(M)
        return np.repeat(np.repeat(M, 2, axis=0), 2, axis=1)[::2, ::2][:n, :n]
    if form == "readonly":
        a = M.copy()
        a.setflags(write=False)
        return a
    if form == "tracked":
        from trimesh.caching import tracked_array
        return tracked_array(M.copy())
    raise MachineryError("unknown matrix form " + form)


def form_ok(form, e):
    """Can this container carry the map without changing it?"""
    if form == "int":
        return den_of(e) == 1
    if form == "f32":
        return den_of(e) in (1, 2)
    return True


# ------------------------------------------------------------------ geometry kinds
BOXV = np.array([[0, 0, 0], [0, 0, 2], [0, 4, 0], [0, 4, 2], [2, 0, 0], [2, 0, 2], [2, 4, 0], [2, 4, 2]], dtype=float)


def box_faces(tm):
    return np.array(tm.creation.box().faces)


TETV = np.array([[0, 0, 0], [4, 0, 0], [0, 8, 0], [0, 0, 12]], dtype=float)       # scalene faces
TETF = np.array([[0, 2, 1], [0, 1, 3], [1, 2, 3], [2, 0, 3]])

MESH_KINDS = ["mesh_box", "mesh_tet", "mesh_two", "mesh_open", "mesh_unref", "mesh_degen"]
CLOSED = ("mesh_box", "mesh_tet", "mesh_two", "mesh_unref")


def mesh_seed(tm, kind):
    bf = box_faces(tm)
    if kind == "mesh_box":
        return BOXV, bf
    if kind == "mesh_tet":
        return TETV, TETF
    if kind == "mesh_two":          # two bodies in one mesh
        return np.vstack([BOXV, TETV + [6, 0, 0]]), np.vstack([bf, TETF + 8])
    if kind == "mesh_open":         # not a solid: three faces missing
        return BOXV, bf[:-3]
    if kind == "mesh_unref":        # vertices no face refers to
        return np.vstack([[[6, 6, 6]], BOXV, [[-2, 0, 4]]]), bf + 1
    if kind == "mesh_degen":        # zero-area and repeated faces among the ordinary ones
        return BOXV, np.vstack([bf[:6], [[0, 0, 1], [2, 2, 2]], bf[6:], bf[:1]])
    raise MachineryError("unknown mesh seed " + kind)


WARM_ALL = ("face_normals", "vertex_normals", "face_angles", "vertex_defects", "edges", "edges_unique", "face_adjacency", "area", "volume",
            "center_mass", "edges_unique_length", "area_faces", "face_adjacency_angles", "moment_inertia", "bounds", "triangles",
            "edges_sparse", "faces_unique_edges", "is_watertight")


def base_record(kind, pts, faces, names, restore, planar2d=False):
    maps = [planar(MAPS[n]) if planar2d else rec_map(MAPS[n]) for n in names]
    return {"kind": kind, "pts": np.asarray(pts).astype(int).tolist(), "faces": (np.asarray(faces) + 1).tolist() if len(faces) else [],
            "maps": maps, "names": list(names), "restore": restore, "exc": "", "side": [],
            "vol6": 0, "com": [0, 0, 0], "comden": 20 if kind == "mesh_two" else 4, "parea2": 0, "plen2": 0, "area2": 0, "inertia": [[0, 0, 0]] * 3}


def empty_obs(den=1):
    return {"den": den, "pts": [], "faces": [], "has_vol": False, "vol6": 0, "has_com": False, "com": [0, 0, 0],
            "has_area": False, "area2": 0, "has_inertia": False, "inertia": [[0, 0, 0]] * 3, "iden": 1,
            "has_bounds": False, "bounds": [[0, 0, 0], [0, 0, 0]],
            "has_parea": False, "parea2": 0, "has_plen": False, "plen2": 0}


def obs_den(r):
    """Denominator the observed coordinates are snapped with: that of the product of the maps."""
    if r["restore"]:
        return 1, total_int([])
    T = total_int(r["maps"])
    return T["q"], T


def put_bounds(o, b, d, dim2=False):
    b = np.asarray(b, dtype=float)
    if dim2:
        b = np.column_stack([b, np.zeros(2)])
    o["bounds"] = snap(b, d, "bounds")
    o["has_bounds"] = True


def solid_obs(r, m, o, T, d, with_area_inertia):
    """Volume / centre of mass / area / inertia of a closed mesh-like object, each only where the
    integers stay inside 32 bit (magnitude guards; the expected values are TLC's)."""
    q = T["q"] if not r["restore"] else 1
    det = abs(T["det"]) if not r["restore"] else 1
    sim = T["sim"] or r["restore"]
    vol = float(m.volume)
    if det * abs(r["vol6"]) * d ** 3 < LIM and abs(vol) * 6 * d ** 3 * q ** 3 < LIM:
        o["vol6"] = int(round(vol * 6 * d ** 3))
        if abs(vol * 6 * d ** 3 - o["vol6"]) > 1e-6:
            raise Off("volume")
        o["has_vol"] = True
    if det != 0:
        o["com"] = snap(np.array(m.center_mass) * r["comden"], d, "center_mass")
        o["has_com"] = True
    if not with_area_inertia or not sim or det == 0:
        return
    s2 = T["s2"] if not r["restore"] else 1
    area = float(m.area)
    if s2 * r["area2"] * d * d < LIM and area * 2 * d * d * q * q < LIM:
        o["area2"] = int(round(area * 2 * d * d))
        if abs(area * 2 * d * d - o["area2"]) > 1e-6:
            raise Off("area_under_similarity")
        o["has_area"] = True
    inertia = np.array(m.moment_inertia) * 3
    maxi = max(abs(x) for row in r["inertia"] for x in row)
    maxl = T["maxl"] if not r["restore"] else 1
    for k in range(6):
        iden = q ** k
        if det * iden * 9 * maxl * maxl * max(maxi, 1) >= LIM or np.abs(inertia).max() * iden * q ** 5 >= LIM:
            return                     # too large for TLC: the law is not carried by this record
        try:
            o["inertia"] = snap(inertia, iden, "inertia")
        except Off:
            continue
        o["iden"] = iden
        o["has_inertia"] = True
        return
    raise Off("inertia_under_similarity")


def read_between(obj, kind):
    """A reader looks at the object between two maps."""
    if kind.startswith("mesh") or kind.startswith("prim"):
        for k in ("face_normals", "vertex_normals", "edges_unique", "face_adjacency", "bounds", "volume", "area", "center_mass",
                  "edges_sorted", "faces_unique_edges", "face_adjacency_angles", "area_faces", "triangles_center"):
            getattr(obj, k)
    elif kind == "cloud":
        obj.bounds, obj.centroid, obj.extents
    elif kind.startswith("path"):
        obj.length, obj.bounds, obj.paths, obj.discrete
        if kind == "path2d":
            obj.area, obj.polygons_full
    elif kind.startswith("voxel"):
        obj.points, obj.bounds, obj.volume
    elif kind == "scene":
        obj.bounds, obj.triangles, obj.extents


def apply_all(obj, kind, names, restore, opts):
    try:
        return _apply_all(obj, kind, names, restore, opts)
    except ValueError:
        if kind.startswith("prim"):
            raise              # a primitive may refuse a map it cannot represent
        raise Raised("ValueError")
    except MachineryError:
        raise
    except Exception as e:
        raise Raised(repr(e)[:160])


def _apply_all(obj, kind, names, restore, opts):
    planar2d = kind == "path2d"
    mats = [to3(MAPS[n]) if planar2d else to4(MAPS[n]) for n in names]
    form = opts.get("form", "f64")
    for k, (n, M) in enumerate(zip(names, mats)):
        e = MAPS[n]
        call = e.get("call2d" if planar2d else "call")
        if call is not None:
            arg = call[1]
            af = opts.get("argform", "asis")
            if isinstance(arg, (list, tuple)):
                if af == "ndarray":
                    arg = np.array(arg, dtype=np.float64)
                elif af == "int_array" and all(float(x).is_integer() for x in arg):
                    arg = np.array(arg, dtype=np.int64)
                elif af == "tuple":
                    arg = tuple(arg)
                else:
                    arg = list(arg) if isinstance(arg, list) else arg
            elif af == "ndarray":
                arg = np.float64(arg)
            getattr(obj, call[0])(arg)
        else:
            buf = as_form(M, form if form_ok(form, e) else "f64")
            obj.apply_transform(buf)
            # the matrix handed in stays the caller's: reusing the buffer afterwards must not move the geometry
            if isinstance(buf, np.ndarray) and buf.flags.writeable:
                buf[...] = 3
        if opts.get("between") and k + 1 < len(names):
            read_between(obj, kind)
    if restore:
        total = np.eye(3 if planar2d else 4)
        for M in mats:
            total = M @ total
        obj.apply_transform(np.linalg.inv(total))
    return obj


def attach(tm, m, variant):
    """Data attached to a mesh; -> function telling what changed afterwards."""
    nv, nf = len(m.vertices), len(m.faces)
    vc = (np.arange(nv * 4).reshape(nv, 4) * 7 % 251).astype(np.uint8)
    fc = (np.arange(nf * 4).reshape(nf, 4) * 5 % 251).astype(np.uint8)
    uv = (np.arange(nv * 2).reshape(nv, 2) % 7) / 8.0
    va, fa = np.arange(nv) * 1.5, np.arange(nf)[::-1].copy()
    m.metadata["k"] = {"a": [1, 2]}
    m.vertex_attributes["w"] = va.copy()
    m.face_attributes["tag"] = fa.copy()
    if variant == "vertex_colors":
        m.visual.vertex_colors = vc.copy()
    elif variant == "face_colors":
        m.visual.face_colors = fc.copy()
    elif variant == "texture":
        m.visual = tm.visual.TextureVisuals(uv=uv.copy())
    elif variant == "override":
        m.density = 3.0

    def changed():
        out = []
        if m.metadata.get("k") != {"a": [1, 2]}:
            out.append("metadata")
        if not np.array_equal(m.vertex_attributes["w"], va) or not np.array_equal(m.face_attributes["tag"], fa):
            out.append("attributes")
        if variant == "vertex_colors" and not np.array_equal(np.array(m.visual.vertex_colors), vc):
            out.append("vertex_colors")
        if variant == "face_colors" and not np.array_equal(np.array(m.visual.face_colors), fc):
            out.append("face_colors")
        if variant == "texture" and not (m.visual.kind == "texture" and np.array_equal(np.array(m.visual.uv), uv)):
            out.append("uv")
        if variant == "override" and float(m.density) != 3.0:
            out.append("density")
        return out
    return changed


def run_case(tm, kind, names, restore, warm, opts):
    """-> record"""
    far = kind.endswith("_far")
    rkind, kind = kind, (kind[:-4] if far else kind)       # rkind names the record, kind selects the builder
    off = OFF if far else np.zeros(3)
    try:
        if kind in MESH_KINDS:
            v, f = mesh_seed(tm, kind)
            v = v + off
            m = tm.Trimesh(v.copy(), f.copy(), process=False)
            r = base_record(rkind, v, f, names, restore)
            d, T = obs_den(r)
            closed = kind in CLOSED and not far      # far from the origin the integrals cancel in floating point
            changed = None
            if closed:
                r["vol6"] = int(round(float(m.volume) * 6))
                r["com"] = snap(np.array(m.center_mass) * r["comden"], 1, "com0")
            if kind == "mesh_box" and not far:
                r["area2"] = int(round(float(m.area) * 2))
                r["inertia"] = snap(np.array(m.moment_inertia) * 3, 1, "inertia0")
            if opts.get("attached"):
                changed = attach(tm, m, opts["attached"])
                if opts["attached"] == "override":
                    m.center_mass = [1.0, 0.5, 2.0]       # the user's own centre of mass must be carried through M
                    r["com"] = [4, 2, 8]
                m._cache.clear()
            if warm == "normals":
                m.face_normals, m.vertex_normals
            elif warm == "all":
                for k in WARM_ALL:
                    getattr(m, k)
                if opts.get("attached") in ("vertex_colors", "face_colors"):
                    m.visual.face_colors, m.visual.vertex_colors
            apply_all(m, kind, names, restore, opts)
            o = empty_obs(d)
            o["pts"] = snap(m.vertices, d, "vertices")
            o["faces"] = (np.array(m.faces) + 1).tolist()
            if closed:
                solid_obs(r, m, o, T, d, kind == "mesh_box" and opts.get("attached") != "override")
            if kind != "mesh_unref":
                put_bounds(o, m.bounds, d)
            if changed is not None:
                r["side"] += ["attached_data_changed:" + x for x in changed()]
            # normals stay outward: every face normal must agree with the winding of the moved triangle
            tri = np.array(m.triangles)
            cr = np.cross(tri[:, 1] - tri[:, 0], tri[:, 2] - tri[:, 0])
            fn = np.array(m.face_normals)
            nz = np.linalg.norm(cr, axis=1) > 1e-12
            flat = any(n in SINGULAR for n in names)     # a flattened surface has no normals or angles to speak of
            if fn.shape != cr.shape or (not flat and nz.any() and (np.abs(fn[nz] - cr[nz] / np.linalg.norm(cr[nz], axis=1)[:, None]).max() > 1e-9)):
                r["exc"] = "normals_disagree_with_winding"
            # nothing computed before the transform may survive it with a wrong value
            fresh = tm.Trimesh(np.array(m.vertices), np.array(m.faces), process=False)
            for key, tol in (("face_angles", 1e-6), ("vertex_defects", 1e-6), ("vertex_normals", 1e-6), ("face_normals", 1e-9),
                             ("edges_unique_length", 1e-9), ("area_faces", 1e-9), ("face_adjacency_angles", 1e-6), ("triangles_center", 1e-9),
                             ("bounds", 1e-9), ("area", 1e-9), ("extents", 1e-9), ("centroid", 1e-9)):
                if flat and key in ("face_angles", "vertex_defects", "vertex_normals", "face_normals", "face_adjacency_angles"):
                    continue
                a, b = np.asarray(getattr(m, key), dtype=float), np.asarray(getattr(fresh, key), dtype=float)
                if a.shape != b.shape or not np.allclose(a, b, atol=tol * max(1.0, float(np.nanmax(np.abs(b))) if b.size else 1.0), equal_nan=True):
                    r["exc"] = "derived_value_differs_from_fresh_mesh:" + key
                    break
            r["obs"] = o
            return r
        if kind in ("mesh_empty", "cloud_empty", "voxel_empty"):
            if kind == "mesh_empty":
                g = tm.Trimesh()
            elif kind == "cloud_empty":
                g = tm.PointCloud(np.zeros((0, 3)))
            else:
                g = tm.voxel.VoxelGrid(np.zeros((2, 2, 2), dtype=bool))
            r = base_record(kind, np.zeros((0, 3)), [], names, restore)
            d, T = obs_den(r)
            apply_all(g, kind, names, restore, opts)
            o = empty_obs(d)
            o["pts"] = snap(np.asarray(g.points if kind == "voxel_empty" else g.vertices).reshape(-1, 3), d, "points")
            if kind == "mesh_empty":
                o["faces"] = (np.asarray(g.faces).reshape(-1, 3) + 1).tolist()
            r["obs"] = o
            return r
        if kind == "cloud":
            v = np.array([[0, 0, 0], [2, 2, 0], [0, 4, 2], [-2, 0, 2], [6, 6, 6]], dtype=float) + off
            c = (np.arange(20).reshape(5, 4) * 9 % 255).astype(np.uint8)
            p = tm.PointCloud(v.copy(), colors=c, metadata={"k": {"a": 1}})
            r = base_record(rkind, v, [], names, restore)
            d, T = obs_den(r)
            if warm != "none":
                p.bounds, p.centroid, p.extents
            apply_all(p, kind, names, restore, opts)
            o = empty_obs(d)
            o["pts"] = snap(p.vertices, d, "vertices")
            put_bounds(o, p.bounds, d)
            if not np.array_equal(np.array(p.colors), c):
                r["exc"] = "colors_changed"
            if p.metadata.get("k") != {"a": 1}:
                r["side"].append("attached_data_changed:metadata")
            fresh = tm.PointCloud(np.array(p.vertices))
            for key in ("bounds", "extents", "centroid"):
                a, b = np.asarray(getattr(p, key), dtype=float), np.asarray(getattr(fresh, key), dtype=float)
                if a.shape != b.shape or not np.allclose(a, b, rtol=0, atol=1e-9 * max(1.0, float(np.abs(b).max()))):
                    r["side"].append("derived_value_differs_from_fresh_cloud:" + key)
            r["obs"] = o
            return r
        if kind in ("path3d", "path2d"):
            from trimesh.path.entities import Line
            col = [255, 0, 0, 255]
            if kind == "path3d":
                v = np.array([[0, 0, 0], [4, 0, 2], [4, 2, 0], [0, 2, 2]], dtype=float) + off
                p = tm.path.Path3D(entities=[Line([0, 1, 2], layer="L1"), Line([2, 3, 0], color=col)], vertices=v.copy(), process=False, metadata={"k": 1})
                r = base_record(rkind, v, [], names, restore)
            else:
                v2 = np.array([[0, 0], [4, 0], [4, 2], [0, 2]], dtype=float)
                p = tm.path.Path2D(entities=[Line([0, 1, 2], layer="L1"), Line([2, 3, 0], color=col)], vertices=v2.copy(), process=False, metadata={"k": 1})
                r = base_record(kind, np.column_stack([v2, np.zeros(4)]), [], names, restore, planar2d=True)
                r["parea2"], r["plen2"] = int(round(float(p.area) * 2)), int(round(float(p.length) ** 2))     # 16, 144
                p._cache.clear()
            d, T = obs_den(r)
            if warm != "none":
                p.length, p.bounds, p.paths, p.discrete
                if kind == "path2d":
                    p.area, p.polygons_full
            apply_all(p, kind, names, restore, opts)
            o = empty_obs(d)
            pv = np.array(p.vertices)
            if kind == "path2d":
                pv = np.column_stack([pv, np.zeros(len(pv))])
            o["pts"] = snap(pv, d, "vertices")
            put_bounds(o, p.bounds, d, dim2=(kind == "path2d"))
            ents = [list(map(int, e.points)) for e in p.entities]
            if ents != [[0, 1, 2], [2, 3, 0]]:
                r["exc"] = "entities_changed"
            if p.entities[0].layer != "L1" or list(p.entities[1].color) != col or p.metadata.get("k") != 1:
                r["side"].append("attached_data_changed:layer_colour_metadata")
            # the discretised curves are the images of the vertices they run through
            disc = [np.asarray(x) for x in p.discrete]
            want = np.array(p.vertices)[[0, 1, 2, 3, 0]]
            if len(disc) != 1 or len(disc[0]) != 5 or not any(
                    np.allclose(np.roll(disc[0][:-1], s, axis=0)[::o_], np.roll(want[:-1], 0, axis=0), atol=1e-9)
                    for s in range(4) for o_ in (1, -1)):
                r["side"].append("discrete_curve_not_at_moved_vertices")
            # nothing measured before the maps may survive them with a wrong value
            fresh = type(p)(entities=[e.copy() for e in p.entities], vertices=np.array(p.vertices), process=False)
            for key in ("length", "bounds", "extents") + (("area",) if kind == "path2d" else ()):
                a, b = np.asarray(getattr(p, key), dtype=float), np.asarray(getattr(fresh, key), dtype=float)
                if a.shape != b.shape or not np.allclose(a, b, rtol=0, atol=1e-9 * max(1.0, float(np.abs(b).max()) if b.size else 1.0)):
                    r["side"].append("derived_value_differs_from_fresh_path:" + key)
            if kind == "path2d":
                q = 1 if restore else T["q"]
                det = 1 if restore else abs(T["det"])
                # the exact laws of the plane: area under any affine map, length under similarities (TLC's values)
                if det != 0 and det * r["parea2"] * d * d < LIM and float(p.area) * 2 * d * d * q ** 3 < LIM:
                    o["parea2"] = int(round(float(p.area) * 2 * d * d))
                    if abs(float(p.area) * 2 * d * d - o["parea2"]) > 1e-6:
                        raise Off("planar_area")
                    o["has_parea"] = True
                if (restore or T["sim2"]) and det != 0 and (1 if restore else T["col2"]) * r["plen2"] * d * d < LIM and float(p.length) ** 2 * d * d * q * q < LIM:
                    o["plen2"] = int(round(float(p.length) ** 2 * d * d))
                    if abs(float(p.length) ** 2 * d * d - o["plen2"]) > 1e-6:
                        raise Off("planar_length_under_similarity")
                    o["has_plen"] = True
            r["obs"] = o
            return r
        if kind == "prim_box":
            T0 = np.eye(4)
            T0[:3, 3] = [2, 4, 2]
            b = tm.primitives.Box(extents=[4, 8, 4], transform=T0)
            v0 = np.array(b.vertices)
            f0 = np.array(b.faces)
            r = base_record(kind, v0, f0, names, restore)
            d, T = obs_den(r)
            r["may_raise"] = True
            r["vol6"] = int(round(float(b.volume) * 6))
            r["com"] = snap(np.array(b.center_mass) * 4, 1, "com0")
            r["area2"] = int(round(float(b.area) * 2))
            r["inertia"] = snap(np.array(b.moment_inertia) * 3, 1, "inertia0")
            b._cache.clear()
            if warm != "none":
                b.volume, b.face_normals, b.bounds, b.vertices
            try:
                apply_all(b, kind, names, restore, opts)
            except ValueError:
                # rejecting a map it cannot represent is the specified behaviour
                r["obs"] = None
                return r
            o = empty_obs(d)
            o["pts"] = snap(b.vertices, d, "vertices")
            o["faces"] = (np.array(b.faces) + 1).tolist()
            solid_obs(r, b, o, T, d, True)        # the primitive's own (closed form) volume, centre, area, inertia
            put_bounds(o, b.bounds, d)
            r["obs"] = o
            return r
        if kind in ("voxel", "voxel_identity"):
            dn = np.array([[[1, 0], [1, 1], [0, 1]], [[0, 0], [1, 0], [1, 1]]], dtype=bool)
            T0 = np.diag([2.0, 2.0, 2.0, 1.0])
            T0[:3, 3] = np.array([2, 0, 4]) + off
            if kind == "voxel_identity":
                T0 = np.eye(4)       # a grid that has not been placed yet (shortcuts for the identity live here)
            g = tm.voxel.VoxelGrid(dn.copy(), transform=T0, metadata={"k": 1})
            v0 = np.array(g.points)
            idx0 = np.array(g.sparse_indices)
            r = base_record(rkind, v0, [], names, restore)
            d, T = obs_den(r)
            if warm != "none":
                g.bounds, g.volume, g.points, g._transform.inverse_matrix, g._transform.is_identity
            apply_all(g, kind, names, restore, opts)
            o = empty_obs(d)
            o["pts"] = snap(g.points, d, "points")
            if not np.array_equal(np.asarray(g.encoding.dense), dn) or g.metadata.get("k") != 1:
                r["side"].append("attached_data_changed:encoding_or_metadata")
            # the grid's own maps between cells and space follow the points
            if not np.allclose(np.asarray(g.indices_to_points(idx0)), np.asarray(g.points), atol=1e-9):
                r["side"].append("indices_to_points_disagrees_with_points")
            if (r["restore"] or T["det"] != 0) and not np.array_equal(np.asarray(g.points_to_indices(np.asarray(g.points))), idx0):
                r["side"].append("points_to_indices_does_not_invert")
            r["obs"] = o
            return r
        if kind == "scene":
            m = tm.Trimesh(TETV.copy(), TETF.copy(), process=False)
            m2 = tm.Trimesh(BOXV.copy(), box_faces(tm), process=False)
            s = tm.Scene()
            def placed(name, at):
                P = to4(MAPS[name])
                P[:3, 3] += at
                return P
            # far: the stored node matrices hold large translations, the maps are small against them
            s.add_geometry(m, node_name="a", geom_name="tet", transform=placed("rigid_z", off), metadata={"tag": "A"} if opts.get("attached") else None)
            s.graph.update(frame_to="b", frame_from="a", matrix=to4(MAPS["translate"]), geometry="tet")
            s.add_geometry(m2, node_name="c", geom_name="box", transform=placed("similarity", OFF2 if far else off))
            s.graph.update(frame_to="d", frame_from="c", matrix=to4(MAPS["mirror"]), geometry="box")
            s.graph.update(frame_to="frame", matrix=placed("rigid_xy", off[[1, 2, 0]]))          # a frame without geometry
            frame_pts = np.array([[0, 0, 0], [1, 0, 0], [0, 1, 0], [0, 0, 1]], dtype=float)

            def points():
                tri = np.array(s.triangles).reshape(-1, 3)
                F = np.array(s.graph.get("frame")[0])
                return np.vstack([tri, frame_pts @ F[:3, :3].T + F[:3, 3]])
            nodes0 = [str(x) for x in s.triangles_node]
            pts0 = points()
            r = base_record(rkind, pts0, [], names, restore)
            d, T = obs_den(r)
            if warm != "none":
                s.bounds, s.triangles, s.extents
            apply_all(s, kind, names, restore, opts)
            if not np.array_equal(np.array(m.vertices), TETV) or not np.array_equal(np.array(m2.vertices), BOXV):
                r["exc"] = "scene_transform_modified_geometry"
            o = empty_obs(d)
            # Scene.triangles places points only (no re-winding is claimed for it): compare points
            o["pts"] = snap(points(), d, "triangles")
            # bounds cover the triangles only (the record's points include the free frame): compared with them below
            if not np.allclose(np.asarray(s.bounds), [points()[:-4].min(axis=0), points()[:-4].max(axis=0)], atol=1e-9):
                r["side"].append("scene_bounds_differ_from_bounds_of_its_triangles")
            if [str(x) for x in s.triangles_node] != nodes0 or sorted(s.graph.nodes_geometry) != ["a", "b", "c", "d"] or \
                    [s.graph[n][1] for n in "abcd"] != ["tet", "tet", "box", "box"]:
                r["side"].append("scene_nodes_or_geometry_names_changed")
            if opts.get("attached") and s.graph.transforms.edge_data[("world", "a")].get("metadata") != {"tag": "A"}:
                r["side"].append("attached_data_changed:node_metadata")
            r["obs"] = o
            return r
    except (Off, Raised) as e:
        r = base_record(rkind, [[0, 0, 0]], [], names, restore)
        r["exc"] = ("offlattice:" if isinstance(e, Off) else "raised:") + str(e)
        r["obs"] = empty_obs()
        return r
    raise MachineryError("unknown kind " + kind)


# ------------------------------------------------------------------ symbolic-term route (numpy evaluates M.p)
def make_curved(tm, which):
    P = tm.primitives
    T = np.eye(4)
    T[:3, :3] = RX
    T[:3, 3] = [1, 2, 3]
    if which == "extrusion":
        from shapely.geometry import Polygon
        return P.Extrusion(polygon=Polygon([(0, 0), (2, 0), (2, 1), (1, 1), (1, 3), (0, 3)]), height=1.5, transform=T)
    return {"sphere": lambda: P.Sphere(radius=2.0, center=[1, 2, 3], subdivisions=1),
            "cylinder": lambda: P.Cylinder(radius=1.5, height=3.0, sections=6, transform=T),
            "capsule": lambda: P.Capsule(radius=1.0, height=2.0, sections=6, transform=T)}[which]()


def curved_case(tm, which, names, restore, opts):
    """Curved primitives and the extrusion: numpy evaluates the map (symbolic-term route).
    -> (failure or None, 'accepted' | 'refused')"""
    p = make_curved(tm, which)
    v0 = np.array(p.vertices)
    f0 = np.array(p.faces)
    vol0, com0, area0, inertia0 = float(p.volume), np.array(p.center_mass), float(p.area), np.array(p.moment_inertia)
    total = np.eye(4)
    for n in names:
        total = to4(MAPS[n]) @ total
    base = {"kind": "prim_" + which, "maps": names, "restore": restore}
    try:
        apply_all(p, "prim_" + which, names, restore, opts)
    except Raised as e:
        return dict(base, clause="raised", exc=str(e)), "accepted"
    except ValueError:
        # a refused map must leave the primitive as it was (only single maps: an earlier map of a
        # sequence has been applied legitimately)
        if len(names) == 1 and not restore:
            v1 = np.array(p.vertices)
            if v1.shape != v0.shape or np.abs(v1 - v0).max() > 1e-9 or abs(float(p.volume) - vol0) > 1e-9:
                return dict(base, clause="refused_map_modified_primitive", volume_before=vol0, volume_after=float(p.volume)), "refused"
        return None, "refused"
    det = 1.0 if restore else float(np.linalg.det(total[:3, :3]))
    Mt = np.eye(4) if restore else total
    want = (np.column_stack([v0, np.ones(len(v0))]) @ Mt.T)[:, :3]
    got = np.array(p.vertices)
    scale = max(1.0, float(np.abs(want).max()))
    # the closed-form quantities of the primitive follow the same laws as a mesh
    s = abs(det) ** (1.0 / 3.0)
    if abs(float(p.volume) - abs(det) * vol0) > 1e-9 * max(1.0, abs(det) * vol0):
        return dict(base, clause="volume_scales_by_abs_det", got=float(p.volume), want=abs(det) * vol0), "accepted"
    if np.abs(np.array(p.center_mass) - (Mt[:3, :3] @ com0 + Mt[:3, 3])).max() > 1e-8 * scale:
        return dict(base, clause="centre_of_mass_maps_through_M"), "accepted"
    if abs(float(p.area) - s * s * area0) > 1e-9 * max(1.0, s * s * area0):
        return dict(base, clause="area_scales_by_s2", got=float(p.area), want=s * s * area0), "accepted"
    if np.abs(np.asarray(p.bounds) - [got.min(axis=0), got.max(axis=0)]).max() > 1e-8 * scale:
        return dict(base, clause="bounds_follow_points"), "accepted"
    # an accepted map is a similarity s.Q: inertia about the centre of mass follows s^5 Q I Q^T = |det| M I M^T
    want_i = abs(det) * Mt[:3, :3] @ inertia0 @ Mt[:3, :3].T
    if np.abs(np.array(p.moment_inertia) - want_i).max() > 1e-8 * max(1.0, float(np.abs(want_i).max())):
        return dict(base, clause="inertia_tensor_law", got=np.round(np.array(p.moment_inertia), 6).tolist(), want=np.round(want_i, 6).tolist()), "accepted"
    if which == "sphere":
        # a sphere is invariant under rotation about its centre and the library keeps its tessellation
        # axis aligned (tests/test_primitives.py relies on it), so "every point moves to M.p" is read for
        # the point SET: the centre maps through M and every vertex stays on the sphere of radius s.r
        c_want = (Mt @ np.array([1.0, 2.0, 3.0, 1.0]))[:3]
        c_got = np.array(p.primitive.center)
        rad = np.linalg.norm(got - c_got, axis=1)
        if len(got) != len(v0) or np.abs(c_got - c_want).max() > 1e-8 * 10 or np.abs(rad - 2.0 * s).max() > 1e-8 * 10:
            return dict(base, clause="sphere_centre_and_radius"), "accepted"
        if not p.is_watertight or tm.Trimesh(got, np.array(p.faces), process=False).volume <= 0:
            return dict(base, clause="solid_stays_valid"), "accepted"
        return None, "accepted"
    if got.shape != want.shape or np.abs(got - want).max() > 1e-8 * scale:
        return dict(base, clause="points_move_to_Mp", max_error=float(np.abs(got - want).max()) if got.shape == want.shape else "shape"), "accepted"
    if not np.array_equal(np.array(p.faces), f0) and det > 0:
        return dict(base, clause="faces_changed"), "accepted"
    if not p.is_watertight or tm.Trimesh(got, np.array(p.faces), process=False).volume <= 0:
        return dict(base, clause="solid_stays_valid"), "accepted"
    return None, "accepted"


def refused_case(tm, names, warm):
    """A Box primitive that refuses a single map must be left exactly as it was."""
    T0 = np.eye(4)
    T0[:3, 3] = [2, 4, 2]
    b = tm.primitives.Box(extents=[4, 8, 4], transform=T0)
    v0, vol0, e0 = np.array(b.vertices), float(b.volume), np.array(b.primitive.extents)
    if warm:
        b.bounds, b.face_normals
    try:
        apply_all(b, "prim_box", names, False, {})
    except Raised:
        return None, False         # reported by the prim_box records
    except ValueError:
        v1 = np.array(b.vertices)
        if v1.shape != v0.shape or np.abs(v1 - v0).max() > 1e-9 or abs(float(b.volume) - vol0) > 1e-9 or \
                np.abs(np.array(b.primitive.extents) - e0).max() > 1e-9:
            return {"kind": "prim_box", "clause": "refused_map_modified_primitive", "maps": names, "warm": warm,
                    "extents_before": e0.tolist(), "extents_after": np.array(b.primitive.extents).tolist()}, True
        return None, True
    return None, False


NEAR_KINDS = ["mesh", "cloud", "path3d", "path2d", "voxel", "voxel_identity", "scene", "prim_box", "prim_cylinder"]


def near_identity(tm, kinds=NEAR_KINDS):
    """Either side of the identity shortcuts: |M - I| <= 1e-8 (no-op) and rotation part <= 1e-6,
    on every geometry kind; numpy evaluates M.p; the tolerance is the documented granularity of
    the shortcut (1e-8 per unit of size; a scene graph repairs nearly rigid matrices within its
    `repair_rigid`, 1e-5 by default)."""
    from trimesh.path.entities import Line
    fails = []
    n = {k: 0 for k in kinds}
    bf = box_faces(tm)
    T0 = np.diag([2.0, 2.0, 2.0, 1.0])
    T0[:3, 3] = [2, 0, 4]
    dn = np.array([[[1, 0], [1, 1], [0, 1]], [[0, 0], [1, 0], [1, 1]]], dtype=bool)

    def build(kind):
        if kind == "mesh":
            m = tm.Trimesh(BOXV.copy(), bf.copy(), process=False)
            return m, (lambda: np.array(m.vertices)), (lambda: (m.face_normals, m.vertex_normals, m.area, m.bounds))
        if kind == "cloud":
            c = tm.PointCloud(BOXV.copy())
            return c, (lambda: np.array(c.vertices)), (lambda: (c.bounds, c.centroid))
        if kind == "path3d":
            p = tm.path.Path3D(entities=[Line([0, 1, 3, 2, 0])], vertices=BOXV.copy(), process=False)
            return p, (lambda: np.array(p.vertices)), (lambda: (p.length, p.bounds, p.discrete))
        if kind == "path2d":
            p = tm.path.Path2D(entities=[Line([0, 1, 2, 3, 0])], vertices=np.array([[0, 0], [4, 0], [4, 2], [0, 2]], dtype=float), process=False)
            return p, (lambda: np.array(p.vertices)), (lambda: (p.length, p.bounds, p.area))
        if kind in ("voxel", "voxel_identity"):
            g = tm.voxel.VoxelGrid(dn.copy(), transform=(T0.copy() if kind == "voxel" else np.eye(4)))
            return g, (lambda: np.array(g.points)), (lambda: (g.points, g.bounds, g._transform.is_identity))
        if kind == "scene":
            s = tm.Scene()
            s.add_geometry(tm.Trimesh(BOXV.copy(), bf.copy(), process=False), node_name="a", transform=to4(MAPS["rigid_z"]))
            s.add_geometry(tm.Trimesh(BOXV.copy(), bf.copy(), process=False), node_name="b")
            return s, (lambda: np.array(s.triangles).reshape(-1, 3)), (lambda: (s.bounds, s.triangles))
        if kind == "prim_box":
            b = tm.primitives.Box(extents=[4, 8, 4], transform=to4(MAPS["translate"]))
            return b, (lambda: np.array(b.vertices)), (lambda: (b.bounds, b.face_normals))
        if kind == "prim_cylinder":
            b = tm.primitives.Cylinder(radius=1.5, height=3.0, sections=6, transform=to4(MAPS["rigid_z"]))
            return b, (lambda: np.array(b.vertices)), (lambda: (b.bounds, b.face_normals))
        raise MachineryError("near_identity kind " + kind)

    for kind in kinds:
        for eps in (4e-9, 3e-8, 4e-7, 3e-6, 1e-4):
            for what in ("translate", "rotate", "scale", "scale_x", "translate_neg", "rotate_x"):
                dim = 3 if kind == "path2d" else 4
                M = np.eye(dim)
                if what == "translate":
                    M[0, dim - 1] = eps
                elif what == "translate_neg":
                    M[1, dim - 1] = -eps
                elif what == "rotate":
                    M[:2, :2] = [[np.cos(eps), -np.sin(eps)], [np.sin(eps), np.cos(eps)]]
                elif what == "rotate_x":
                    if dim == 3:
                        continue
                    M[1:3, 1:3] = [[np.cos(eps), np.sin(eps)], [-np.sin(eps), np.cos(eps)]]
                elif what == "scale_x":
                    M[0, 0] = 1 + eps
                else:
                    M[:dim - 1, :dim - 1] *= 1 + eps       # uniform: a primitive can represent it
                for warm in (False, True):
                    obj, get, read = build(kind)
                    v = get()
                    if warm:
                        read()
                    try:
                        obj.apply_transform(M.copy())
                    except Exception as e:
                        if kind.startswith("prim") and isinstance(e, ValueError):
                            continue           # a primitive may refuse (anisotropic scale)
                        n[kind] += 1
                        fails.append({"clause": "raised", "kind": kind, "eps": eps, "what": what, "warm": warm, "exc": repr(e)[:160]})
                        continue
                    n[kind] += 1
                    want = v @ M[:dim - 1, :dim - 1].T + M[:dim - 1, dim - 1]
                    # documented granularity of the shortcut: 1e-8 absolute per unit of size
                    tol = 1e-8 * 8.0 + 1e-12
                    if kind == "scene":
                        tol = max(tol, float(obj.graph.repair_rigid or 0.0) * 8.0)
                    got = get()
                    if got.shape != want.shape or np.abs(got - want).max() > tol:
                        fails.append({"clause": "near_identity_points", "kind": kind, "eps": eps, "what": what, "warm": warm,
                                      "err": float(np.abs(got - want).max()) if got.shape == want.shape else "shape"})
                    if kind == "mesh":
                        fresh = tm.Trimesh(np.array(obj.vertices), np.array(obj.faces), process=False)
                        if np.abs(np.array(obj.face_normals) - np.array(fresh.face_normals)).max() > 2e-6:
                            fails.append({"clause": "near_identity_normals", "kind": kind, "eps": eps, "what": what, "warm": warm})
    return n, fails


def _chunk(args):
    tm = import_trimesh()
    out, fails, tally = [], [], {"accepted": 0, "refused": 0, "refusal_checked": 0}
    for job in args:
        if job[0] == "exact":
            _, fam, kind, names, restore, warm, opts = job
            try:
                r = run_case(tm, kind, names, restore, warm, opts)
            except MachineryError:
                raise
            except Exception as e:
                # the library raised while a value was READ after the maps had been applied (e.g. a voxel
                # grid whose transform became singular): an observation of the tree under test, not a
                # failure of the harness
                fails.append({"clause": "raised_while_reading:" + kind, "kind": kind, "maps": names, "restore": restore,
                              "warm": warm, "family": fam, "exc": repr(e)[:200]})
                continue
            r["warm"] = warm
            r["family"] = fam
            r["opts"] = opts
            out.append(r)
        elif job[0] == "curved":
            _, which, names, restore, opts = job
            f, how = curved_case(tm, which, names, restore, opts)
            tally[how] += 1
            if f:
                fails.append(f)
        else:
            _, names, warm = job
            f, refused = refused_case(tm, names, warm)
            tally["refusal_checked"] += int(refused)
            if f:
                fails.append(f)
    return out, fails, tally


def build_jobs(tier):
    rs = np.random.RandomState(seed())
    quick = tier == "quick"
    jobs = []

    def exact(fam, kind, names, restore, warm, **opts):
        if restore and any(n in SINGULAR for n in names):
            return
        T = total_int([MAPS[n] for n in names])
        if T["q"] > 243 or T["maxl"] > 400:
            return                                    # keeps TLC's integers small
        if kind.endswith("_far") and (T["q"] != 1 or T["rowsum"] * (4.0001e8 if kind == "scene_far" else 5.1e5) + T["maxt"] >= LIM):
            return
        jobs.append(("exact", fam, kind, list(names), restore, warm, opts))

    def pick(seq, k):
        seq = list(seq)
        return seq if len(seq) <= k else [seq[i] for i in rs.permutation(len(seq))[:k]]

    def warms_of(kind):
        return ["none", "normals", "all"] if kind.startswith("mesh") else ["none", "warm"]

    kinds3 = ["mesh_box", "mesh_tet", "cloud", "path3d", "prim_box", "voxel", "voxel_identity", "scene"]
    # ---- base: single maps, round trips, ordered pairs (histories of length 2), triples
    for kind in kinds3 + ["path2d"]:
        ns = PLANAR if kind == "path2d" else MATRIX
        warms = warms_of(kind)
        for n in ns:
            for warm in warms:
                exact("base", kind, [n], False, warm)
                exact("base", kind, [n], True, warm)
        pairs = list(itertools.product(ns, repeat=2))
        if quick:
            pairs = pick(pairs, 120 if kind == "mesh_box" else 36)
        for a, b in pairs:
            exact("base", kind, [a, b], False, warms[-1] if (len(a) + len(b)) % 2 else "none")
        if not quick:
            for _ in range(500):
                tri = [ns[j] for j in rs.randint(len(ns), size=3)]
                exact("base", kind, tri, bool(rs.randint(2)), warms[rs.randint(len(warms))])
    # ---- every map applied twice (mirror twice = no re-winding)
    for kind in kinds3:
        for j, n in enumerate(MATRIX):
            if quick and kind in ("mesh_tet", "voxel_identity", "path3d") and j % 2:
                continue              # these kinds share the code of mesh_box / voxel / cloud: every other map
            exact("twice", kind, [n, n], False, warms_of(kind)[-1])
    # ---- seeds: other meshes (two bodies, open, unreferenced vertices, degenerate faces)
    for kind in ("mesh_two", "mesh_open", "mesh_unref", "mesh_degen"):
        for n in MATRIX:
            for warm in (["none", "all"] if quick else warms_of(kind)):
                exact("seeds", kind, [n], False, warm)
            exact("seeds", kind, [n], True, "normals")
        for a, b in pick(itertools.product(MATRIX, repeat=2), 30 if quick else 10 ** 6):
            exact("seeds", kind, [a, b], False, "all" if (len(a) + len(b)) % 2 else "none")
    # ---- entry points: apply_scale / apply_translation build the matrix themselves
    for kind in MESH_KINDS[:2] + ["cloud", "path3d", "path2d", "prim_box", "voxel", "voxel_identity", "scene"]:
        es = PLANAR_ENTRY if kind == "path2d" else ENTRY
        ms = PLANAR if kind == "path2d" else MATRIX
        for n in es:
            # the helper's argument as given, as float ndarray, as tuple (and as integer ndarray in the round trip)
            for w, warm in enumerate(warms_of(kind) + (["none"] if len(warms_of(kind)) == 2 else [])):
                exact("entry", kind, [n], False, warm, argform=ARGFORMS[w % 3])
            exact("entry", kind, [n], True, warms_of(kind)[-1], argform="int_array")
        both = [(a, b) for a in es for b in ms] + [(b, a) for a in es for b in ms] + list(itertools.product(es, repeat=2))
        for k, (a, b) in enumerate(pick(both, 24 if quick else 10 ** 6)):
            exact("entry", kind, [a, b], False, warms_of(kind)[(len(a) + len(b)) % 2], argform=ARGFORMS[k % 4])
    # ---- geometry far from the origin moved by maps that are small against its coordinates
    for kind in FAR_KINDS:
        big = kind == "scene_far"
        for j, n in enumerate(FAR_MAPS):
            for w, warm in enumerate(warms_of(kind)[-2:] if big or not quick else [warms_of(kind)[-1 - j % 2]]):
                exact("far", kind, [n], False, warm, argform=ARGFORMS[(w + j) % 2])
            if big or not quick or j % 3 == 0:
                exact("far", kind, [n], True, warms_of(kind)[-1])
        pairs = [("nudge", "nudge"), ("e_nudge", "nudge"), ("nudge", "translate"), ("translate", "e_nudge"), ("rigid_z", "nudge"), ("nudge", "rigid_z"),
                 ("mirror", "e_nudge"), ("nudge", "scale"), ("e_nudge", "e_nudge")]
        pairs += pick([x for x in itertools.product(FAR_MAPS, repeat=2) if x not in pairs], (24 if big else 6) if quick else 10 ** 6)
        for k, (a, b) in enumerate(pairs):
            exact("far", kind, [a, b], False, warms_of(kind)[-1 - k % 2], argform=ARGFORMS[k % 2], between=bool(k % 3 == 0))
            if big or k < 4:
                exact("far", kind, [a, b], True, warms_of(kind)[-1])          # nudge, move, then the inverse of both
    # ---- the same matrix in another container / dtype / memory layout
    for kind in MESH_KINDS[:2] + ["cloud", "path3d", "path2d", "prim_box", "voxel", "scene"]:
        ms = PLANAR if kind == "path2d" else MATRIX
        for form in FORMS:
            sel = ["mirror_aniso", "rigid_z", "mirror"] + (pick([m for m in ms if m not in ("mirror_aniso", "rigid_z", "mirror")], 1 if quick else 30))
            for n in sel:
                if n in ms:
                    exact("forms", kind, [n], False, warms_of(kind)[-1], form=form)
            exact("forms", kind, ["rigid_z", "mirror"], False, "none", form=form)
    # ---- attached data (colours, texture coordinates, attributes, metadata, overridden centre of mass)
    for kind in ("mesh_box", "mesh_tet"):
        for variant in ("vertex_colors", "face_colors", "texture", "override"):
            for n in MATRIX:
                exact("attached", kind, [n], False, "all" if variant != "texture" else "normals", attached=variant)
            for n in pick(MATRIX, 6 if quick else 30):
                exact("attached", kind, [n], True, "none", attached=variant)
            for a, b in pick(itertools.product(MATRIX, repeat=2), 10 if quick else 10 ** 6):
                exact("attached", kind, [a, b], False, "normals", attached=variant)
    for n in MATRIX + ENTRY:
        exact("attached", "scene", [n], False, "warm", attached="node_metadata")
    # ---- a reader looks at the object between the two maps of a pair
    for kind in kinds3 + ["path2d", "mesh_two", "mesh_degen"]:
        ms = PLANAR if kind == "path2d" else MATRIX
        pairs = list(itertools.product(ms, repeat=2))
        for a, b in pick(pairs, (80 if kind == "mesh_box" else 16) if quick else 10 ** 6):
            exact("between", kind, [a, b], False, warms_of(kind)[(len(a) + len(b)) % len(warms_of(kind))], between=True)
    # ---- empty geometries
    for kind in ("mesh_empty", "cloud_empty", "voxel_empty"):
        for n in MATRIX + ENTRY:
            exact("empty", kind, [n], False, "none")
    # ---- curved primitives and the extrusion (numpy route)
    for which in ("sphere", "cylinder", "capsule", "extrusion"):
        for n in MATRIX + ENTRY:
            jobs.append(("curved", which, [n], False, {}))
            if n not in SINGULAR:
                jobs.append(("curved", which, [n], True, {}))
        core = ["rigid_z", "rigid_xy", "similarity", "translate", "scale", "rot345", "rot_q3", "half", "e_scale2", "e_translate", "e_scale_half"]
        for a, b in itertools.product(core, repeat=2):
            jobs.append(("curved", which, [a, b], False, {"between": (len(a) + len(b)) % 2 == 0}))
        for form in FORMS:
            jobs.append(("curved", which, ["rigid_z"], False, {"form": form}))
    # ---- a refused map leaves the primitive unchanged
    for n in MATRIX + ENTRY:
        for warm in (False, True):
            jobs.append(("refused", [n], warm))
    return jobs


NEED = {"base": 700, "twice": 120, "seeds": 300, "entry": 250, "forms": 150, "attached": 250, "between": 150, "empty": 60, "far": 180}
NEED["twice"] = 100


def main(argv):
    tier = tier_from_args(argv)
    V = Verdict(PROP, tier)
    tm = import_trimesh()
    jobs = build_jobs(tier)
    try:
        res = pmap(_chunk, jobs, chunk=25)
    except MachineryError:
        raise
    except Exception as e:
        raise MachineryError("harness worker failed: %r" % (e,))
    cases, side_fails = [], []
    tally = {"accepted": 0, "refused": 0, "refusal_checked": 0}
    for out, fails, t in res:
        cases += out
        side_fails += fails
        for k in tally:
            tally[k] += t[k]
    # primitives that legitimately refuse a map
    refused = [c for c in cases if c.get("may_raise") and c["obs"] is None]
    cases = [c for c in cases if c["obs"] is not None]
    meta = []
    for k, c in enumerate(cases):
        c["id"] = k
        meta.append({"kind": c.pop("kind"), "names": c.pop("names"), "warm": c.pop("warm"), "restore": c["restore"],
                     "family": c.pop("family"), "opts": c.pop("opts"), "side": c.pop("side")})
        c.pop("may_raise", None)
    rejects, states, wall = tlc.validate_batches("c04", "Covariance", cases, CFG, timeout=1500)
    for cid, clause in sorted(rejects.items()):
        V.violation(f"{meta[cid]['kind']}:{clause}", dict({k: v for k, v in meta[cid].items() if k != "side"}, exc=cases[cid]["exc"],
                                                          observed_points=cases[cid]["obs"]["pts"][:4], den=cases[cid]["obs"]["den"]))
    for cid, m in enumerate(meta):
        for sd in m["side"]:
            V.violation(f"{m['kind']}:{sd}", {k: v for k, v in m.items() if k != "side"})
    for f in side_fails:
        V.violation(f"{f['kind']}:{f['clause']}", f)
    n_near, near_fails = near_identity(tm)
    for f in near_fails:
        V.violation(f"{f['kind']}:{f['clause']}", f)
    bykind, byfam, laws, forms_seen, entry_seen, argforms_seen = {}, {}, {}, set(), set(), set()
    for m, c in zip(meta, cases):
        bykind[m["kind"]] = bykind.get(m["kind"], 0) + 1
        byfam[m["family"]] = byfam.get(m["family"], 0) + 1
        for law in ("has_vol", "has_com", "has_area", "has_inertia", "has_bounds", "has_parea", "has_plen"):
            laws[law] = laws.get(law, 0) + int(bool(c["obs"][law]))
        if m["family"] == "forms":
            forms_seen.add(m["opts"]["form"])
        entry_seen.update(n for n in m["names"] if n in ENTRY)
        argforms_seen.update((n, m["opts"].get("argform", "asis")) for n in m["names"] if n in VECTOR_ENTRY)
    # ---- no vacuity: every family, kind, law, container and entry point was really exercised
    for fam, need in NEED.items():
        if byfam.get(fam, 0) < need:
            raise MachineryError(f"family {fam}: only {byfam.get(fam, 0)} records (need {need})")
    for kind in MESH_KINDS + FAR_KINDS + ["cloud", "path3d", "path2d", "prim_box", "voxel", "voxel_identity", "scene", "mesh_empty", "cloud_empty", "voxel_empty"]:
        if bykind.get(kind, 0) < 20:
            raise MachineryError(f"kind {kind}: only {bykind.get(kind, 0)} records")
    for law, need in (("has_vol", 400), ("has_com", 400), ("has_area", 60), ("has_inertia", 60), ("has_bounds", 800), ("has_parea", 120), ("has_plen", 60)):
        if laws.get(law, 0) < need:
            raise MachineryError(f"law {law}: carried by only {laws.get(law, 0)} records (need {need})")
    if forms_seen != set(FORMS) or entry_seen != set(ENTRY):
        raise MachineryError(f"containers {sorted(forms_seen)} / entry points {sorted(entry_seen)} incomplete")
    missing = [(n, af) for n in VECTOR_ENTRY for af in ("asis", "ndarray", "tuple") if (n, af) not in argforms_seen]
    if missing:
        raise MachineryError(f"entry point argument containers never exercised: {missing}")
    rational = sum(1 for m in meta if any(n in RATIONAL for n in m["names"]))
    singular = sum(1 for m in meta if any(n in SINGULAR for n in m["names"]))
    if rational < 200 or singular < 80:
        raise MachineryError(f"rational maps in {rational} records, singular in {singular}")
    if tally["accepted"] < 300 or tally["refused"] < 40 or tally["refusal_checked"] < 8:
        raise MachineryError(f"curved primitives: {tally}")
    if min(n_near.values()) < 20:
        raise MachineryError(f"near-identity cases per kind: {n_near}")
    cov = {"states": states, "transitions": states, "traces_validated_against_impl": len(cases),
           "cases_per_kind": bykind, "cases_per_family": byfam, "laws_carried": laws,
           "records_with_rational_maps": rational, "records_with_singular_maps": singular,
           "matrix_containers": sorted(forms_seen), "entry_points": sorted(entry_seen),
           "entry_argument_containers": sorted({af for _, af in argforms_seen}),
           "primitive_refusals_accepted": len(refused), "curved_primitive_cases": tally,
           "near_identity_cases": n_near,
           "map_classes": list(MAPS), "tlc_wall_s": round(wall, 1),
           "samples": [dict({k: v for k, v in meta[len(meta) // 3].items() if k != "side"}, maps=cases[len(meta) // 3]["maps"]),
                       dict({k: v for k, v in meta[-1].items() if k != "side"}, maps=cases[-1]["maps"])]}
    return V.finish("model_checking", cov, assumptions=[
        "exact rational affine maps with integer numerators (cube rotations, mirrors, integer scales, unimodular shears, I + c.J, rational rotations / Householder mirrors, halving, projections, integer translations); lattice geometry",
        "primitives may refuse (ValueError) a map they cannot represent, and are then unchanged; curved primitives and near-identity maps are compared with numpy M.p at 1e-8 relative (scene graphs: their repair_rigid)",
        "a singular map leaves the orientation of the flattened faces open; bounds of a voxel grid are not constrained",
    ])


if __name__ == "__main__":
    try:
        sys.exit(main(sys.argv[1:]))
    except MachineryError as e:
        print("MACHINERY-ERROR:", e)
        sys.exit(2)
