"""X05 - TrimeshSystem.tla: the composition layer (a heap of a mesh, its copy, a scene holding both
by reference and a snapshot of that scene).  Beyond the listed properties: this is where C01, C02,
C09, C10 and C17 meet across objects.

 1. TLC model-checks the module (NoStaleRead, NoSharedState, MemoFresh, TypeOK) and, as self-tests,
    each deviation switch must make it report the invariant it is there for.
 2. TLC emits behaviours (a state cover with VIEW, every history of a small depth, simulated long
    ones); each is replayed into real trimesh objects.  Every read step carries the abstract state
    the SPEC says the object is in (`want`); the real object's answer is compared with the answer
    of a FRESH object built from that abstract state (no history, no cache, no sharing).
 3. hash(scene): within one behaviour different signatures must give different hashes, and the
    hash must not move while nothing is mutated.
"""
import copy
import io
import json
import os
import sys

import numpy as np

from harness import tlc
from harness.common import MachineryError, Verdict, import_trimesh, pmap, seed, tier_from_args

PROP = "X05"
SWITCHES = ("CopyShares", "SnapSharesGeometry", "SnapSharesGraph", "SceneIgnoresGeometry", "GraphForgetsDirty")
EXPECT = {"CopyShares": ("NoSharedState",), "SnapSharesGeometry": ("NoSharedState",), "SnapSharesGraph": ("NoSharedState",),
          "SceneIgnoresGeometry": ("NoStaleRead",), "GraphForgetsDirty": ("MemoFresh", "NoStaleRead")}


def cfg(depth, vals="V2", view=True, invs=None, **sw):
    lines = ["CONSTANTS", f"  MaxDepth = {depth}", f"  Vals <- {vals}"]
    for s in SWITCHES:
        lines.append(f"  {s} = {'TRUE' if sw.get(s) else 'FALSE'}")
    lines.append("SPECIFICATION Spec")
    if view:
        lines.append("VIEW View")
    lines.append(invs if invs is not None else "INVARIANT NoStaleRead\nINVARIANT NoSharedState\nINVARIANT MemoFresh\nINVARIANT TypeOK")
    lines.append("CHECK_DEADLOCK FALSE")
    return "\n".join(lines) + "\n"


# ------------------------------------------------------------------ the real objects
_tm = None
V0 = F0 = None


def _init():
    global _tm, V0, F0
    if _tm is None:
        _tm = import_trimesh()
        b = _tm.creation.box(extents=[2, 2, 2])
        V0 = np.array(b.vertices, dtype=np.float64)
        F0 = np.array(b.faces, dtype=np.int64)
    return _tm


def special(content):
    return V0[0] + [-float(content[0]), 0.0, 0.0] + [0.0, 3.0 * content[1], 0.0]


def verts(content):
    v = V0.copy() + [0.0, 3.0 * content[1], 0.0]
    v[0] = special(content)
    return v


def fresh_mesh(content):
    return _tm.Trimesh(verts(content), F0.copy(), process=False)


def T(n, p):
    M = np.eye(4)
    M[:3, 3] = [6.0 * p, 0.0, 0.0] if n == "na" else [6.0 * p, 0.0, 8.0]
    return M


def fresh_scene(sig):
    s = _tm.Scene()
    for n, g in (("na", "a"), ("nb", "b")):
        val, shift, p = sig[n]
        if p < 0:
            continue
        s.add_geometry(fresh_mesh((val, shift)), geom_name=g, node_name=n, transform=T(n, p))
    return s


def mesh_quant(m, k):
    if k == 0:
        return np.round(np.array(m.bounds), 9).tolist()
    if k == 1:
        return [round(float(m.volume), 9), round(float(m.area), 9)]
    if k == 2:
        return sorted(map(tuple, np.round(np.array(m.triangles_center), 9).tolist()))
    return np.round(np.array(m.centroid), 9).tolist() + np.round(np.array(m.extents), 9).tolist()


def scene_quant(s, k):
    if k == 0:
        return np.round(np.array(s.bounds), 6).tolist()
    if k == 1:
        t = np.round(np.array(s.triangles).reshape(-1, 9), 6)
        return sorted(map(tuple, t.tolist()))
    if k == 2:
        return [round(float(s.area), 6), round(float(s.volume), 6)] + np.round(np.array(s.centroid), 6).tolist()
    d = s.to_mesh() if hasattr(s, "to_mesh") else s.dump(concatenate=True)
    return sorted(map(tuple, np.round(np.array(d.triangles).reshape(-1, 9), 6).tolist()))


def replay(h, rot):
    """Replay one emitted behaviour; returns (failure or None, number of compared reads)."""
    tm = _init()
    A = fresh_mesh((0, 0))
    S = tm.Scene()
    S.add_geometry(A, geom_name="a", node_name="na", transform=T("na", 0))
    objs = {"A": A}
    scenes = {"S": S}
    cur = {"A": (0, 0)}  # the harness' own note of each object's content - used only to FIND the special row
    hashes = {"S": [], "T": []}
    nread = 0
    steps = []

    def geom_of(scene, n):
        return scene.geometry[scene.graph[n][1]]

    def obj(o):
        if o in ("TA", "TB"):
            return geom_of(scenes["T"], "na" if o == "TA" else "nb")
        return objs[o]

    def row(m, o):
        want = special(cur[o])
        d = np.abs(np.asarray(m.vertices) - want).sum(axis=1)
        k = int(np.argmin(d))
        if d[k] > 1e-6:
            return None
        return k

    for j, st in enumerate(h):
        op = st["op"]
        steps.append({k: v for k, v in st.items() if k != "want"})
        style = (rot + j) % 3
        try:
            if op in ("edit", "reassign"):
                o, v = st["o"], st["v"]
                m = obj(o)
                new = (v, cur[o][1])
                if op == "edit":
                    k = row(m, o)
                    if k is None:
                        return ({"clause": "NoSharedState:object_changed_behind_the_users_back", "step": j, "steps": steps, "o": o,
                                 "expected_vertex": special(cur[o]).tolist()}, nread)
                    r = special(new)
                    if style == 0:
                        m.vertices[k] = r
                    elif style == 1:
                        m.vertices[k, 0] = r[0]
                    else:
                        m.vertices[k:k + 1] = r[None, :]
                else:
                    k = row(m, o)
                    nv = np.array(m.vertices, dtype=np.float64).copy()
                    if k is None:
                        nv = verts(new)
                    else:
                        nv[k] = special(new)
                    m.vertices = nv if style != 1 else nv.tolist()
                cur[o] = new
            elif op == "translate":
                o = st["o"]
                m = obj(o)
                dy = 3.0 if st["to"] == 1 else -3.0
                if style == 0:
                    m.apply_translation([0.0, dy, 0.0])
                else:
                    M = np.eye(4)
                    M[1, 3] = dy
                    m.apply_transform(M)
                cur[o] = (cur[o][0], st["to"])
            elif op == "copy_mesh":
                objs["B"] = [A.copy, lambda: copy.copy(A), lambda: copy.deepcopy(A)][style]()
                cur["B"] = cur["A"]
            elif op == "add_to_scene":
                S.add_geometry(objs["B"], geom_name="b", node_name="nb", transform=T("nb", st["p"]))
            elif op == "move":
                scenes[st["s"]].graph.update(frame_to=st["n"], matrix=T(st["n"], st["p"]))
            elif op == "snapshot":
                if st["kind"] == "copy":
                    Tn = S.copy()
                elif st["kind"] == "deepcopy":
                    Tn = copy.deepcopy(S)
                else:
                    Tn = tm.load(io.BytesIO(S.export(file_type="glb")), file_type="glb")
                    if not isinstance(Tn, tm.Scene):
                        raise MachineryError("glb load did not give a scene")
                scenes["T"] = Tn
                cur["TA"] = cur["A"]
                if "nb" in S.graph.nodes_geometry:
                    cur["TB"] = cur["B"]
            elif op == "read_mesh":
                nread += 1
                k = (rot + j) % 4
                got = mesh_quant(obj(st["o"]), k)
                want = mesh_quant(fresh_mesh(tuple(st["want"])), k)
                if got != want:
                    return ({"clause": "NoStaleRead:mesh", "step": j, "steps": steps, "o": st["o"], "quantity": k,
                             "got": str(got)[:200], "want": str(want)[:200]}, nread)
            elif op == "read_scene":
                nread += 1
                k = (rot + j) % 4
                got = scene_quant(scenes[st["s"]], k)
                want = scene_quant(fresh_scene(st["want"]), k)
                if got != want:
                    return ({"clause": "NoStaleRead:scene", "step": j, "steps": steps, "s": st["s"], "quantity": k,
                             "got": str(got)[:200], "want": str(want)[:200]}, nread)
            elif op == "read_hash":
                nread += 1
                sig = json.dumps(st["want"], sort_keys=True)
                hv = scenes[st["s"]].__hash__()
                for (sig0, h0, j0) in hashes[st["s"]]:
                    # safety direction: different content must never hash alike.  Equal content hashing
                    # differently only costs a cache miss (the edge attributes of a re-written edge are
                    # stored differently), so equality is demanded only when nothing was mutated between
                    quiet = all(h[i]["op"].startswith("read") for i in range(j0 + 1, j))
                    if (sig0 != sig and h0 == hv) or (sig0 == sig and quiet and h0 != hv):
                        return ({"clause": "SceneHashTracksContent:" + ("hash_changed_without_any_mutation" if sig0 == sig else "different_content_equal_hash"),
                                 "step": j, "earlier_step": j0, "steps": steps, "s": st["s"]}, nread)
                hashes[st["s"]].append((sig, hv, j))
            else:
                raise MachineryError("unknown op " + op)
        except MachineryError:
            raise
        except Exception as e:  # the API raised on a legal history
            return ({"clause": "raised:" + op, "step": j, "steps": steps, "exc": repr(e)[:200]}, nread)
    return (None, nread)


def _chunk(items):
    fails, n = [], 0
    for (k, h, rot) in items:
        f, nr = replay(h, rot)
        n += nr
        if f:
            f["history"] = k
            f["rot"] = rot
            fails.append(f)
    return fails, n, len(items)


def main(argv):
    tier = tier_from_args(argv)
    V = Verdict(PROP, tier)
    _init()
    cov = {"tlc_runs": []}
    states = trans = 0

    def note(name, r):
        nonlocal states, trans
        states += r.distinct
        trans += r.generated
        cov["tlc_runs"].append({"run": name, "distinct": r.distinct, "generated": r.generated, "depth": r.depth, "wall_s": round(r.wall, 1)})

    d = tlc.prepare("x05/mc")
    dmc = 7 if tier == "quick" else 9
    r = tlc.must(tlc.run(d, "TrimeshSystem", cfg(dmc), timeout=1500), "mc")
    note(f"mc depth={dmc} vals=2", r)
    if tier == "thorough":
        r = tlc.must(tlc.run(d, "TrimeshSystem", cfg(7, vals="V3"), timeout=1500), "mc3")
        note("mc depth=7 vals=3", r)
    st = {}
    for sw in SWITCHES:
        rr = tlc.run(d, "TrimeshSystem", cfg(9, **{sw: True}), timeout=1500)
        st[sw] = rr.violated
        if rr.violated not in EXPECT[sw]:
            raise MachineryError(f"spec self-test {sw}: expected {EXPECT[sw]}, got {rr.violated} {rr.error}")
    cov["spec_selftests"] = st

    behs = []
    d = tlc.prepare("x05/emit")
    dc = 5 if tier == "quick" else 6
    r = tlc.must(tlc.run(d, "TrimeshSystem", cfg(dc, invs="INVARIANT EmitAll"), workers=1, timeout=1500), "emit-cover")
    note(f"emit state cover depth={dc}", r)
    n_cover = len(r.printed)
    behs += r.printed
    dl = 3
    r = tlc.must(tlc.run(d, "TrimeshSystem", cfg(dl, view=False, invs="INVARIANT EmitLeaf"), workers=1, timeout=1500), "emit-leaf")
    note(f"emit all histories depth={dl}", r)
    leaf = [h for h in r.printed if any(x["op"].startswith("read") for x in h)]
    n_leaf = len(leaf)
    behs += leaf
    nsim, dsim = (30, 14) if tier == "quick" else (600, 18)
    r = tlc.must(tlc.run(d, "TrimeshSystem", cfg(dsim, vals="V3", view=False, invs="INVARIANT EmitLeaf\nINVARIANT NoStaleRead\nINVARIANT NoSharedState"),
                         workers=1, simulate=f"num={nsim}", depth=dsim + 1, seed=seed() + 11, timeout=1500), "simulate")
    note(f"simulate num={nsim} depth={dsim}", r)
    n_sim = len(r.printed)
    behs += r.printed
    if n_cover < 200 or n_leaf < 500 or n_sim < 100:
        raise MachineryError(f"too few behaviours: cover={n_cover} leaf={n_leaf} sim={n_sim}")
    ops = {}
    for h in behs:
        for x in h:
            ops[x["op"]] = ops.get(x["op"], 0) + 1
    for need in ("edit", "reassign", "translate", "copy_mesh", "add_to_scene", "move", "snapshot", "read_mesh", "read_scene", "read_hash"):
        if ops.get(need, 0) < 20:
            raise MachineryError("operation hardly exercised: " + need)
    items = []
    for k, h in enumerate(behs):
        for rot in ((0, 1, 2) if tier == "thorough" or k % 3 == 0 else ((k + seed()) % 3,)):
            items.append((k, h, rot))
    res = pmap(_chunk, items, chunk=80)
    nreads = sum(x[1] for x in res)
    for x in res:
        for f in x[0]:
            V.violation(f["clause"], f)
    cov.update({"states": states, "transitions": trans, "traces_validated_against_impl": len(items),
                "behaviours": {"state_cover": n_cover, "all_histories_depth3_with_reads": n_leaf, "simulated": n_sim},
                "reads_compared": nreads, "operations_replayed": ops,
                "samples": [behs[0], behs[len(behs) // 2][:6]]})
    return V.finish("model_checking", cov, assumptions=[
        "one user mesh A (a box, one vertex written to 2-3 positions, translated by +-3), one copy B, one scene S with up to two instances, one snapshot T",
        "expected values are those of fresh objects built from the abstract state the spec emits with every read",
        "glb snapshots are compared at 1e-6 (float32 coordinates are exact for the lattice used)",
    ])


if __name__ == "__main__":
    try:
        sys.exit(main(sys.argv[1:]))
    except MachineryError as e:
        print("MACHINERY-ERROR:", e)
        sys.exit(2)
